module yieldinst

go 1.21
