package verifsim

import (
	"errors"
	"os"
	"sync/atomic"
	"syscall"
	"time"

	"github.com/superfly/litefs"
)

var errFenced = errors.New("verifsim: node is dead (fenced)")

// SimOS wraps the real OS for one node. Every call is a step boundary: it is
// reported to Hook (crash imaging), is a scheduler yield point, can be failed
// by an injected fault, and fails once the node is fenced. Files it creates or
// renames get their mtime set to simulated time so that retention, which
// compares mtimes with time.Now(), also lives in simulated time.
type SimOS struct {
	r      *Run
	node   int
	fenced atomic.Bool

	// Hook is called before ("pre") and after ("post") each OS call.
	Hook func(phase, call, op, path string)

	// FailNth, when >0, makes the N-th subsequent call (1-based, counted over
	// calls for which FailMatch returns true) return FailErr instead of running.
	FailNth   int64
	FailErr   error
	FailMatch func(call, op, path string) bool
	fired     int64
	FiredAt   string // "call:op" of the injected failure, once it fired

	Calls int64
}

var _ litefs.OS = (*SimOS)(nil)

func (o *SimOS) pre(call, op, path string) error {
	if o.fenced.Load() {
		return errFenced
	}
	atomic.AddInt64(&o.Calls, 1)
	if o.Hook != nil {
		o.Hook("pre", call, op, path)
		if o.fenced.Load() {
			return errFenced // the hook killed the node at this very point
		}
	}
	if o.r.Sched != nil {
		o.r.Sched.Yield(o.node, "os", call+":"+op)
		if o.fenced.Load() {
			return errFenced
		}
	}
	if o.FailNth > 0 && (o.FailMatch == nil || o.FailMatch(call, op, path)) {
		if n := atomic.AddInt64(&o.fired, 1); n == o.FailNth {
			o.r.Count("fault.os_error")
			o.FiredAt = call + ":" + op
			o.r.Logf("n%d fault: os error at %s:%s %s", o.node, call, op, path)
			if o.FailErr != nil {
				return &os.PathError{Op: call, Path: path, Err: o.FailErr}
			}
			return &os.PathError{Op: call, Path: path, Err: syscall.EIO}
		}
	}
	return nil
}

func (o *SimOS) post(call, op, path string) {
	if o.Hook != nil && !o.fenced.Load() {
		o.Hook("post", call, op, path)
	}
}

func (o *SimOS) touch(path string) {
	t := time.Now() // bubble clock
	_ = os.Chtimes(path, t, t)
}

func (o *SimOS) Create(op, name string) (*os.File, error) {
	if err := o.pre("create", op, name); err != nil {
		return nil, err
	}
	f, err := os.Create(name)
	if err == nil {
		o.touch(name)
	}
	o.post("create", op, name)
	return f, err
}

func (o *SimOS) Mkdir(op, path string, perm os.FileMode) error {
	if err := o.pre("mkdir", op, path); err != nil {
		return err
	}
	err := os.Mkdir(path, perm)
	o.post("mkdir", op, path)
	return err
}

func (o *SimOS) MkdirAll(op, path string, perm os.FileMode) error {
	if err := o.pre("mkdirall", op, path); err != nil {
		return err
	}
	err := os.MkdirAll(path, perm)
	o.post("mkdirall", op, path)
	return err
}

func (o *SimOS) Open(op, name string) (*os.File, error) {
	if err := o.pre("open", op, name); err != nil {
		return nil, err
	}
	f, err := os.Open(name)
	o.post("open", op, name)
	return f, err
}

func (o *SimOS) OpenFile(op, name string, flag int, perm os.FileMode) (*os.File, error) {
	if err := o.pre("openfile", op, name); err != nil {
		return nil, err
	}
	f, err := os.OpenFile(name, flag, perm)
	if err == nil && flag&os.O_CREATE != 0 {
		o.touch(name)
	}
	o.post("openfile", op, name)
	return f, err
}

func (o *SimOS) ReadDir(op, name string) ([]os.DirEntry, error) {
	if err := o.pre("readdir", op, name); err != nil {
		return nil, err
	}
	ents, err := os.ReadDir(name)
	o.post("readdir", op, name)
	return ents, err
}

func (o *SimOS) ReadFile(op, name string) ([]byte, error) {
	if err := o.pre("readfile", op, name); err != nil {
		return nil, err
	}
	b, err := os.ReadFile(name)
	o.post("readfile", op, name)
	return b, err
}

func (o *SimOS) Remove(op, name string) error {
	if err := o.pre("remove", op, name); err != nil {
		return err
	}
	err := os.Remove(name)
	o.post("remove", op, name)
	return err
}

func (o *SimOS) RemoveAll(op, name string) error {
	if err := o.pre("removeall", op, name); err != nil {
		return err
	}
	err := os.RemoveAll(name)
	o.post("removeall", op, name)
	return err
}

func (o *SimOS) Rename(op, oldpath, newpath string) error {
	if err := o.pre("rename", op, newpath); err != nil {
		return err
	}
	err := os.Rename(oldpath, newpath)
	if err == nil {
		o.touch(newpath)
	}
	o.post("rename", op, newpath)
	return err
}

func (o *SimOS) Stat(op, name string) (os.FileInfo, error) {
	if err := o.pre("stat", op, name); err != nil {
		return nil, err
	}
	fi, err := os.Stat(name)
	o.post("stat", op, name)
	return fi, err
}

func (o *SimOS) Truncate(op, name string, size int64) error {
	if err := o.pre("truncate", op, name); err != nil {
		return err
	}
	err := os.Truncate(name, size)
	o.post("truncate", op, name)
	return err
}

func (o *SimOS) WriteFile(op, name string, data []byte, perm os.FileMode) error {
	if err := o.pre("writefile", op, name); err != nil {
		return err
	}
	err := os.WriteFile(name, data, perm)
	if err == nil {
		o.touch(name)
	}
	o.post("writefile", op, name)
	return err
}
