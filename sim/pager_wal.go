package verifsim

type walConn struct{}

func (c *Conn) walClose() {}
