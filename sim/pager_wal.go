package verifsim

import (
	"encoding/binary"
	"os"
	"sort"
	"syscall"
	"time"

	"bazil.org/fuse"
)

// WAL-mode half of PagerSim: a model of wal.c at the level of file operations
// and wal-index (shared memory) stores. The wal-index hash tables are not
// modelled; connections find frames by scanning the log up to mxFrame, which is
// what SQLite's own recovery does. Ground truth: DESIGN.md §4.2 (strace).

const (
	walWriteLock   = 120
	walCkptLock    = 121
	walRecoverLock = 122
	walRead0       = 123
	walDMS         = 128

	readMarkNotUsed = 0xffffffff
	shmHdrSize      = 136
	shmChunk        = 32768
)

// walHdr is the wal-index header (WalIndexHdr), native little-endian in memory.
type walHdr struct {
	iVersion   uint32
	iChange    uint32
	isInit     bool
	bigEnd     bool
	szPage     uint32
	mxFrame    uint32
	nPage      uint32
	frameCksum [2]uint32
	salt       [2]uint32
}

func (h *walHdr) encode() []byte {
	b := make([]byte, 48)
	binary.LittleEndian.PutUint32(b[0:], h.iVersion)
	binary.LittleEndian.PutUint32(b[8:], h.iChange)
	if h.isInit {
		b[12] = 1
	}
	if h.bigEnd {
		b[13] = 1
	}
	ps := h.szPage
	if ps == 65536 {
		ps = 1
	}
	binary.LittleEndian.PutUint16(b[14:], uint16(ps))
	binary.LittleEndian.PutUint32(b[16:], h.mxFrame)
	binary.LittleEndian.PutUint32(b[20:], h.nPage)
	binary.LittleEndian.PutUint32(b[24:], h.frameCksum[0])
	binary.LittleEndian.PutUint32(b[28:], h.frameCksum[1])
	binary.LittleEndian.PutUint32(b[32:], h.salt[0])
	binary.LittleEndian.PutUint32(b[36:], h.salt[1])
	c0, c1 := walCksum(false, 0, 0, b[:40])
	binary.LittleEndian.PutUint32(b[40:], c0)
	binary.LittleEndian.PutUint32(b[44:], c1)
	return b
}

func decodeWalHdr(b []byte) (h walHdr, ok bool) {
	if len(b) < 48 {
		return h, false
	}
	c0, c1 := walCksum(false, 0, 0, b[:40])
	if c0 != binary.LittleEndian.Uint32(b[40:]) || c1 != binary.LittleEndian.Uint32(b[44:]) {
		return h, false
	}
	h.iVersion = binary.LittleEndian.Uint32(b[0:])
	h.iChange = binary.LittleEndian.Uint32(b[8:])
	h.isInit = b[12] != 0
	h.bigEnd = b[13] != 0
	h.szPage = uint32(binary.LittleEndian.Uint16(b[14:]))
	if h.szPage == 1 {
		h.szPage = 65536
	}
	h.mxFrame = binary.LittleEndian.Uint32(b[16:])
	h.nPage = binary.LittleEndian.Uint32(b[20:])
	h.frameCksum[0] = binary.LittleEndian.Uint32(b[24:])
	h.frameCksum[1] = binary.LittleEndian.Uint32(b[28:])
	h.salt[0] = binary.LittleEndian.Uint32(b[32:])
	h.salt[1] = binary.LittleEndian.Uint32(b[36:])
	return h, h.isInit && h.iVersion == 3007000
}

type walConn struct {
	shmf, walf *File
	hdr        walHdr // snapshot taken at read-transaction start
	readLock   int    // -1 none
	write      bool
	nCkpt      uint32
	bigEnd     bool // checksum byte order this connection writes new logs with
	minFrame   uint32
	// frame index: pgno -> frames (ascending) for the log generation idxSalt
	idx      map[uint32][]uint32
	idxUpTo  uint32
	idxHdr   walHdr
	idxValid bool
}

func (c *Conn) frameSize() int64 { return 24 + int64(c.PageSize) }
func (c *Conn) frameOff(f uint32) int64 {
	return 32 + int64(f-1)*c.frameSize()
}

// shm access ------------------------------------------------------------------

func (c *Conn) shmReadHdr() (walHdr, bool, syscall.Errno) {
	b, e := c.wal.shmf.ShmLoad(0, 96)
	if e != 0 {
		return walHdr{}, false, e
	}
	h1, ok1 := decodeWalHdr(b[0:48])
	h2, ok2 := decodeWalHdr(b[48:96])
	if !ok1 || !ok2 || h1 != h2 {
		return walHdr{}, false, 0
	}
	return h1, true, 0
}

func (c *Conn) shmWriteHdr(h walHdr) syscall.Errno {
	b := h.encode()
	// second copy first, then the first copy (walIndexWriteHdr)
	if e := c.wal.shmf.ShmStore(48, b); e != 0 {
		return e
	}
	return c.wal.shmf.ShmStore(0, b)
}

type ckptInfo struct {
	nBackfill uint32
	readMark  [5]uint32
	attempted uint32
}

func (c *Conn) shmReadCkpt() (ckptInfo, syscall.Errno) {
	b, e := c.wal.shmf.ShmLoad(96, 40)
	if e != 0 {
		return ckptInfo{}, e
	}
	var ci ckptInfo
	ci.nBackfill = binary.LittleEndian.Uint32(b[0:])
	for i := 0; i < 5; i++ {
		ci.readMark[i] = binary.LittleEndian.Uint32(b[4+4*i:])
	}
	ci.attempted = binary.LittleEndian.Uint32(b[32:])
	return ci, 0
}

func (c *Conn) shmWriteCkpt(ci ckptInfo) syscall.Errno {
	b := make([]byte, 40)
	binary.LittleEndian.PutUint32(b[0:], ci.nBackfill)
	for i := 0; i < 5; i++ {
		binary.LittleEndian.PutUint32(b[4+4*i:], ci.readMark[i])
	}
	binary.LittleEndian.PutUint32(b[32:], ci.attempted)
	return c.wal.shmf.ShmStore(96, b)
}

func (c *Conn) shmLock(typ fuse.LockType, lo, n int) syscall.Errno {
	return c.wal.shmf.Lock(typ, uint64(lo), uint64(lo+n-1))
}

// open / close ------------------------------------------------------------------

// WalOpen opens the WAL and SHM files of a database that is in WAL mode, the
// way sqlite3PagerOpenWal / unixOpenSharedMemory do.
func (c *Conn) WalOpen() syscall.Errno {
	if c.wal != nil {
		return 0
	}
	// A WAL connection keeps SHARED on the database file for its lifetime.
	if c.lock == 0 {
		if e := c.LockShared(); e != 0 {
			return e
		}
	}
	w := &walConn{readLock: -1}
	wf, e := c.k.Open(c.DB+"-wal", os.O_RDWR|os.O_CREATE, c.Owner)
	if e != 0 {
		return e
	}
	wf.ownerTape = c.T
	w.walf = wf
	sf, e := c.k.Open(c.DB+"-shm", os.O_RDWR|os.O_CREATE, c.Owner)
	if e != 0 {
		wf.Close()
		return e
	}
	w.shmf = sf
	c.wal = w
	c.Mode = ModeWAL
	// DMS: query, try exclusive (first connection truncates), then shared.
	c.wal.shmf.QueryLock(fuse.LockWrite, walDMS, walDMS)
	if e := c.shmLock(fuse.LockWrite, walDMS, 1); e == 0 {
		c.r.Count("wal.dms.first")
		if e := c.wal.shmf.Truncate(3); e != 0 {
			c.walAbort()
			return e
		}
		sm := c.wal.shmf.shm()
		sm.mem, sm.valid, sm.dirty = make([]byte, 3), true, false
	}
	if e := c.shmLock(fuse.LockRead, walDMS, 1); e != 0 {
		c.walAbort()
		return e
	}
	return 0
}

// Die is the death of the process that owns the connection: no unlock calls, the
// kernel closes the descriptors in ascending order - the database file was
// opened first, then the log, then the shm file - and every close drops the
// locks its owner held on that file. The shared mapping stays in the page cache.
func (c *Conn) Die() {
	c.r.Count("pager.process-death")
	if c.dbf != nil {
		c.dbf.Close()
		c.dbf = nil
	}
	if c.jf != nil {
		c.jf.Close()
		c.jf = nil
	}
	if c.wal != nil {
		c.wal.walf.Close()
		c.wal.shmf.Close()
		c.wal = nil
	}
	c.lock = 0
}

func (c *Conn) walAbort() {
	if c.wal == nil {
		return
	}
	c.wal.shmf.Close()
	c.wal.walf.Close()
	c.wal = nil
}

// walClose closes the WAL connection. If checkpointOnClose and this turns out
// to be the last connection (EXCLUSIVE on the database file obtainable), the
// log is checkpointed without any WAL lock and -wal/-shm are unlinked, as
// sqlite3WalClose does.
func (c *Conn) walClose() {
	if c.wal == nil {
		return
	}
	c.wal.shmf.ShmWriteback()
	c.wal.shmf.Close()
	c.wal.walf.Close()
	c.wal = nil
}

// WalCloseLast performs the last-connection close: EXCLUSIVE on the database
// file, backfill everything, truncate, unlink -wal and -shm.
func (c *Conn) WalCloseLast(ref *Image) (string, syscall.Errno) {
	if c.wal == nil {
		return "", 0
	}
	if e := c.dbf.Lock(fuse.LockWrite, sharedFirst, sharedFirst+sharedSize-1); e != 0 {
		c.walClose()
		return "not-last", 0
	}
	// checkpoint with no WAL locks held (exclusive mode of walClose)
	h, ok, e := c.shmReadHdr()
	if e != 0 {
		return "shm-read", e
	}
	if !ok {
		// the wal-index is not initialised: sqlite3WalCheckpoint recovers it first
		if at, e := c.walRecover(); e != 0 {
			return at, e
		}
		if h, ok, e = c.shmReadHdr(); e != 0 {
			return "shm-read", e
		}
	}
	if ok && h.mxFrame > 0 {
		if at, e := c.backfill(h, h.mxFrame, 0); e != 0 {
			return at, e
		}
		if sz, e2 := c.dbf.Size(); e2 == 0 && sz > int64(h.nPage)*int64(c.PageSize) {
			if e := c.dbf.Truncate(int64(h.nPage) * int64(c.PageSize)); e != 0 {
				return "close-db-truncate", e
			}
		}
		if e := c.dbf.Fsync(); e != 0 {
			return "close-db-fsync", e
		}
	}
	c.wal.shmf.Close()
	c.wal.walf.Close()
	c.wal = nil
	c.k.Unlink(c.DB + "-wal")
	c.k.Unlink(c.DB + "-shm")
	c.dbf.Lock(fuse.LockRead, sharedFirst, sharedFirst+sharedSize-1)
	return "", 0
}

// recovery ------------------------------------------------------------------------

// walRecover rebuilds the wal-index header from the log (walIndexRecover):
// WRITE exclusive, CKPT+RECOVER in one request, READ1..4 probed exclusively.
func (c *Conn) walRecover() (string, syscall.Errno) {
	c.r.Count("wal.recover")
	heldWrite := c.wal.write
	if !heldWrite {
		if e := c.shmLock(fuse.LockWrite, walWriteLock, 1); e != 0 {
			return "recover-write-lock", e
		}
	}
	release := func() {
		if !heldWrite {
			c.shmLock(fuse.LockUnlock, walWriteLock, 1)
		}
	}
	if e := c.shmLock(fuse.LockWrite, walCkptLock, 2); e != 0 {
		release()
		return "recover-ckpt-lock", e
	}
	for i := 1; i <= 4; i++ {
		if e := c.shmLock(fuse.LockWrite, walRead0+i, 1); e == 0 {
			c.shmLock(fuse.LockUnlock, walRead0+i, 1)
		}
	}
	// make sure the mapping has its first chunk
	if e := c.wal.shmf.ShmStore(shmChunk-1, []byte{0}); e != 0 {
		c.shmLock(fuse.LockUnlock, walCkptLock, 2)
		release()
		return "recover-shm-extend", e
	}
	size, e := c.wal.walf.Size()
	if e != 0 {
		c.shmLock(fuse.LockUnlock, walCkptLock, 2)
		release()
		return "recover-wal-size", e
	}
	var h walHdr
	h.iVersion, h.isInit, h.szPage = 3007000, true, c.PageSize
	var raw []byte
	if size > 32 {
		raw, e = c.wal.walf.Pread(0, int(size))
		if e != 0 {
			c.shmLock(fuse.LockUnlock, walCkptLock, 2)
			release()
			return "recover-wal-read", e
		}
	}
	sc := ScanWAL(raw)
	old, _, _ := c.shmReadHdr()
	h.iChange = old.iChange + 1
	if sc.HeaderOK && sc.PageSize == c.PageSize {
		h.salt = [2]uint32{sc.Salt1, sc.Salt2}
		h.bigEnd = sc.BigEndian
		c.wal.nCkpt = binary.BigEndian.Uint32(raw[12:])
		c0, c1 := binary.BigEndian.Uint32(raw[24:]), binary.BigEndian.Uint32(raw[28:])
		h.frameCksum = [2]uint32{c0, c1}
		if sc.LastCommit > 0 {
			fr := sc.Frames[sc.LastCommit-1]
			h.mxFrame = uint32(sc.LastCommit)
			h.nPage = fr.Commit
			fo := fr.Off
			h.frameCksum = [2]uint32{binary.BigEndian.Uint32(raw[fo+16:]), binary.BigEndian.Uint32(raw[fo+20:])}
		}
	}
	if h.mxFrame == 0 {
		// empty or unusable log: database size from the file
		sz, _ := c.dbf.Size()
		h.nPage = uint32(sz / int64(c.PageSize))
	}
	if e := c.shmWriteHdr(h); e != 0 {
		c.shmLock(fuse.LockUnlock, walCkptLock, 2)
		release()
		return "recover-shm-hdr", e
	}
	ci := ckptInfo{}
	ci.readMark = [5]uint32{0, readMarkNotUsed, readMarkNotUsed, readMarkNotUsed, readMarkNotUsed}
	if h.mxFrame > 0 {
		ci.readMark[1] = h.mxFrame
	}
	c.shmWriteCkpt(ci)
	c.shmLock(fuse.LockUnlock, walCkptLock, 2)
	release()
	return "", 0
}

// read transactions ------------------------------------------------------------------

// WalBeginRead opens a read transaction (walTryBeginRead, simplified): READ0
// when the log is fully backfilled, else a read mark equal to mxFrame.
func (c *Conn) WalBeginRead() (string, syscall.Errno) {
	w := c.wal
	for attempt := 0; attempt < 6; attempt++ {
		h, ok, e := c.shmReadHdr()
		if e != 0 {
			return "shm-read", e
		}
		if !ok {
			if at, e := c.walRecover(); e != 0 {
				return at, e
			}
			continue
		}
		if h.szPage != c.PageSize {
			c.PageSize = h.szPage
		}
		ci, e := c.shmReadCkpt()
		if e != 0 {
			return "shm-read-ckpt", e
		}
		if ci.nBackfill == h.mxFrame {
			// the database file alone is current
			if e := c.shmLock(fuse.LockRead, walRead0, 1); e == 0 {
				h2, ok2, _ := c.shmReadHdr()
				if ok2 && h2 == h {
					w.hdr, w.readLock, w.minFrame = h, 0, h.mxFrame+1
					return "", 0
				}
				c.shmLock(fuse.LockUnlock, walRead0, 1)
				continue
			} else if e != syscall.EAGAIN {
				return "read0-lock", e
			}
		}
		// pick a read mark slot: prefer one already equal to mxFrame
		slot := 0
		for i := 1; i <= 4; i++ {
			if ci.readMark[i] == h.mxFrame {
				slot = i
				break
			}
		}
		if slot == 0 {
			start := 1 + c.T.Next(4)
			for k := 0; k < 4 && slot == 0; k++ {
				i := 1 + (start-1+k)%4
				if e := c.shmLock(fuse.LockWrite, walRead0+i, 1); e == 0 {
					ci.readMark[i] = h.mxFrame
					c.shmWriteCkpt(ci)
					c.shmLock(fuse.LockUnlock, walRead0+i, 1)
					slot = i
				}
			}
		}
		if slot == 0 {
			// use the largest mark <= mxFrame
			best := uint32(0)
			for i := 1; i <= 4; i++ {
				if ci.readMark[i] != readMarkNotUsed && ci.readMark[i] <= h.mxFrame && ci.readMark[i] >= best {
					best, slot = ci.readMark[i], i
				}
			}
			if slot == 0 {
				return "no-read-slot", syscall.EAGAIN
			}
		}
		if e := c.shmLock(fuse.LockRead, walRead0+slot, 1); e != 0 {
			if e == syscall.EAGAIN {
				continue
			}
			return "read-lock", e
		}
		h2, ok2, _ := c.shmReadHdr()
		ci2, _ := c.shmReadCkpt()
		if !ok2 || h2 != h || ci2.readMark[slot] > h.mxFrame {
			c.shmLock(fuse.LockUnlock, walRead0+slot, 1)
			continue
		}
		w.hdr, w.readLock, w.minFrame = h, slot, ci2.nBackfill+1
		return "", 0
	}
	return "read-retry", syscall.EAGAIN
}

// WalEndRead releases the read lock.
func (c *Conn) WalEndRead() {
	if c.wal.readLock >= 0 {
		c.shmLock(fuse.LockUnlock, walRead0+c.wal.readLock, 1)
		c.wal.readLock = -1
	}
}

// walIndex makes sure the frame index covers frames 1..upTo of the current log.
func (c *Conn) walIndex(upTo uint32) syscall.Errno {
	w := c.wal
	if !w.idxValid || w.idxHdr != w.hdr || w.idxUpTo > upTo {
		w.idx, w.idxUpTo, w.idxHdr, w.idxValid = map[uint32][]uint32{}, 0, w.hdr, true
	}
	for f := w.idxUpTo + 1; f <= upTo; f++ {
		b, e := w.walf.Pread(c.frameOff(f), 8)
		if e != 0 {
			return e
		}
		if len(b) < 8 {
			return syscall.EIO
		}
		pg := binary.BigEndian.Uint32(b)
		w.idx[pg] = append(w.idx[pg], f)
	}
	w.idxUpTo = upTo
	return 0
}

// walFindFrame returns the newest frame for a page within the snapshot, or 0.
func (c *Conn) walFindFrame(pg uint32) uint32 {
	w := c.wal
	fs := w.idx[pg]
	for i := len(fs) - 1; i >= 0; i-- {
		if fs[i] <= w.hdr.mxFrame && fs[i] >= w.minFrame {
			return fs[i]
		}
	}
	return 0
}

// WalReadPage reads a page within the open read transaction.
func (c *Conn) WalReadPage(pg uint32) ([]byte, syscall.Errno) {
	if f := c.walFindFrame(pg); f != 0 {
		b, e := c.wal.walf.Pread(c.frameOff(f)+24, int(c.PageSize))
		if e != 0 {
			return nil, e
		}
		if len(b) < int(c.PageSize) {
			b = append(b, make([]byte, int(c.PageSize)-len(b))...)
		}
		return b, 0
	}
	return c.ReadPage(pg)
}

// WalReadImageLocked reads the whole database inside the open read transaction.
func (c *Conn) WalReadImageLocked() (*Image, syscall.Errno) {
	w := c.wal
	if e := c.walIndex(w.hdr.mxFrame); e != 0 {
		return nil, e
	}
	if w.hdr.nPage == 0 {
		return nil, 0
	}
	im := &Image{PageSize: c.PageSize}
	for pg := uint32(1); pg <= w.hdr.nPage; pg++ {
		p, e := c.WalReadPage(pg)
		if e != 0 {
			return nil, e
		}
		im.Pages = append(im.Pages, p)
	}
	return im, 0
}

// WalReadTx is a complete read transaction returning the image it saw.
func (c *Conn) WalReadTx() (*Image, syscall.Errno) {
	if _, e := c.WalBeginRead(); e != 0 {
		return nil, e
	}
	im, e := c.WalReadImageLocked()
	c.WalEndRead()
	return im, e
}

// write transactions ------------------------------------------------------------------

// WalTxProgram is a WAL-mode write transaction.
type WalTxProgram struct {
	Modify   []uint32
	NewSize  uint32
	Repeat   []uint32 // pages written twice (a cache spill wrote an earlier version)
	Outcome  string   // commit / rollback (frames written, no commit mark) / lockonly
	SplitHdr bool     // write the frame header in two pieces
	NoFsync  bool
	// DieBeforeUnlock: the process is killed after it has published the commit in
	// the wal-index and before it releases the write lock; the kernel closes its
	// descriptors in the order they were opened (database, log, shm).
	DieBeforeUnlock bool
}

// walRestartHdr is walRestartHdr(): bump salt1, new salt2, empty log.
func (c *Conn) walRestartHdr(salt2 uint32) syscall.Errno {
	w := c.wal
	w.nCkpt++
	w.hdr.mxFrame = 0
	w.hdr.salt[0]++
	w.hdr.salt[1] = salt2
	w.hdr.iChange++
	if e := c.shmWriteHdr(w.hdr); e != 0 {
		return e
	}
	ci := ckptInfo{readMark: [5]uint32{0, 0, readMarkNotUsed, readMarkNotUsed, readMarkNotUsed}}
	w.idxValid = false
	return c.shmWriteCkpt(ci)
}

// WalBeginWrite upgrades the open read transaction to a write transaction.
func (c *Conn) WalBeginWrite() (string, syscall.Errno) {
	w := c.wal
	if e := c.shmLock(fuse.LockWrite, walWriteLock, 1); e != 0 {
		return "write-lock", e
	}
	w.write = true
	h, ok, e := c.shmReadHdr()
	if e != 0 || !ok || h != w.hdr {
		// snapshot is stale: SQLITE_BUSY_SNAPSHOT
		c.WalEndWrite()
		if e == 0 {
			e = syscall.EAGAIN
		}
		return "busy-snapshot", e
	}
	return "", 0
}

// WalEndWrite releases WRITE (this is where LiteFS captures the transaction).
func (c *Conn) WalEndWrite() syscall.Errno {
	w := c.wal
	if !w.write {
		return 0
	}
	w.write = false
	return c.shmLock(fuse.LockUnlock, walWriteLock, 1)
}

// walRestartLog is walRestartLog(): called at the start of writing frames.
func (c *Conn) walRestartLog() (string, syscall.Errno) {
	w := c.wal
	if w.readLock != 0 {
		return "", 0
	}
	ci, e := c.shmReadCkpt()
	if e != 0 {
		return "shm-read-ckpt", e
	}
	if ci.nBackfill > 0 {
		if e := c.shmLock(fuse.LockWrite, walRead0+1, 4); e == 0 {
			c.r.Count("wal.restart")
			if e := c.walRestartHdr(uint32(c.T.Next(1 << 30))); e != 0 {
				return "restart-hdr", e
			}
			c.shmLock(fuse.LockUnlock, walRead0+1, 4)
		} else if e != syscall.EAGAIN {
			return "restart-lock", e
		}
	}
	c.shmLock(fuse.LockUnlock, walRead0, 1)
	w.readLock = -1
	if at, e := c.WalBeginRead(); e != 0 {
		return at, e
	}
	return "", 0
}

// WalWriteTx runs one WAL write transaction. ref is the committed image.
func (c *Conn) WalWriteTx(prog WalTxProgram, ref *Image) TxResult {
	c.txSeq++
	tx := c.txSeq
	w := c.wal
	fail := func(at string, e syscall.Errno) TxResult {
		out := "error"
		if e == syscall.EAGAIN {
			out = "busy"
		}
		if w.write {
			c.WalEndWrite()
		}
		c.WalEndRead()
		return TxResult{Outcome: out, Errno: e, FailedAt: at}
	}
	if at, e := c.WalBeginRead(); e != 0 {
		return fail(at, e)
	}
	if c.PauseAfterWalRead > 0 {
		time.Sleep(c.PauseAfterWalRead)
	}
	if at, e := c.WalBeginWrite(); e != 0 {
		return fail(at, e)
	}
	if prog.Outcome == OutLockOnly {
		c.WalEndWrite()
		if c.OnFinalized != nil {
			c.OnFinalized()
		}
		c.WalEndRead()
		return TxResult{Outcome: OutLockOnly}
	}
	if e := c.walIndex(w.hdr.mxFrame); e != 0 {
		return fail("wal-index", e)
	}
	// current header of page 1 (for the change counter)
	p1, e := c.WalReadPage(1)
	if e != 0 {
		return fail("read-page1", e)
	}
	hdr, _, _ := decodeDBHeader(p1)
	origSize := ref.N()

	newIm := ref.Clone()
	if newIm == nil {
		newIm = &Image{PageSize: c.PageSize}
	}
	newIm.PageSize = c.PageSize
	newHdr := DBHeader{WAL: true, ChangeCounter: hdr.ChangeCounter + 1, SizePages: prog.NewSize, SchemaCookie: hdr.SchemaCookie}
	mod := map[uint32]bool{1: true}
	for _, p := range prog.Modify {
		if p >= 1 && p <= origSize && p <= prog.NewSize {
			mod[p] = true
		}
	}
	for uint32(len(newIm.Pages)) < prog.NewSize {
		newIm.Pages = append(newIm.Pages, nil)
	}
	newIm.Pages = newIm.Pages[:prog.NewSize]
	lock := LockPgno(c.PageSize)
	var dirty []uint32
	for pg := uint32(1); pg <= prog.NewSize; pg++ {
		if pg == lock {
			newIm.Pages[pg-1] = make([]byte, c.PageSize)
			continue
		}
		if mod[pg] || pg > origSize {
			newIm.Pages[pg-1] = MakePage(c.PageSize, c.ID, tx, pg, uint32(c.n.ID), &newHdr)
			dirty = append(dirty, pg)
		}
	}
	sort.Slice(dirty, func(a, b int) bool { return dirty[a] < dirty[b] })

	if c.OnNewImage != nil && prog.Outcome == OutCommit {
		c.OnNewImage(newIm)
	}

	// frame sequence: earlier (spilled) versions of repeated pages first
	type frame struct {
		pg   uint32
		data []byte
	}
	var frames []frame
	isDirty := map[uint32]bool{}
	for _, pg := range dirty {
		isDirty[pg] = true
	}
	for _, pg := range prog.Repeat {
		if isDirty[pg] && pg != 1 {
			old := MakePage(c.PageSize, c.ID, tx, pg, 7777, &newHdr)
			frames = append(frames, frame{pg, old})
			c.r.Count("wal.repeat-page")
		}
	}
	for _, pg := range dirty {
		frames = append(frames, frame{pg, newIm.Pages[pg-1]})
	}

	if at, e := c.walRestartLog(); e != 0 {
		return fail(at, e)
	}
	iFrame := w.hdr.mxFrame
	ck := w.hdr.frameCksum
	big := w.hdr.bigEnd
	if iFrame == 0 {
		// new log generation: write the 32-byte header
		big = w.bigEnd
		wh := make([]byte, 32)
		magic := uint32(0x377f0682)
		if big {
			magic = 0x377f0683
		}
		binary.BigEndian.PutUint32(wh[0:], magic)
		binary.BigEndian.PutUint32(wh[4:], 3007000)
		binary.BigEndian.PutUint32(wh[8:], c.PageSize)
		binary.BigEndian.PutUint32(wh[12:], w.nCkpt)
		if w.nCkpt == 0 {
			w.hdr.salt = [2]uint32{uint32(c.T.Next(1<<30)) + 1, uint32(c.T.Next(1 << 30))}
		}
		binary.BigEndian.PutUint32(wh[16:], w.hdr.salt[0])
		binary.BigEndian.PutUint32(wh[20:], w.hdr.salt[1])
		c0, c1 := walCksum(big, 0, 0, wh[:24])
		binary.BigEndian.PutUint32(wh[24:], c0)
		binary.BigEndian.PutUint32(wh[28:], c1)
		ck = [2]uint32{c0, c1}
		w.hdr.bigEnd = big
		if e := w.walf.Pwrite(0, wh); e != 0 {
			return fail("wal-header", e)
		}
		if !prog.NoFsync {
			if e := w.walf.Fsync(); e != 0 {
				return fail("wal-header-fsync", e)
			}
		}
		w.idxValid = false
		c.r.Count("wal.new-log")
	}
	commit := prog.Outcome == OutCommit
	firstFrame := iFrame + 1
	for i, fr := range frames {
		iFrame++
		fh := make([]byte, 24)
		binary.BigEndian.PutUint32(fh[0:], fr.pg)
		if commit && i == len(frames)-1 {
			binary.BigEndian.PutUint32(fh[4:], prog.NewSize)
		}
		binary.BigEndian.PutUint32(fh[8:], w.hdr.salt[0])
		binary.BigEndian.PutUint32(fh[12:], w.hdr.salt[1])
		c0, c1 := walCksum(big, ck[0], ck[1], fh[:8])
		c0, c1 = walCksum(big, c0, c1, fr.data)
		ck = [2]uint32{c0, c1}
		binary.BigEndian.PutUint32(fh[16:], c0)
		binary.BigEndian.PutUint32(fh[20:], c1)
		off := c.frameOff(iFrame)
		if prog.SplitHdr {
			if e := w.walf.Pwrite(off, fh[:8]); e != 0 {
				return fail("wal-frame-hdr", e)
			}
			if e := w.walf.Pwrite(off+8, fh[8:]); e != 0 {
				return fail("wal-frame-hdr", e)
			}
		} else if e := w.walf.Pwrite(off, fh); e != 0 {
			return fail("wal-frame-hdr", e)
		}
		if e := w.walf.Pwrite(off+24, fr.data); e != 0 {
			return fail("wal-frame-data", e)
		}
	}
	if !commit {
		// ROLLBACK after spilling frames: the wal-index is left alone
		c.r.Count("wal.rollback-frames")
		c.WalEndWrite()
		if c.OnFinalized != nil {
			c.OnFinalized()
		}
		c.WalEndRead()
		w.idxValid = false
		return TxResult{Outcome: OutRollback}
	}
	if !prog.NoFsync {
		if e := w.walf.Fsync(); e != 0 {
			return fail("wal-fsync", e)
		}
	}
	// publish: update the wal-index header
	w.hdr.mxFrame = iFrame
	w.hdr.nPage = prog.NewSize
	w.hdr.frameCksum = ck
	w.hdr.iChange++
	w.hdr.szPage = c.PageSize
	w.hdr.isInit, w.hdr.iVersion = true, 3007000
	if e := c.shmWriteHdr(w.hdr); e != 0 {
		return fail("shm-publish", e)
	}
	w.idxValid = false
	if c.BeforeWalUnlock != nil {
		c.BeforeWalUnlock()
	}
	if prog.DieBeforeUnlock {
		salt := w.hdr.salt
		c.Die()
		if c.OnCommitPoint != nil {
			c.OnCommitPoint()
		}
		if c.OnFinalized != nil {
			c.OnFinalized()
		}
		return TxResult{Outcome: OutCommit, After: newIm, WalFirstFrame: firstFrame, WalFrames: len(frames), WalSalt: salt}
	}
	// COMMIT returns after the write lock is released.
	if e := c.WalEndWrite(); e != 0 {
		c.WalEndRead()
		return TxResult{Outcome: "error", Errno: e, FailedAt: "write-unlock", After: newIm}
	}
	if c.OnCommitPoint != nil {
		c.OnCommitPoint()
	}
	if c.OnFinalized != nil {
		c.OnFinalized()
	}
	c.WalEndRead()
	return TxResult{Outcome: OutCommit, After: newIm, WalFirstFrame: firstFrame, WalFrames: len(frames), WalSalt: w.hdr.salt}
}

// checkpoints ------------------------------------------------------------------

// backfill copies the newest frame <= upTo of every page into the database
// file, in page order (walCheckpoint's loop).
func (c *Conn) backfill(h walHdr, upTo, from uint32) (string, syscall.Errno) {
	w := c.wal
	w.hdr = h
	w.minFrame = 1
	if e := c.walIndex(upTo); e != 0 {
		return "ckpt-index", e
	}
	var pgs []uint32
	for pg, fs := range w.idx {
		for i := len(fs) - 1; i >= 0; i-- {
			if fs[i] <= upTo && fs[i] > from && pg <= h.nPage {
				pgs = append(pgs, pg)
				break
			}
		}
	}
	sort.Slice(pgs, func(a, b int) bool { return pgs[a] < pgs[b] })
	for _, pg := range pgs {
		fs := w.idx[pg]
		var f uint32
		for i := len(fs) - 1; i >= 0; i-- {
			if fs[i] <= upTo {
				f = fs[i]
				break
			}
		}
		b, e := w.walf.Pread(c.frameOff(f)+24, int(c.PageSize))
		if e != 0 {
			return "ckpt-read", e
		}
		if e := c.dbf.Pwrite(int64(pg-1)*int64(c.PageSize), b); e != 0 {
			return "ckpt-db-write", e
		}
	}
	return "", 0
}

// Checkpoint modes.
const (
	CkptPassive  = "PASSIVE"
	CkptFull     = "FULL"
	CkptRestart  = "RESTART"
	CkptTruncate = "TRUNCATE"
)

// WalCheckpoint runs sqlite3WalCheckpoint in the given mode. Returns "busy"
// outcomes as EAGAIN (a checkpoint that cannot proceed is not an error).
func (c *Conn) WalCheckpoint(mode string) (string, syscall.Errno) {
	w := c.wal
	c.r.Count("wal.ckpt." + mode)
	if e := c.shmLock(fuse.LockWrite, walCkptLock, 1); e != 0 {
		return "ckpt-lock", e
	}
	defer c.shmLock(fuse.LockUnlock, walCkptLock, 1)
	if mode != CkptPassive {
		if e := c.shmLock(fuse.LockWrite, walWriteLock, 1); e != 0 {
			return "ckpt-write-lock", e
		}
		w.write = true
		defer c.WalEndWrite()
	}
	h, ok, e := c.shmReadHdr()
	if e != 0 {
		return "ckpt-shm-read", e
	}
	if !ok {
		if at, e := c.walRecover(); e != 0 {
			return at, e
		}
		h, ok, _ = c.shmReadHdr()
		if !ok {
			return "ckpt-recover", syscall.EIO
		}
	}
	ci, e := c.shmReadCkpt()
	if e != 0 {
		return "ckpt-shm-read", e
	}
	mxSafe := h.mxFrame
	for i := 1; i <= 4; i++ {
		if ci.readMark[i] < mxSafe {
			if e := c.shmLock(fuse.LockWrite, walRead0+i, 1); e == 0 {
				if i == 1 {
					ci.readMark[i] = mxSafe
				} else {
					ci.readMark[i] = readMarkNotUsed
				}
				c.shmWriteCkpt(ci)
				c.shmLock(fuse.LockUnlock, walRead0+i, 1)
			} else if e == syscall.EAGAIN {
				mxSafe = ci.readMark[i]
				c.r.Count("wal.ckpt.limited-by-reader")
			} else {
				return "ckpt-readmark-lock", e
			}
		}
	}
	if ci.nBackfill < mxSafe {
		if e := c.shmLock(fuse.LockWrite, walRead0, 1); e == 0 {
			if e := w.walf.Fsync(); e != 0 {
				c.shmLock(fuse.LockUnlock, walRead0, 1)
				return "ckpt-wal-fsync", e
			}
			if at, e := c.backfill(h, mxSafe, ci.nBackfill); e != 0 {
				c.shmLock(fuse.LockUnlock, walRead0, 1)
				return at, e
			}
			if mxSafe == h.mxFrame {
				if sz, e2 := c.dbf.Size(); e2 == 0 && sz > int64(h.nPage)*int64(c.PageSize) {
					if e := c.dbf.Truncate(int64(h.nPage) * int64(c.PageSize)); e != 0 {
						c.shmLock(fuse.LockUnlock, walRead0, 1)
						return "ckpt-db-truncate", e
					}
				}
				if e := c.dbf.Fsync(); e != 0 {
					c.shmLock(fuse.LockUnlock, walRead0, 1)
					return "ckpt-db-fsync", e
				}
			}
			ci.nBackfill = mxSafe
			ci.attempted = mxSafe
			c.shmWriteCkpt(ci)
			c.shmLock(fuse.LockUnlock, walRead0, 1)
			c.r.Count("wal.ckpt.backfilled")
		} else if e != syscall.EAGAIN {
			return "ckpt-read0-lock", e
		}
	}
	if mode == CkptPassive || mode == CkptFull {
		return "", 0
	}
	// RESTART / TRUNCATE need the whole log backfilled and no readers
	ci, _ = c.shmReadCkpt()
	if ci.nBackfill < h.mxFrame {
		return "ckpt-busy", syscall.EAGAIN
	}
	if e := c.shmLock(fuse.LockWrite, walRead0+1, 4); e != 0 {
		return "ckpt-restart-busy", e
	}
	w.hdr = h
	if mode == CkptTruncate {
		if e := c.walRestartHdr(uint32(c.T.Next(1 << 30))); e != 0 {
			c.shmLock(fuse.LockUnlock, walRead0+1, 4)
			return "ckpt-restart-hdr", e
		}
		if e := w.walf.Truncate(0); e != 0 {
			c.shmLock(fuse.LockUnlock, walRead0+1, 4)
			return "ckpt-wal-truncate", e
		}
	}
	c.shmLock(fuse.LockUnlock, walRead0+1, 4)
	return "", 0
}

// GenWalProgram draws a WAL transaction program from the tape.
func GenWalProgram(t *Tape, cur uint32, maxPages uint32) WalTxProgram {
	var p WalTxProgram
	switch t.Pick([]int{72, 14, 14}) {
	case 0:
		p.Outcome = OutCommit
	case 1:
		p.Outcome = OutRollback
	case 2:
		p.Outcome = OutLockOnly
	}
	switch t.Pick([]int{45, 30, 18, 7}) {
	case 0:
		p.NewSize = cur
	case 1:
		p.NewSize = cur + uint32(t.Range(1, 6))
	case 2:
		if cur > 1 {
			p.NewSize = cur - uint32(t.Range(1, int(min32(cur-1, 8))))
		} else {
			p.NewSize = cur
		}
	case 3:
		targets := []uint32{255, 256, 257, 258, 511, 512, 513}
		p.NewSize = targets[t.Next(len(targets))]
	}
	if p.NewSize < 1 {
		p.NewSize = 1
	}
	if p.NewSize > maxPages {
		p.NewSize = maxPages
	}
	if cur > 0 {
		n := t.Range(0, 5)
		for i := 0; i < n; i++ {
			p.Modify = append(p.Modify, uint32(t.Range(1, int(cur))))
		}
		if t.Chance(1, 6) && cur > 8 {
			start := uint32(t.Range(1, int(cur)))
			for i := uint32(0); i < 6 && start+i <= cur; i++ {
				p.Modify = append(p.Modify, start+i)
			}
		}
		if t.Chance(1, 4) {
			for i := 0; i < t.Range(1, 3) && len(p.Modify) > 0; i++ {
				p.Repeat = append(p.Repeat, p.Modify[t.Next(len(p.Modify))])
			}
		}
	}
	p.SplitHdr = t.Chance(1, 8)
	p.NoFsync = t.Chance(1, 6)
	return p
}
