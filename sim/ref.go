package verifsim

import (
	"bytes"
	"encoding/binary"
	"fmt"
	"hash/crc64"
	"io"
	"os"
	"path/filepath"
	"sort"
	"strings"

	"github.com/superfly/ltx"
)

// ---------------------------------------------------------------------------
// reference image and from-scratch checksum

// Image is the logical content of a database: Pages[i] is page i+1.
// A nil *Image or zero pages is the empty (absent / dropped) database.
type Image struct {
	PageSize uint32
	Pages    [][]byte
}

// N returns the size in pages.
func (im *Image) N() uint32 {
	if im == nil {
		return 0
	}
	return uint32(len(im.Pages))
}

// Clone deep-copies the image.
func (im *Image) Clone() *Image {
	if im == nil {
		return nil
	}
	out := &Image{PageSize: im.PageSize, Pages: make([][]byte, len(im.Pages))}
	for i, p := range im.Pages {
		out.Pages[i] = append([]byte(nil), p...)
	}
	return out
}

const checksumFlag = uint64(1) << 63

var crcISO = crc64.MakeTable(crc64.ISO)

// LockPgno is the page containing SQLite's lock bytes for a page size.
func LockPgno(pageSize uint32) uint32 {
	if pageSize == 0 {
		return 0
	}
	return uint32(0x40000000/int64(pageSize)) + 1
}

// PageChecksum is CRC64-ISO(BE32(pgno) || data) with the top bit set.
func PageChecksum(pgno uint32, data []byte) uint64 {
	h := crc64.New(crcISO)
	var b [4]byte
	binary.BigEndian.PutUint32(b[:], pgno)
	h.Write(b[:])
	h.Write(data)
	return checksumFlag | h.Sum64()
}

// Checksum recomputes the database checksum from nothing: XOR over all pages
// except the lock page, top bit set; the empty database is exactly 1<<63.
func (im *Image) Checksum() uint64 {
	var c uint64
	if im == nil {
		return checksumFlag
	}
	lock := LockPgno(im.PageSize)
	for i, p := range im.Pages {
		pgno := uint32(i + 1)
		if pgno == lock {
			continue
		}
		c ^= PageChecksum(pgno, p)
	}
	return checksumFlag | c
}

// DiffImages returns a description of the first difference, or "".
// The lock page is not compared.
func DiffImages(got, want *Image) string {
	if got.N() != want.N() {
		return fmt.Sprintf("size %d pages, want %d", got.N(), want.N())
	}
	if got.N() == 0 {
		return ""
	}
	if got.PageSize != want.PageSize {
		return fmt.Sprintf("page size %d, want %d", got.PageSize, want.PageSize)
	}
	lock := LockPgno(want.PageSize)
	for i := range want.Pages {
		if uint32(i+1) == lock {
			continue
		}
		if !bytes.Equal(got.Pages[i], want.Pages[i]) {
			j := 0
			for j < len(want.Pages[i]) && j < len(got.Pages[i]) && got.Pages[i][j] == want.Pages[i][j] {
				j++
			}
			return fmt.Sprintf("page %d differs at byte %d (got %s want %s)", i+1, j, stampOf(got.Pages[i]), stampOf(want.Pages[i]))
		}
	}
	return ""
}

// ImageStore maps (db, TXID, checksum) to the image SQLite's side knows it
// committed there. It is filled from the simulated SQLite side, never from
// LiteFS.
type ImageStore struct {
	m map[string]*Image
}

func NewImageStore() *ImageStore { return &ImageStore{m: map[string]*Image{}} }

func posKey(db string, txid uint64, chk uint64) string {
	return fmt.Sprintf("%s/%016x/%016x", db, txid, chk)
}

func (s *ImageStore) Put(db string, pos ltx.Pos, im *Image) {
	s.m[posKey(db, uint64(pos.TXID), uint64(pos.PostApplyChecksum))] = im.Clone()
}

// FindEqual reports whether some registered image of db equals im.
func (s *ImageStore) FindEqual(db string, im *Image) (string, bool) {
	for k, v := range s.m {
		if strings.HasPrefix(k, db+"/") && v.N() == im.N() && DiffImages(im, v) == "" {
			return k, true
		}
	}
	return "", false
}

func (s *ImageStore) Get(db string, pos ltx.Pos) (*Image, bool) {
	im, ok := s.m[posKey(db, uint64(pos.TXID), uint64(pos.PostApplyChecksum))]
	return im, ok
}

// ---------------------------------------------------------------------------
// independent WAL reader (written from SQLite's file-format document)

// WALFrame is one valid frame found by the reference scanner.
type WALFrame struct {
	Off    int64
	Pgno   uint32
	Commit uint32
	Data   []byte
}

// WALScan is the result of scanning WAL bytes with the reference reader.
type WALScan struct {
	HeaderOK   bool
	PageSize   uint32
	Salt1      uint32
	Salt2      uint32
	BigEndian  bool
	Frames     []WALFrame // longest valid prefix
	LastCommit int        // index+1 of the last commit frame in Frames (0 = none)
}

func walCksum(big bool, s0, s1 uint32, b []byte) (uint32, uint32) {
	for i := 0; i+8 <= len(b); i += 8 {
		var x0, x1 uint32
		if big {
			x0, x1 = binary.BigEndian.Uint32(b[i:]), binary.BigEndian.Uint32(b[i+4:])
		} else {
			x0, x1 = binary.LittleEndian.Uint32(b[i:]), binary.LittleEndian.Uint32(b[i+4:])
		}
		s0 += x0 + s1
		s1 += x1 + s0
	}
	return s0, s1
}

// ScanWAL finds the longest prefix of frames whose salts and cumulative
// checksums match the header.
func ScanWAL(b []byte) WALScan {
	var sc WALScan
	if len(b) < 32 {
		return sc
	}
	magic := binary.BigEndian.Uint32(b[0:])
	if magic != 0x377f0682 && magic != 0x377f0683 {
		return sc
	}
	sc.BigEndian = magic == 0x377f0683
	if binary.BigEndian.Uint32(b[4:]) != 3007000 {
		return sc
	}
	sc.PageSize = binary.BigEndian.Uint32(b[8:])
	if sc.PageSize < 512 || sc.PageSize > 65536 || sc.PageSize&(sc.PageSize-1) != 0 {
		return sc
	}
	sc.Salt1 = binary.BigEndian.Uint32(b[16:])
	sc.Salt2 = binary.BigEndian.Uint32(b[20:])
	c0, c1 := walCksum(sc.BigEndian, 0, 0, b[:24])
	if c0 != binary.BigEndian.Uint32(b[24:]) || c1 != binary.BigEndian.Uint32(b[28:]) {
		return sc
	}
	sc.HeaderOK = true
	fsz := int64(24 + sc.PageSize)
	for off := int64(32); off+fsz <= int64(len(b)); off += fsz {
		fh := b[off : off+24]
		data := b[off+24 : off+fsz]
		if binary.BigEndian.Uint32(fh[8:]) != sc.Salt1 || binary.BigEndian.Uint32(fh[12:]) != sc.Salt2 {
			break
		}
		pgno := binary.BigEndian.Uint32(fh[0:])
		if pgno == 0 {
			break
		}
		c0, c1 = walCksum(sc.BigEndian, c0, c1, fh[:8])
		c0, c1 = walCksum(sc.BigEndian, c0, c1, data)
		if c0 != binary.BigEndian.Uint32(fh[16:]) || c1 != binary.BigEndian.Uint32(fh[20:]) {
			break
		}
		commit := binary.BigEndian.Uint32(fh[4:])
		sc.Frames = append(sc.Frames, WALFrame{Off: off, Pgno: pgno, Commit: commit, Data: data})
		if commit != 0 {
			sc.LastCommit = len(sc.Frames)
		}
	}
	return sc
}

// ---------------------------------------------------------------------------
// reading a node's on-disk state independently of LiteFS

// ReadDiskImage builds the logical image from the raw files of a database
// directory: the database file overlaid with the committed frames of the WAL.
func ReadDiskImage(dbDir string) (*Image, error) {
	if fi, err := os.Stat(filepath.Join(dbDir, "database")); err == nil && fi.Size() > 1<<30 {
		return nil, fmt.Errorf("database file is %d bytes (a page was written far beyond the end)", fi.Size())
	}
	b, err := os.ReadFile(filepath.Join(dbDir, "database"))
	if os.IsNotExist(err) || (err == nil && len(b) == 0) {
		return nil, nil
	} else if err != nil {
		return nil, err
	}
	if len(b) < 100 {
		return nil, fmt.Errorf("database file is %d bytes", len(b))
	}
	ps := uint32(binary.BigEndian.Uint16(b[16:]))
	if ps == 1 {
		ps = 65536
	}
	if ps < 512 || ps&(ps-1) != 0 {
		return nil, fmt.Errorf("bad page size %d", ps)
	}
	im := &Image{PageSize: ps}
	n := len(b) / int(ps)
	for i := 0; i < n; i++ {
		im.Pages = append(im.Pages, append([]byte(nil), b[i*int(ps):(i+1)*int(ps)]...))
	}
	if len(b)%int(ps) != 0 {
		return nil, fmt.Errorf("database file size %d is not a multiple of the page size %d", len(b), ps)
	}
	wb, err := os.ReadFile(filepath.Join(dbDir, "wal"))
	if err == nil && len(wb) > 0 {
		sc := ScanWAL(wb)
		if sc.HeaderOK && sc.PageSize == ps && sc.LastCommit > 0 {
			var size uint32
			for _, fr := range sc.Frames[:sc.LastCommit] {
				for uint32(len(im.Pages)) < fr.Pgno {
					im.Pages = append(im.Pages, make([]byte, ps))
				}
				im.Pages[fr.Pgno-1] = append([]byte(nil), fr.Data...)
				if fr.Commit != 0 {
					size = fr.Commit
				}
			}
			if size < uint32(len(im.Pages)) {
				im.Pages = im.Pages[:size]
			}
			for uint32(len(im.Pages)) < size {
				im.Pages = append(im.Pages, make([]byte, ps))
			}
		}
	}
	return im, nil
}

// LogicalCut returns the image cut to SQLite's in-header size when the file is
// longer (SQLite truncates after the commit point; until then the header rules).
func (im *Image) LogicalCut() *Image {
	if im.N() == 0 {
		return im
	}
	h, _, ok := decodeDBHeader(im.Pages[0])
	if ok && h.SizePages > 0 && h.SizePages < im.N() {
		out := im.Clone()
		out.Pages = out.Pages[:h.SizePages]
		return out
	}
	return im
}

// ---------------------------------------------------------------------------
// LTX files

// LTXFile is a decoded transaction file.
type LTXFile struct {
	Name    string
	Header  ltx.Header
	Trailer ltx.Trailer
	Pgnos   []uint32
	Pages   map[uint32][]byte
}

// DecodeLTX decodes and verifies an LTX byte stream.
func DecodeLTX(r io.Reader) (*LTXFile, error) {
	dec := ltx.NewDecoder(r)
	if err := dec.DecodeHeader(); err != nil {
		return nil, fmt.Errorf("header: %w", err)
	}
	f := &LTXFile{Header: dec.Header(), Pages: map[uint32][]byte{}}
	for {
		var ph ltx.PageHeader
		buf := make([]byte, f.Header.PageSize)
		if err := dec.DecodePage(&ph, buf); err == io.EOF {
			break
		} else if err != nil {
			return nil, fmt.Errorf("page: %w", err)
		}
		f.Pgnos = append(f.Pgnos, ph.Pgno)
		f.Pages[ph.Pgno] = buf
	}
	if err := dec.Close(); err != nil {
		return nil, fmt.Errorf("close: %w", err)
	}
	f.Trailer = dec.Trailer()
	return f, nil
}

// ReadLTXFile decodes an LTX file from disk.
func ReadLTXFile(path string) (*LTXFile, error) {
	b, err := os.ReadFile(path)
	if err != nil {
		return nil, err
	}
	f, err := DecodeLTX(bytes.NewReader(b))
	if err != nil {
		return nil, fmt.Errorf("%s: %w", filepath.Base(path), err)
	}
	f.Name = filepath.Base(path)
	return f, nil
}

// Apply applies the transaction file to an image and returns the new image.
func (f *LTXFile) Apply(prev *Image) *Image {
	if f.Header.Commit == 0 {
		return nil
	}
	out := prev.Clone()
	if out == nil || f.Header.IsSnapshot() {
		out = &Image{PageSize: f.Header.PageSize}
	}
	out.PageSize = f.Header.PageSize
	for uint32(len(out.Pages)) < f.Header.Commit {
		out.Pages = append(out.Pages, make([]byte, f.Header.PageSize))
	}
	for pgno, data := range f.Pages {
		if pgno <= uint32(len(out.Pages)) {
			out.Pages[pgno-1] = append([]byte(nil), data...)
		}
	}
	out.Pages = out.Pages[:f.Header.Commit]
	return out
}

// ListLTX lists the transaction files LiteFS must consider (names that parse
// as <min>-<max>.ltx), sorted, plus the other names present.
func ListLTX(dir string) (files []string, others []string, err error) {
	ents, err := os.ReadDir(dir)
	if os.IsNotExist(err) {
		return nil, nil, nil
	} else if err != nil {
		return nil, nil, err
	}
	for _, e := range ents {
		if isLTXName(e.Name()) {
			files = append(files, e.Name())
		} else {
			others = append(others, e.Name())
		}
	}
	sort.Strings(files)
	return files, others, nil
}

func isLTXName(name string) bool {
	// 16 hex - 16 hex .ltx
	if len(name) != 16+1+16+4 || !strings.HasSuffix(name, ".ltx") || name[16] != '-' {
		return false
	}
	for i, c := range name[:33] {
		if i == 16 {
			continue
		}
		if !(c >= '0' && c <= '9' || c >= 'a' && c <= 'f') {
			return false
		}
	}
	return true
}

// CheckChain verifies the on-disk transaction log of a database directory:
// every file verifies, files are contiguous and linked by checksums, and the
// last file ends at pos. Returns "" if fine.
func CheckChain(dbDir string, pos ltx.Pos) string {
	dir := filepath.Join(dbDir, "ltx")
	files, _, err := ListLTX(dir)
	if err != nil {
		return err.Error()
	}
	if len(files) == 0 {
		if pos.TXID != 0 {
			return fmt.Sprintf("no transaction files but position is %s", pos)
		}
		return ""
	}
	var prev *LTXFile
	for _, name := range files {
		f, err := ReadLTXFile(filepath.Join(dir, name))
		if err != nil {
			return fmt.Sprintf("file does not verify: %v", err)
		}
		if want := ltx.FormatFilename(f.Header.MinTXID, f.Header.MaxTXID); want != name {
			return fmt.Sprintf("file %s holds transactions %s", name, want)
		}
		if prev != nil {
			if f.Header.MinTXID != prev.Header.MaxTXID+1 {
				return fmt.Sprintf("gap/overlap: %s follows %s", name, prev.Name)
			}
			if f.Header.PreApplyChecksum != prev.Trailer.PostApplyChecksum {
				return fmt.Sprintf("checksum link broken: %s pre=%s, %s post=%s", name, f.Header.PreApplyChecksum, prev.Name, prev.Trailer.PostApplyChecksum)
			}
		}
		prev = f
	}
	if prev.Header.MaxTXID != pos.TXID || prev.Trailer.PostApplyChecksum != pos.PostApplyChecksum {
		return fmt.Sprintf("newest file %s ends at %s/%s but position is %s", prev.Name, prev.Header.MaxTXID, prev.Trailer.PostApplyChecksum, pos)
	}
	return ""
}

// NewestLTX decodes the newest transaction file of a database directory.
func NewestLTX(dbDir string) (*LTXFile, error) {
	dir := filepath.Join(dbDir, "ltx")
	files, _, err := ListLTX(dir)
	if err != nil || len(files) == 0 {
		return nil, err
	}
	// newest = highest max TXID
	best, bestMax := "", ltx.TXID(0)
	for _, name := range files {
		_, max, err := ltx.ParseFilename(name)
		if err == nil && max > bestMax {
			best, bestMax = name, max
		}
	}
	return ReadLTXFile(filepath.Join(dir, best))
}
