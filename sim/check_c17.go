package verifsim

import (
	"bytes"
	"encoding/binary"
	"fmt"
	"io"
	"os"
	"path/filepath"

	"github.com/superfly/litefs"
)

func init() {
	register(&CheckDef{
		ID:    "C17",
		Level: "exploration",
		Rule:  "part 1 (crash consistency of the journal protocol): a PagerSim journal transaction (every shape: single/multi segment, synced/no-sync, DELETE/TRUNCATE/PERSIST with stale tails from earlier transactions, grow/shrink, and shrinking transactions that journal every page with the database file already cut to the new size while the journal is hot) is interrupted before EVERY file operation; each interruption image, plus variants in which the last un-synced journal write is torn at several byte-length classes or the header is zeroed/truncated, is opened by a fresh Store and the database bytes and size must equal the pre-transaction image (or the post image once the commit point has passed). part 2 (WAL scanning): the real litefs.WALReader and the checkpoint performed by Store.Open are compared with an independent scanner written from SQLite's file-format document on PagerSim-produced logs, on mutations of them (bit flips, truncation, zeroed regions, swapped salts, altered page numbers, spliced generations) and on random bytes: same accepted frame sequence, only frames up to the last commit mark reach the database. part 3: arbitrary bytes as journal or WAL never panic, and no page beyond the database is written (page-write hook). evaluations = images/byte strings decided; distinct = distinct (part, shape/mutation kind, outcome class) tuples; non-trivial = run with >= 5 decided cases",
		Run:   runC17,
		NonTrivial: func(r *Run) bool {
			return r.Stats["c17.decided"] >= 5
		},
		Assumptions: []string{
			"torn writes are applied only to the most recent journal write that has not been followed by a journal fsync (SQLite never overwrites database pages before that sync)",
			"a hang would surface as the real-time watchdog (exit 2, harness trouble), not as a violation",
		},
		Real: []string{"litefs.JournalReader, DB.rollbackJournal, litefs.WALReader, DB.readWALPageOffsets/CheckpointNoLock, Store.Open"},
		Stub: []string{"PagerSim (journal/WAL producer)", "independent WAL scanner (ref.go)"},
	})
}

func runC17(r *Run) {
	t := r.Tape
	part := t.Pick([]int{5, 4, 3})
	r.Cfg["part"] = []string{"journal-interruptions", "wal-scan", "arbitrary-bytes"}[part]
	switch part {
	case 0:
		c17Journal(r)
	case 1:
		c17WALScan(r)
	case 2:
		c17Arbitrary(r)
	}
}

// openPlain opens a fresh primary Store on dir and returns the node.
func c17Open(r *Run, dir string) (*Node, error) {
	v := r.NewNode(NodeCfg{Candidate: true})
	v.Cfg.Leaser = litefs.NewStaticLeaser(true, v.Name, v.URL())
	v.Dir = filepath.Join(r.Dir, v.Name+"-v")
	if err := CopyTree(dir, v.Dir); err != nil {
		return nil, err
	}
	err := v.Open()
	return v, err
}

func c17Journal(r *Run) {
	t := r.Tape
	h := &hist{r: r, name: "db"}
	h.pageSize = []uint32{512, 1024, 4096}[t.Next(3)]
	h.jmode = []string{ModeDelete, ModeTruncate, ModePersist}[t.Next(3)]
	h.maxPages = 40
	// The sector size is whatever the VFS reports (SQLite accepts any power of
	// two from 32 to 65536 and records it in every segment header): segment
	// headers sit at multiples of it, so small sectors make "records end exactly
	// on a boundary" reachable with a handful of records.
	r.SectorSize = []uint32{512, 4096, 32, 64, 128, 1024}[t.Pick([]int{5, 2, 2, 2, 1, 1})]
	wide := t.Chance(1, 3)
	if wide {
		h.maxPages = 160
	}
	r.Cfg["page_size"], r.Cfg["jmode"], r.Cfg["sector_size"], r.Cfg["wide"] = h.pageSize, h.jmode, r.SectorSize, wide
	h.n = newStaticPrimary(r, false, nil)
	if h.n == nil {
		return
	}
	if !h.openConns(1) {
		return
	}
	c := h.conns[0]
	if wide {
		// a database large enough for transactions with many journal records
		c.Mode = h.jmode
		res := c.WriteTx(TxProgram{NewSize: uint32(t.Range(24, 150)), Outcome: OutCommit}, h.ref)
		if res.Outcome != OutCommit {
			r.Failf("c17.refused", "creating the database was refused at %s: %v", res.FailedAt, res.Errno)
			return
		}
		h.ref = res.After
	}
	c.KeepJFD = t.Chance(1, 2)
	// pre-history: leaves stale journal content behind in PERSIST/TRUNCATE modes
	for i := 0; i < t.Range(1, 4); i++ {
		h.commit(t)
		if r.Failed() {
			return
		}
	}
	if h.ref.N() == 0 {
		return
	}
	// Stale-tail focus: the last transaction before the interrupted one leaves a
	// journal with several segments behind (PERSIST keeps the file, TRUNCATE /
	// DELETE do not), and the interrupted one is short and written without
	// syncs, so that it ends in the middle of the old content.
	staleFocus := h.jmode == ModePersist && t.Chance(1, 2)
	r.Cfg["stale_focus"] = staleFocus
	if staleFocus {
		for h.ref.N() < 4 {
			c.Mode = h.jmode
			res := c.WriteTx(TxProgram{NewSize: h.ref.N() + 3, Outcome: OutCommit}, h.ref)
			if res.Outcome != OutCommit {
				r.Failf("c17.refused", "growing the database was refused at %s: %v", res.FailedAt, res.Errno)
				return
			}
			h.ref = res.After
		}
		c.Mode = h.jmode
		res := c.WriteTx(TxProgram{NewSize: h.ref.N(), Outcome: OutCommit, Modify: []uint32{1, 2, 3, 4}, SpillAt: []int{1 + t.Next(2), 3}}, h.ref)
		if res.Outcome != OutCommit {
			r.Failf("c17.refused", "multi-segment transaction refused at %s: %v", res.FailedAt, res.Errno)
			return
		}
		h.ref = res.After
		// ... and a short one after it, so that the newest transaction file (which
		// a restart re-applies) does not happen to contain the pages of the old segments
		res = c.WriteTx(TxProgram{NewSize: h.ref.N(), Outcome: OutCommit}, h.ref)
		if res.Outcome != OutCommit {
			r.Failf("c17.refused", "short transaction refused at %s: %v", res.FailedAt, res.Errno)
			return
		}
		h.ref = res.After
	}
	db := h.db()
	beforePos := db.Pos()
	before := h.ref

	// track the last journal write that has not been synced yet
	type jw struct {
		off int64
		n   int
	}
	var last *jw
	cr := newCrashRec(r, h.n, "jimg")
	lastAt := map[int]*jw{}
	h.n.K.OnOp = func(detail string) {
		cls := opClass(detail)
		cr.snap("sqlite:" + cls)
		if len(cr.imgs) > 0 {
			lastAt[len(cr.imgs)-1] = last
		}
	}
	h.n.OS.Hook = nil
	h.n.SetPageOpHook(nil)
	c.OnCommitPoint = func() { cr.committed = true }
	c.onJournalWrite = func(off int64, n int) { last = &jw{off, n} }
	c.onJournalSync = func() { last = nil }
	cr.active = true
	prog := GenProgram(t, h.ref.N(), h.maxPages, 0)
	if prog.Outcome == OutLockOnly {
		prog.Outcome = OutCommit
	}
	if len(prog.Modify) == 0 {
		prog.Modify = []uint32{1, 2}
	}
	if wide && !staleFocus {
		// many records, spills anywhere among them (a segment may end exactly
		// on a sector boundary)
		n := t.Range(4, int(min32(h.ref.N(), 140)))
		start := uint32(t.Range(1, int(h.ref.N())-n+1))
		prog.Modify = nil
		for i := 0; i < n; i++ {
			prog.Modify = append(prog.Modify, start+uint32(i))
		}
		prog.SpillAt = nil
		at := 0
		for k := t.Range(1, 3); k > 0; k-- {
			at += t.Range(1, n/2)
			if at >= n {
				break
			}
			prog.SpillAt = append(prog.SpillAt, at)
		}
		if prog.NewSize < start+uint32(n)-1 {
			prog.NewSize = h.ref.N()
		}
	}
	// Cut focus: a shrinking transaction that journals every page; the crash
	// images get a variant in which the database file has already been cut to
	// the new size while the journal is still hot (the order in which SQLite
	// before 3.8 worked, and in any case bytes a restart can meet): playback
	// has to restore the file to the size and content the journal records.
	cutFocus := !staleFocus && h.ref.N() >= 4 && t.Chance(1, 5)
	r.Cfg["cut_focus"] = cutFocus
	if cutFocus {
		n := h.ref.N()
		prog = TxProgram{NewSize: uint32(t.Range(1, int(n)-1)), Outcome: OutCommit}
		for pg := uint32(1); pg <= n; pg++ {
			prog.Modify = append(prog.Modify, pg)
		}
		if t.Chance(1, 2) {
			prog.SpillAt = []int{t.Range(1, int(n)-1)}
		}
	}
	if staleFocus {
		// one record (page 1 only) or two: the old second header at the next
		// sector boundary survives in the first case
		prog = TxProgram{NewSize: h.ref.N(), Outcome: prog.Outcome, NoSync: t.Chance(2, 3)}
		if t.Chance(1, 3) {
			prog.Modify = []uint32{2}
		}
	}
	c.Mode = h.jmode
	res := c.WriteTx(prog, h.ref)
	cr.active = false
	cr.detach()
	c.onJournalWrite, c.onJournalSync = nil, nil
	if res.Outcome == "error" || res.Outcome == "busy" {
		r.Failf("c17.refused", "journal transaction refused at %s: %v", res.FailedAt, res.Errno)
		return
	}
	after := before
	if res.Outcome == OutCommit {
		after = res.After
	}
	h.closeConns()
	r.Cfg["program"] = fmt.Sprintf("%s %d->%d mod=%d spill=%d nosync=%v", prog.Outcome, before.N(), prog.NewSize, len(prog.Modify), len(prog.SpillAt), prog.NoSync)

	check := func(dir, label string, committed bool) {
		if r.Failed() {
			return
		}
		r.Step()
		v, err := c17Open(r, dir)
		defer func() {
			if v != nil && v.Store != nil {
				v.Fence()
				v.Close()
			}
		}()
		r.Count("c17.decided")
		r.State("journal/%s/%s/%s", h.jmode, label, prog.Outcome)
		if !r.Check(err == nil, "c17.journal-open", "journal state %q (%s, %s): restart failed: %v", label, h.jmode, r.Cfg["program"], err) {
			return
		}
		disk, derr := ReadDiskImage(filepath.Join(v.Dir, "dbs", h.name))
		if !r.Check(derr == nil, "c17.journal-disk", "%q: %v", label, derr) {
			return
		}
		d1 := DiffImages(disk, before)
		d2 := DiffImages(disk, after)
		switch {
		case committed:
			r.Check(d2 == "", "c17.journal-image", "journal state %q (%s, %s) after the commit point: database is not the committed image: %s", label, h.jmode, r.Cfg["program"], d2)
		case d1 == "":
		case d2 == "" && v.Store.DB(h.name).Pos() != beforePos:
			// LiteFS had already published the transaction: the post image is right
		default:
			r.Failf("c17.journal-image", "journal state %q (%s, %s): after rollback the database is neither the pre-transaction image (%s) nor the committed one (%s)", label, h.jmode, r.Cfg["program"], d1, d2)
		}
	}
	for i, img := range cr.imgs {
		check(img.dir, img.label, img.afterCommit)
		if cutFocus && !img.afterCommit && !r.Failed() {
			// the file already cut, if the interrupted transaction had got as far
			// as rewriting page 1 and the journal is complete (synced)
			dbp := filepath.Join(img.dir, "dbs", h.name, "database")
			if b, err := os.ReadFile(dbp); err == nil && uint32(len(b)) >= h.pageSize && lastAt[i] == nil {
				if hh, _, ok := decodeDBHeader(b[:h.pageSize]); ok && hh.SizePages == prog.NewSize && prog.NewSize < before.N() {
					vdir := filepath.Join(r.Dir, fmt.Sprintf("cut-%d", i))
					if err := CopyTree(img.dir, vdir); err == nil {
						_ = os.Truncate(filepath.Join(vdir, "dbs", h.name, "database"), int64(prog.NewSize)*int64(h.pageSize))
						check(vdir, img.label+"+file-cut", false)
						r.Count("c17.cut-variant")
					}
				}
			}
		}
		// torn variants of the last un-synced journal write
		lw := lastAt[i]
		if lw == nil || img.afterCommit || r.Failed() || prog.NoSync {
			continue // (no-sync journals never fsync, so "not yet synced" says nothing about the database pages)
		}
		jpath := filepath.Join(img.dir, "dbs", h.name, "journal")
		jb, err := os.ReadFile(jpath)
		if err != nil || int64(len(jb)) < lw.off+int64(lw.n) {
			continue
		}
		cuts := []int{0, 1, lw.n / 2, lw.n - 1}
		for _, k := range cuts {
			if k < 0 || k >= lw.n {
				continue
			}
			vdir := filepath.Join(r.Dir, fmt.Sprintf("torn-%d-%d", i, k))
			if err := CopyTree(img.dir, vdir); err != nil {
				continue
			}
			torn := append([]byte(nil), jb...)
			// the tail of the last write did not make it: what was there before
			// is unknown, use zeros and (if it was the end of the file) cut it
			if lw.off+int64(lw.n) >= int64(len(jb)) {
				torn = torn[:lw.off+int64(k)]
			} else {
				for x := lw.off + int64(k); x < lw.off+int64(lw.n); x++ {
					torn[x] = 0
				}
			}
			_ = os.WriteFile(filepath.Join(vdir, "dbs", h.name, "journal"), torn, 0o666)
			check(vdir, fmt.Sprintf("%s+torn", img.label), false)
			r.Count("c17.torn")
		}
	}
	r.Sample = map[string]any{"program": r.Cfg["program"], "interruption_points": len(cr.imgs), "labels": labelsOf(cr.imgs, 20)}
}

// c17MakeWAL builds a data directory with a WAL-mode database and returns the
// database directory plus the raw WAL bytes PagerSim left there.
func c17MakeWAL(r *Run, t *Tape) (dbDir string, wal []byte, base *Image, pageSize uint32, ok bool) {
	h := &hist{r: r, name: "db"}
	h.pageSize = []uint32{512, 1024, 4096}[t.Next(3)]
	h.jmode = ModeDelete
	h.maxPages = 30
	h.n = newStaticPrimary(r, false, nil)
	if h.n == nil {
		return "", nil, nil, 0, false
	}
	if !h.openConns(1) {
		return "", nil, nil, 0, false
	}
	h.commit(t)
	if h.ref.N() == 0 {
		h.commit(t)
	}
	if r.Failed() || h.ref.N() == 0 || !h.toWAL() {
		return "", nil, nil, 0, false
	}
	h.conns[0].wal.bigEnd = t.Chance(1, 3)
	// everything so far is in the database file; remember it as the base
	h.conns[0].WalCheckpoint(CkptTruncate)
	baseIm, _ := ReadDiskImage(h.n.Store.DBPath(h.name))
	for i := 0; i < t.Range(1, 5); i++ {
		h.commit(t)
	}
	if r.Failed() {
		return "", nil, nil, 0, false
	}
	wal, _ = os.ReadFile(filepath.Join(h.n.Store.DBPath(h.name), "wal"))
	// the base database file as it is on disk now (frames not checkpointed)
	raw, _ := os.ReadFile(filepath.Join(h.n.Store.DBPath(h.name), "database"))
	h.closeConns()
	dir := filepath.Join(r.Dir, "walbase")
	_ = os.MkdirAll(filepath.Join(dir, "dbs", "db", "ltx"), 0o777)
	_ = os.WriteFile(filepath.Join(dir, "dbs", "db", "database"), raw, 0o666)
	_ = baseIm
	b2, _ := ReadDiskImage(filepath.Join(dir, "dbs", "db"))
	return dir, wal, b2, h.pageSize, true
}

func mutateBytes(t *Tape, b []byte, pageSize uint32) ([]byte, string) {
	out := append([]byte(nil), b...)
	if len(out) == 0 {
		return out, "empty"
	}
	fsz := 24 + int(pageSize)
	nframes := 0
	if len(out) > 32 {
		nframes = (len(out) - 32) / fsz
	}
	switch t.Next(9) {
	case 0:
		return out, "intact"
	case 1:
		i := t.Next(len(out))
		out[i] ^= 1 << uint(t.Next(8))
		return out, "bitflip"
	case 2:
		return out[:t.Next(len(out))], "truncate"
	case 3:
		i := t.Next(len(out))
		n := t.Range(1, 64)
		for j := i; j < i+n && j < len(out); j++ {
			out[j] = 0
		}
		return out, "zero-region"
	case 4:
		if nframes > 0 {
			f := t.Next(nframes)
			off := 32 + f*fsz
			binary.BigEndian.PutUint32(out[off+8:], binary.BigEndian.Uint32(out[off+8:])+1)
		}
		return out, "salt"
	case 5:
		if nframes > 0 {
			f := t.Next(nframes)
			off := 32 + f*fsz
			binary.BigEndian.PutUint32(out[off:], uint32(t.Next(50)))
		}
		return out, "pgno"
	case 6:
		if nframes > 0 {
			f := t.Next(nframes)
			off := 32 + f*fsz
			binary.BigEndian.PutUint32(out[off+4:], uint32(t.Next(40)))
		}
		return out, "commit-mark"
	case 7:
		// header salts swapped
		if len(out) >= 32 {
			a := binary.BigEndian.Uint32(out[16:])
			binary.BigEndian.PutUint32(out[16:], binary.BigEndian.Uint32(out[20:]))
			binary.BigEndian.PutUint32(out[20:], a)
		}
		return out, "swap-header-salts"
	case 8:
		// append a copy of some frames (an earlier generation's tail)
		if nframes > 1 {
			f := t.Next(nframes)
			out = append(out, out[32+f*fsz:]...)
		}
		return out, "splice"
	}
	return out, "intact"
}

func c17WALScan(r *Run) {
	t := r.Tape
	dir, wal, base, pageSize, ok := c17MakeWAL(r, t)
	if !ok {
		return
	}
	r.Cfg["page_size"], r.Cfg["wal_bytes"] = pageSize, len(wal)
	var kinds []string
	for k := 0; k < t.Range(3, 10) && !r.Failed(); k++ {
		r.Step()
		var b []byte
		var kind string
		if t.Chance(1, 6) {
			b = make([]byte, t.Range(0, 3*(24+int(pageSize))))
			t.Bytes(b)
			if t.Chance(1, 2) && len(b) >= 32 {
				copy(b, wal[:32]) // valid header, random frames
			}
			kind = "random"
		} else {
			b, kind = mutateBytes(t, wal, pageSize)
		}
		kinds = append(kinds, kind)
		// (a) the reader itself
		ref := ScanWAL(b)
		rd := litefs.NewWALReader(bytes.NewReader(b))
		var got []WALFrame
		err := rd.ReadHeader()
		hdrOK := err == nil
		if hdrOK {
			buf := make([]byte, rd.PageSize())
			for {
				pg, cm, err := rd.ReadFrame(buf)
				if err != nil {
					break
				}
				got = append(got, WALFrame{Pgno: pg, Commit: cm, Data: append([]byte(nil), buf...)})
				if len(got) > 100000 {
					r.Failf("c17.wal-hang", "WALReader did not stop on %s input", kind)
					return
				}
			}
		}
		r.Count("c17.decided")
		// header acceptance: LiteFS may reject with an error where the
		// reference says "not a WAL"; both mean no frames.
		want := ref.Frames
		if !ref.HeaderOK {
			want = nil
		}
		if hdrOK && !ref.HeaderOK && len(got) > 0 {
			r.Failf("c17.wal-prefix", "%s: LiteFS accepts %d frames of a log whose header is invalid", kind, len(got))
			return
		}
		// pgno==0 frames: SQLite's recovery stops there; LiteFS's reader has no such rule
		if len(got) != len(want) {
			r.Failf("c17.wal-prefix", "%s (%d bytes): LiteFS treats %d frames as valid, the longest prefix with matching salts and cumulative checksums has %d", kind, len(b), len(got), len(want))
			return
		}
		for i := range got {
			if got[i].Pgno != want[i].Pgno || got[i].Commit != want[i].Commit || !bytes.Equal(got[i].Data, want[i].Data) {
				r.Failf("c17.wal-prefix", "%s: frame %d differs (pgno %d/%d commit %d/%d)", kind, i, got[i].Pgno, want[i].Pgno, got[i].Commit, want[i].Commit)
				return
			}
		}
		r.State("wal/%s/hdr%v/frames%s/commit%v", kind, ref.HeaderOK, lenClass(len(want)), ref.LastCommit > 0)
		// (b) what reaches the database at checkpoint (Store.Open with no LTX files)
		cdir := filepath.Join(r.Dir, fmt.Sprintf("walcase-%d", k))
		_ = CopyTree(dir, cdir)
		_ = os.WriteFile(filepath.Join(cdir, "dbs", "db", "wal"), b, 0o666)
		// expectation from the reference scanner
		expect, eerr := ReadDiskImage(filepath.Join(cdir, "dbs", "db"))
		var maxPgno uint32
		v := r.NewNode(NodeCfg{Candidate: true})
		v.Cfg.Leaser = litefs.NewStaticLeaser(true, v.Name, v.URL())
		v.Dir = cdir
		v.PreOpen = func(n *Node) {
			n.SetPageOpHook(func(db *litefs.DB, op string, pgno uint32) error {
				if op == "write" && pgno > maxPgno {
					maxPgno = pgno
				}
				return nil
			})
		}
		oerr := v.Open()
		if v.Store != nil {
			v.SetPageOpHook(nil)
		}
		if oerr == nil {
			disk, derr := ReadDiskImage(filepath.Join(cdir, "dbs", "db"))
			if eerr == nil && derr == nil {
				if d := DiffImages(disk, expect); d != "" {
					r.Failf("c17.wal-checkpoint", "%s: after the restart checkpoint the database differs from (database file + frames up to the last commit mark of the valid prefix): %s", kind, d)
				}
			}
			limit := base.N()
			if ref.HeaderOK && ref.LastCommit > 0 {
				for _, fr := range ref.Frames[:ref.LastCommit] {
					if fr.Pgno > limit {
						limit = fr.Pgno
					}
				}
			}
			r.Check(maxPgno <= limit, "c17.out-of-range-write", "%s: checkpoint wrote page %d, beyond the database and the committed frames (%d)", kind, maxPgno, limit)
			v.Fence()
			v.Close()
		} else {
			r.Count("c17.wal-open-error")
		}
	}
	r.Sample = map[string]any{"mutations": kinds, "wal_bytes": len(wal)}
}

func c17Arbitrary(r *Run) {
	t := r.Tape
	pageSize := []uint32{512, 1024, 4096}[t.Next(3)]
	npages := uint32(t.Range(1, 12))
	base := MakeImage(pageSize, npages, false, 1)
	var kinds []string
	for k := 0; k < t.Range(3, 10) && !r.Failed(); k++ {
		r.Step()
		dir := filepath.Join(r.Dir, fmt.Sprintf("arb-%d", k))
		_ = os.MkdirAll(filepath.Join(dir, "dbs", "db", "ltx"), 0o777)
		_ = os.WriteFile(filepath.Join(dir, "dbs", "db", "database"), base.Bytes(), 0o666)
		// craft a journal
		var jb []byte
		kind := ""
		switch t.Next(5) {
		case 0:
			jb = make([]byte, t.Range(0, 3000))
			t.Bytes(jb)
			kind = "random"
		case 1, 2, 3, 4:
			// a structurally valid header followed by hostile records
			hdr := make([]byte, 512)
			copy(hdr, journalMagic)
			nrec := []uint32{0, 1, 3, 0xffffffff, 1000000}[t.Next(5)]
			binary.BigEndian.PutUint32(hdr[8:], nrec)
			nonce := uint32(t.Next(1 << 30))
			binary.BigEndian.PutUint32(hdr[12:], nonce)
			binary.BigEndian.PutUint32(hdr[16:], []uint32{npages, 0, npages + 5, 1 << 20}[t.Pick([]int{6, 2, 2, 1})])
			binary.BigEndian.PutUint32(hdr[20:], []uint32{512, 0, 1, 4096, 0xffffffff}[t.Pick([]int{6, 2, 1, 1, 1})])
			binary.BigEndian.PutUint32(hdr[24:], []uint32{pageSize, 0, 512, 65536}[t.Pick([]int{7, 1, 1, 1})])
			if t.Chance(1, 5) {
				for i := 0; i < 8; i++ {
					hdr[i] = 0
				}
			}
			jb = hdr
			for i := 0; i < t.Range(0, 4); i++ {
				rec := make([]byte, 4+int(pageSize)+4)
				pg := []uint32{uint32(t.Range(1, int(npages))), 0, npages + 1, 1 << 20, 0x7fffffff, 0xffffffff}[t.Pick([]int{5, 2, 2, 2, 1, 1})]
				binary.BigEndian.PutUint32(rec, pg)
				t.Bytes(rec[4 : 4+pageSize])
				ck := nonce
				for x := int(pageSize) - 200; x > 0; x -= 200 {
					ck += uint32(rec[4+x])
				}
				if t.Chance(1, 6) {
					ck++
				}
				binary.BigEndian.PutUint32(rec[4+pageSize:], ck)
				jb = append(jb, rec...)
			}
			kind = fmt.Sprintf("crafted/nrec=%d", nrec)
		}
		kinds = append(kinds, kind)
		_ = os.WriteFile(filepath.Join(dir, "dbs", "db", "journal"), jb, 0o666)
		var maxPgno uint32
		var sizeAfter int64
		v := r.NewNode(NodeCfg{Candidate: true})
		v.Cfg.Leaser = litefs.NewStaticLeaser(true, v.Name, v.URL())
		v.Dir = dir
		v.PreOpen = func(n *Node) {
			n.SetPageOpHook(func(db *litefs.DB, op string, pgno uint32) error {
				if op == "write" && pgno > maxPgno {
					maxPgno = pgno
				}
				return nil
			})
		}
		var oerr error
		func() {
			defer func() {
				if rec := recover(); rec != nil {
					r.Failf("c17.panic", "%s journal (%d bytes) over a %d-page database: Store.Open panicked: %v", kind, len(jb), npages, rec)
				}
			}()
			oerr = v.Open()
		}()
		if r.Failed() {
			return
		}
		r.Count("c17.decided")
		if fi, err := os.Stat(filepath.Join(dir, "dbs", "db", "database")); err == nil {
			sizeAfter = fi.Size()
		}
		origSize := uint32(0)
		if len(jb) >= 20 {
			origSize = binary.BigEndian.Uint32(jb[16:])
		}
		limit := npages
		if origSize > limit {
			limit = origSize // the journal header says the database was this large: restoring that size is what a rollback does
		}
		r.Check(maxPgno <= limit, "c17.out-of-range-write", "%s journal (%d bytes) over a %d-page database: rollback wrote page %d, outside the database's pages (journal's original size field %d)", kind, len(jb), npages, maxPgno, origSize)
		r.Check(sizeAfter <= int64(limit)*int64(pageSize), "c17.out-of-range-write", "%s journal: database file is %d bytes after recovery (limit %d pages)", kind, sizeAfter, limit)
		r.State("arbitrary/%s/err%v", kind, oerr != nil)
		if v.Store != nil && oerr == nil {
			v.SetPageOpHook(nil)
			v.Fence()
			v.Close()
		}
	}
	_ = io.EOF
	r.Sample = map[string]any{"kinds": kinds, "pages": npages, "page_size": pageSize}
}
