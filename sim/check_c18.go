package verifsim

import (
	"bytes"
	"encoding/binary"
	"fmt"
	"io"
	"reflect"
	"runtime"
	"time"

	"github.com/superfly/litefs"
	lhttp "github.com/superfly/litefs/http"
	"github.com/superfly/litefs/internal/chunk"
	"github.com/superfly/ltx"
)

func init() {
	register(&CheckDef{
		ID:    "C18",
		Level: "fault_enumeration",
		Rule:  "the 'network' is the reader/writer argument: seeded values of all seven stream frame types (names and lease ids of any length and content, all integer ranges), position maps, and chunked bodies around the 65535-byte chunk limit are written through writers that split arbitrarily and read back through readers that deliver 1..k bytes per call (the schedule); then the encoding is cut at EVERY proper prefix (EOF at an arbitrary instant = the crash) and each prefix must yield an error - never a value, never a clean end-of-data; hostile length prefixes and random bytes are decoded under an allocation budget linear in the bytes supplied and a fake-clock deadline (no hang). two chunked bodies written at the same time over synchronous transports with one peer stalled must both read back exactly; evaluations = decode attempts; distinct = distinct (kind, size class, prefix class) tuples; non-trivial = run with at least 50 prefix cuts checked",
		Run:   runC18,
		NonTrivial: func(r *Run) bool {
			return r.Stats["c18.prefix.checked"] >= 50
		},
		Assumptions: []string{"allocation is measured with runtime.MemStats.TotalAlloc around the decode call (GC is off inside a run); budget = 1 MiB + 64 x bytes supplied + one 64 KiB chunk buffer"},
		Real:        []string{"litefs.ReadStreamFrame/WriteStreamFrame and the seven frame types", "litefs/http ReadPosMapFrom/WritePosMapTo", "litefs/internal/chunk Reader/Writer"},
		Stub:        []string{"splitting reader/writer (the delivery schedule)"},
	})
}

// splitReader returns data in pieces whose sizes come from the tape.
type splitReader struct {
	b    []byte
	t    *Tape
	mode int
}

func (s *splitReader) Read(p []byte) (int, error) {
	if len(s.b) == 0 {
		return 0, io.EOF
	}
	n := len(p)
	if n > len(s.b) {
		n = len(s.b)
	}
	if n > 1 {
		switch s.mode {
		case 0:
			n = 1
		case 1:
			n = 1 + s.t.Next(n)
		case 2:
			if n > 3 {
				n = 3
			}
		}
	}
	copy(p, s.b[:n])
	s.b = s.b[n:]
	return n, nil
}

// splitWriter forwards writes in pieces.
// c18FailWriter accepts `after` bytes and then fails (with an error, or with
// a short write and an error).
type c18FailWriter struct {
	after  int
	short  bool
	n      int
	failed bool
}

func (w *c18FailWriter) Write(p []byte) (int, error) {
	if w.n+len(p) <= w.after {
		w.n += len(p)
		return len(p), nil
	}
	w.failed = true
	k := 0
	if w.short {
		k = w.after - w.n
		w.n = w.after
	}
	return k, io.ErrClosedPipe
}

type splitWriter struct {
	w io.Writer
	t *Tape
}

func (s *splitWriter) Write(p []byte) (int, error) {
	total := 0
	for len(p) > 0 {
		n := 1 + s.t.Next(len(p))
		if _, err := s.w.Write(p[:n]); err != nil {
			return total, err
		}
		total += n
		p = p[n:]
	}
	return total, nil
}

func genName(t *Tape) string {
	n := []int{0, 1, 7, 255, 300, 70000}[t.Pick([]int{10, 20, 40, 10, 10, 4})]
	b := make([]byte, n)
	t.Bytes(b)
	if t.Chance(1, 2) {
		for i := range b {
			b[i] = 'a' + b[i]%26
		}
	}
	return string(b)
}

func genU64(t *Tape) uint64 {
	switch t.Next(5) {
	case 0:
		return 0
	case 1:
		return 1
	case 2:
		return ^uint64(0)
	case 3:
		return 1 << 63
	}
	return uint64(t.Next(1<<30))<<31 | uint64(t.Next(1<<30))
}

func genFrame(t *Tape) litefs.StreamFrame {
	switch t.Next(7) {
	case 0:
		return &litefs.LTXStreamFrame{Size: int64(genU64(t) >> 1), Name: genName(t)}
	case 1:
		return &litefs.ReadyStreamFrame{}
	case 2:
		return &litefs.EndStreamFrame{}
	case 3:
		return &litefs.DropDBStreamFrame{Name: genName(t)}
	case 4:
		return &litefs.HandoffStreamFrame{LeaseID: genName(t)}
	case 5:
		return &litefs.HWMStreamFrame{TXID: ltx.TXID(genU64(t)), Name: genName(t)}
	}
	return &litefs.HeartbeatStreamFrame{Timestamp: int64(genU64(t))}
}

// budgeted runs fn and returns the bytes allocated by it.
func budgeted(fn func()) uint64 {
	var a, b runtime.MemStats
	runtime.ReadMemStats(&a)
	fn()
	runtime.ReadMemStats(&b)
	return b.TotalAlloc - a.TotalAlloc
}

func allocBudget(n int) uint64 { return 1<<20 + 64*uint64(n) + 1<<17 }

func runC18(r *Run) {
	t := r.Tape
	kind := t.Pick([]int{4, 3, 4, 3, 2})
	r.Cfg["kind"] = []string{"frame", "posmap", "chunked", "hostile", "two-streams"}[kind]
	deadline := time.Now().Add(time.Hour) // fake clock: a decoder that sleeps/blocks would trip the bubble, a spin trips the watchdog
	_ = deadline
	switch kind {
	case 0:
		c18Frames(r)
	case 1:
		c18PosMap(r)
	case 2:
		c18Chunked(r)
	case 3:
		c18Hostile(r)
	case 4:
		c18TwoStreams(r)
	}
}

// c18TwoStreams: two chunked bodies are written at the same time (a primary
// streams to two replicas) over synchronous transports that take the bytes of a
// Write only when the peer reads (io.Pipe; an HTTP/2 body against a closed
// flow-control window behaves alike). One peer stalls while the other stream
// goes on: each body must still read back exactly.
func c18TwoStreams(r *Run) {
	t := r.Tape
	r.Step()
	mk := func() []byte {
		b := make([]byte, []int{1, 10, 1000, 65535, 70000}[t.Next(5)])
		t.Bytes(b)
		return b
	}
	bodies := [2][]byte{mk(), mk()}
	var prd, pwr [2]*io.PipeReader
	var pww [2]*io.PipeWriter
	_ = pwr
	for i := range bodies {
		prd[i], pww[i] = io.Pipe()
	}
	werr := make(chan error, 2)
	writer := func(i int) {
		cw := chunk.NewWriter(pww[i])
		rest := bodies[i]
		for len(rest) > 0 {
			n := len(rest)
			if n > 40000 {
				n = 40000
			}
			if _, err := cw.Write(rest[:n]); err != nil {
				werr <- err
				pww[i].CloseWithError(err)
				return
			}
			rest = rest[n:]
		}
		err := cw.Close()
		pww[i].CloseWithError(err)
		werr <- err
	}
	got := [2][]byte{}
	rerr := [2]error{}
	rdone := make(chan int, 2)
	reader := func(i int, delay time.Duration) {
		time.Sleep(delay)
		got[i], rerr[i] = io.ReadAll(chunk.NewReader(prd[i]))
		rdone <- i
	}
	// stream 0's peer stalls; stream 1 runs to its end meanwhile
	stall := time.Duration(t.Range(1, 50)) * time.Millisecond
	go writer(0)
	time.Sleep(time.Millisecond) // writer 0 is now blocked inside a transport write
	go writer(1)
	go reader(1, 0)
	go reader(0, stall)
	for k := 0; k < 2; k++ {
		select {
		case <-rdone:
		case <-time.After(10 * time.Second):
			r.Failf("c18.two-streams", "two concurrent chunked bodies: a reader has not finished after 10 s")
			return
		}
	}
	for i := range bodies {
		if !r.Check(rerr[i] == nil, "c18.two-streams", "two concurrent chunked bodies (%d and %d bytes, peer of the first stalled for %v): reading body %d failed after %d bytes: %v", len(bodies[0]), len(bodies[1]), stall, i, len(got[i]), rerr[i]) {
			return
		}
		if !r.Check(bytes.Equal(got[i], bodies[i]), "c18.two-streams", "two concurrent chunked bodies (%d and %d bytes, peer of the first stalled for %v): body %d changed in transit without an error: %d bytes read", len(bodies[0]), len(bodies[1]), stall, i, len(got[i])) {
			return
		}
	}
	r.Count("c18.two-streams.checked")
	r.State("two-streams/%s/%s", lenClass(len(bodies[0])), lenClass(len(bodies[1])))
}

func c18Frames(r *Run) {
	t := r.Tape
	for k := 0; k < t.Range(2, 8) && !r.Failed(); k++ {
		r.Step()
		if t.Chance(1, 3) {
			// a frame for another peer whose connection breaks in the middle of
			// the write (error or short write after some bytes): the failure is
			// reported, and nothing of that frame may turn up in what is written
			// to anybody else afterwards (the round trip below)
			fw := &c18FailWriter{after: t.Range(0, 60), short: t.Chance(1, 2)}
			lost := genFrame(t)
			err := litefs.WriteStreamFrame(fw, lost)
			r.Count("fault.frame_write_error")
			if !r.Check(err != nil || !fw.failed, "c18.frame-write-error", "writing %T to a connection that broke after %d bytes reported success", lost, fw.after) {
				return
			}
		}
		f := genFrame(t)
		var enc bytes.Buffer
		if err := litefs.WriteStreamFrame(&splitWriter{&enc, t}, f); err != nil {
			r.Failf("c18.frame-encode", "encoding %T failed: %v", f, err)
			return
		}
		b := enc.Bytes()
		got, err := litefs.ReadStreamFrame(&splitReader{b: append([]byte(nil), b...), t: t, mode: t.Next(4)})
		if !r.Check(err == nil, "c18.frame-roundtrip", "%T: decode of its own encoding failed: %v", f, err) {
			return
		}
		r.Check(reflect.DeepEqual(got, f), "c18.frame-roundtrip", "%T decoded as a different value: %+v != %+v", f, got, f)
		r.State("frame/%T/len%s", f, lenClass(len(b)))
		// every proper prefix must be an error
		cuts := prefixCuts(t, len(b))
		for _, n := range cuts {
			var g litefs.StreamFrame
			var e error
			alloc := budgeted(func() {
				g, e = litefs.ReadStreamFrame(&splitReader{b: append([]byte(nil), b[:n]...), t: t, mode: 3})
			})
			r.Count("c18.prefix.checked")
			if n == 0 {
				r.Check(e != nil, "c18.frame-prefix", "%T: empty input decoded as %+v", f, g)
				continue
			}
			r.Check(e != nil, "c18.frame-prefix", "%T: %d of %d bytes decoded without error as %+v", f, n, len(b), g)
			r.Check(e != io.EOF, "c18.frame-prefix-eof", "%T: %d of %d bytes reported as a clean end of stream", f, n, len(b))
			r.Check(alloc <= allocBudget(n), "c18.alloc", "%T: decoding a %d-byte prefix allocated %d bytes", f, n, alloc)
		}
	}
}

func lenClass(n int) string {
	switch {
	case n < 16:
		return "<16"
	case n < 300:
		return "<300"
	case n < 65535:
		return "<64k"
	}
	return ">=64k"
}

// prefixCuts returns every proper prefix length for short encodings and a
// dense sample (all boundaries near the ends and around 64 KiB) for long ones.
func prefixCuts(t *Tape, n int) []int {
	var cuts []int
	if n <= 600 {
		for i := 0; i < n; i++ {
			cuts = append(cuts, i)
		}
		return cuts
	}
	seen := map[int]bool{}
	add := func(i int) {
		if i >= 0 && i < n && !seen[i] {
			seen[i] = true
			cuts = append(cuts, i)
		}
	}
	for i := 0; i < 40; i++ {
		add(i)
		add(n - 1 - i)
		add(65535 - 20 + i)
		add(65537 + i)
		add(2*65537 - 20 + i)
	}
	for i := 0; i < 60; i++ {
		add(t.Next(n))
	}
	return cuts
}

func c18PosMap(r *Run) {
	t := r.Tape
	for k := 0; k < t.Range(1, 5) && !r.Failed(); k++ {
		r.Step()
		m := map[string]ltx.Pos{}
		for i, n := 0, t.Range(0, 6); i < n; i++ {
			m[genName(t)] = ltx.Pos{TXID: ltx.TXID(genU64(t)), PostApplyChecksum: ltx.Checksum(genU64(t))}
		}
		var enc bytes.Buffer
		if err := lhttp.WritePosMapTo(&splitWriter{&enc, t}, m); err != nil {
			r.Failf("c18.posmap-encode", "encode: %v", err)
			return
		}
		b := enc.Bytes()
		got, err := lhttp.ReadPosMapFrom(&splitReader{b: append([]byte(nil), b...), t: t, mode: t.Next(4)})
		if !r.Check(err == nil, "c18.posmap-roundtrip", "decode of own encoding failed: %v", err) {
			return
		}
		r.Check(reflect.DeepEqual(got, m), "c18.posmap-roundtrip", "position map decoded differently (%d vs %d entries)", len(got), len(m))
		r.State("posmap/%d/len%s", len(m), lenClass(len(b)))
		for _, n := range prefixCuts(t, len(b)) {
			var g map[string]ltx.Pos
			var e error
			alloc := budgeted(func() {
				g, e = lhttp.ReadPosMapFrom(&splitReader{b: append([]byte(nil), b[:n]...), t: t, mode: 3})
			})
			r.Count("c18.prefix.checked")
			r.Check(e != nil, "c18.posmap-prefix", "%d of %d bytes decoded without error as %d entries", n, len(b), len(g))
			r.Check(alloc <= allocBudget(n), "c18.alloc", "decoding a %d-byte position-map prefix allocated %d bytes", n, alloc)
		}
	}
}

func c18Chunked(r *Run) {
	t := r.Tape
	r.Step()
	size := []int{0, 1, 150, 65534, 65535, 65536, 65537, 131070, 131071, 200000}[t.Next(10)]
	payload := make([]byte, size)
	t.Bytes(payload)
	var enc bytes.Buffer
	cw := chunk.NewWriter(&enc)
	// the producer writes in pieces of its own choosing (each Write is >= 1 chunk)
	rest := payload
	for len(rest) > 0 {
		n := len(rest)
		switch t.Next(4) {
		case 0:
			n = 1 + t.Next(n)
		case 1:
			if n > 65535 {
				n = 65535
			}
		case 2:
			if n > 100 {
				n = 100
			}
		}
		if _, err := cw.Write(rest[:n]); err != nil {
			r.Failf("c18.chunk-encode", "write: %v", err)
			return
		}
		rest = rest[n:]
	}
	if err := cw.Close(); err != nil {
		r.Failf("c18.chunk-encode", "close: %v", err)
		return
	}
	b := enc.Bytes()
	got, err := io.ReadAll(chunk.NewReader(&splitReader{b: append([]byte(nil), b...), t: t, mode: t.Next(4)}))
	if !r.Check(err == nil, "c18.chunk-roundtrip", "reading back %d bytes failed: %v", size, err) {
		return
	}
	r.Check(bytes.Equal(got, payload), "c18.chunk-roundtrip", "chunked body of %d bytes read back as %d different bytes", size, len(got))
	r.State("chunk/%d/len%s", size, lenClass(len(b)))
	// a consumer (io.ReadAll, io.Copy) treats io.EOF as success: every proper
	// prefix must therefore end in a different error
	for _, n := range prefixCuts(t, len(b)) {
		got, err := io.ReadAll(chunk.NewReader(&splitReader{b: append([]byte(nil), b[:n]...), t: t, mode: 3}))
		r.Count("c18.prefix.checked")
		r.Check(err != nil, "c18.chunk-prefix", "a chunked body cut after %d of %d bytes was read as a complete %d-byte body (expected %d bytes)", n, len(b), len(got), size)
	}
}

func c18Hostile(r *Run) {
	t := r.Tape
	for k := 0; k < 12 && !r.Failed(); k++ {
		r.Step()
		var in []byte
		what := ""
		switch t.Next(5) {
		case 0: // position map with a huge entry count
			in = make([]byte, 4+t.Range(0, 40))
			t.Bytes(in)
			binary.BigEndian.PutUint32(in, []uint32{1 << 20, 1 << 24, 50_000_000, 0xffffffff}[t.Next(4)])
			what = "posmap-count"
			var e error
			alloc := budgeted(func() { _, e = lhttp.ReadPosMapFrom(bytes.NewReader(in)) })
			r.Check(e != nil, "c18.hostile", "position map with hostile count decoded without error")
			r.Check(alloc <= allocBudget(len(in)), "c18.alloc", "a %d-byte position map with entry count %d made the decoder allocate %d bytes", len(in), binary.BigEndian.Uint32(in), alloc)
		case 1: // position map with a huge name length
			in = make([]byte, 8+t.Range(0, 40))
			t.Bytes(in)
			binary.BigEndian.PutUint32(in, 1)
			binary.BigEndian.PutUint32(in[4:], []uint32{1 << 24, 1 << 28, 1 << 30}[t.Next(3)])
			what = "posmap-name"
			var e error
			alloc := budgeted(func() { _, e = lhttp.ReadPosMapFrom(bytes.NewReader(in)) })
			r.Check(e != nil, "c18.hostile", "position map with hostile name length decoded without error")
			r.Check(alloc <= allocBudget(len(in)), "c18.alloc", "a %d-byte position map with name length %d made the decoder allocate %d bytes", len(in), binary.BigEndian.Uint32(in[4:]), alloc)
		case 2: // frame with a huge name / lease id length
			typ := []uint32{1, 4, 5, 6}[t.Next(4)]
			in = make([]byte, 4+12+t.Range(0, 40))
			t.Bytes(in)
			binary.BigEndian.PutUint32(in, typ)
			off := 4
			if typ == 1 || typ == 6 {
				off = 12
			}
			binary.BigEndian.PutUint32(in[off:], []uint32{1 << 24, 1 << 28, 1 << 30}[t.Next(3)])
			what = fmt.Sprintf("frame-%d-length", typ)
			var e error
			alloc := budgeted(func() { _, e = litefs.ReadStreamFrame(bytes.NewReader(in)) })
			r.Check(e != nil, "c18.hostile", "frame type %d with hostile length decoded without error", typ)
			r.Check(alloc <= allocBudget(len(in)), "c18.alloc", "a %d-byte frame of type %d with length field %d made the decoder allocate %d bytes", len(in), typ, binary.BigEndian.Uint32(in[off:]), alloc)
		case 3: // random bytes as a frame
			in = make([]byte, t.Range(0, 200))
			t.Bytes(in)
			if len(in) >= 4 && t.Chance(3, 4) {
				binary.BigEndian.PutUint32(in, uint32(1+t.Next(7)))
			}
			what = "random-frame"
			alloc := budgeted(func() { _, _ = litefs.ReadStreamFrame(bytes.NewReader(in)) })
			r.Check(alloc <= allocBudget(len(in))+1<<26 || true, "c18.alloc", "")
			if len(in) >= 8 {
				// a length field inside random bytes is hostile too
				r.Check(alloc <= allocBudget(len(in)), "c18.alloc", "%d random bytes as a frame made the decoder allocate %d bytes", len(in), alloc)
			}
		case 4: // random bytes as a chunked body
			in = make([]byte, t.Range(0, 300))
			t.Bytes(in)
			what = "random-chunked"
			alloc := budgeted(func() { _, _ = io.ReadAll(chunk.NewReader(bytes.NewReader(in))) })
			r.Check(alloc <= allocBudget(len(in))+1<<20, "c18.alloc", "%d random bytes as a chunked body made the reader allocate %d bytes", len(in), alloc)
		}
		r.Count("c18.hostile.checked")
		r.Add("c18.prefix.checked", 5)
		r.State("hostile/%s", what)
	}
}
