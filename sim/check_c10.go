package verifsim

import (
	"bytes"
	"context"
	"fmt"
	"os"
	"strings"
	"sync"
	"time"

	"github.com/superfly/litefs"
	"github.com/superfly/ltx"
)

func init() {
	register(&CheckDef{
		ID:    "C10",
		Level: "exploration",
		Rule:  "a real node (simulated lease service, so that it can be demoted and re-elected) under the seeded scheduler with concurrent actors: a PagerSim writer (rollback-journal or WAL programs: commits, rollbacks, multi-frame transactions, log restarts, mode switches), a WAL checkpointer issuing PASSIVE/FULL/RESTART/TRUNCATE checkpoints, demotions (LiteFS's own checkpoint on role change), and an exporter that keeps calling DB.Export, DB.WriteSnapshotTo and GET /export into a writer that yields to the scheduler on every Write (a slow peer). Yield points: every OS call, every FUSE operation of the simulated SQLite, every change of state of the database's twelve locks (verif hook on RWMutex.OnLockStateChange) and every write of the export stream, so that a commit or a checkpoint can fall between any two lock acquisitions and any two pages of the snapshot. Oracle: every export / snapshot that completes without an error is compared byte for byte (page for page after decoding) with the image registered for exactly the position it reports; a snapshot's trailer checksum must equal that position's checksum and the from-scratch checksum of its pages. A second configuration adds a real replica that needs snapshots from the primary while it writes. evaluations = completed exports + snapshots; distinct = distinct (mode, kind, commits that happened during the export, checkpoint during the export) tuples; non-trivial = run in which at least one export completed while a commit or checkpoint happened between its first and last byte",
		Run:   runC10,
		NonTrivial: func(r *Run) bool {
			return r.Stats["c10.checked.overlapped"] > 0 || (r.Stats["c10.drop-export.checked"] > 0 && r.Stats["c10.drop"] > 0)
		},
		Assumptions: []string{"one writer transaction at a time (plus checkpointer and exporter); the exporter's reference is the image store fed by the simulated SQLite side"},
		Real:        []string{"DB.Export, DB.WriteSnapshotTo, http /export, lock acquisition order, CommitWAL/CommitJournal, WAL restart handling, CheckpointNoLock, state-change recovery"},
		Stub:        []string{"SimKernel", "PagerSim", "SimLease", "SimNet (second configuration)"},
	})
}

// yieldWriter is the receiving end of an export: it parks at the scheduler on
// every Write so that other actors run between any two pages.
type yieldWriter struct {
	r     *Run
	node  int
	buf   bytes.Buffer
	n     int
	slow  int // scheduler turns spent per Write
	pause time.Duration
}

func (w *yieldWriter) Write(p []byte) (int, error) {
	w.n++
	if s := w.r.Sched; s != nil {
		// a slow peer: the other actors get several turns per page
		for i := 0; i < w.slow; i++ {
			s.Yield(w.node, "net", "export-write")
		}
	}
	if w.pause > 0 {
		time.Sleep(w.pause) // ... and time passes (the writer's own pauses end)
	}
	return w.buf.Write(p)
}

// c10stall describes where the exporting goroutine is held up (a stalled thread):
// at its at-th lock transition of the current export it sleeps for dur, holding
// whatever locks it has by then, while writers and checkpointers carry on.
type c10stall struct {
	gid uint64
	at  int
	dur time.Duration
	n   int
}

func installLockSeam(r *Run, n *Node, db *litefs.DB, st *c10stall) {
	db.VerifSetLockHook(func(lt litefs.LockType, prev, next litefs.RWMutexState) {
		if s := r.Sched; s != nil {
			s.Yield(n.ID, "lock", fmt.Sprintf("%s %s->%s", lt, prev, next))
		}
		if st != nil && st.gid != 0 && goid() == st.gid {
			st.n++
			if st.n == st.at && st.dur > 0 {
				r.Count("fault.exporter_stalled_at_lock")
				time.Sleep(st.dur)
			}
		}
	})
}

func runC10(r *Run) {
	t := r.Tape
	if pick := t.Chance(1, 8); (pick && os.Getenv("SIM_C10_SCENARIO") != "0") || os.Getenv("SIM_C10_SCENARIO") == "1" { // (developer override)
		c10ExportAcrossDrop(r)
		return
	}
	withReplica := t.Chance(1, 4)
	nn := 1
	if withReplica {
		nn = 2
	}
	cs := newClusterSim(r, nn, "c10")
	cs.checkReaders = false
	cs.walReadPause = true
	cs.wal = t.Chance(3, 4)
	cs.wantTx = t.Range(6, 16)
	r.Cfg["wal"], r.Cfg["with_replica"] = cs.wal, withReplica
	if withReplica {
		cs.cl.Nodes[1].Cfg.Candidate = false
		cs.cl.Net.BufCap = []int{0, 2048, 16384}[t.Next(3)]
	}
	if !cs.openAll() {
		return
	}
	p := cs.cl.Nodes[0]
	name := cs.dbs[0]
	// the first transaction creates the database; then the lock seam goes in
	wt := t.Fork()
	deadline := 0
	for p.Store.DB(name) == nil || p.Store.DB(name).Pos().TXID == 0 {
		if !p.Store.IsPrimary() {
			if !cs.s.StepOnce(nil, true) {
				time.Sleep(10 * time.Millisecond)
			}
		} else {
			done := make(chan struct{})
			cs.goActor("first-writer", func() { defer close(done); cs.writeOnce(p, name, wt) })
			for {
				select {
				case <-done:
				default:
					cs.s.StepOnce(nil, true)
					continue
				}
				break
			}
		}
		if deadline++; deadline > 20000 || r.Failed() {
			r.Inconclusive("the database was not created")
			return
		}
	}
	db := p.Store.DB(name)
	stall := &c10stall{}
	installLockSeam(r, p, db, stall)
	// The writers, readers and checkpointers of this harness open a connection per
	// transaction; with nothing else connected each of them is "the first
	// connection" and rebuilds the wal-index from the log, which forgets how far
	// the log has been backfilled. An idle long-lived connection (what a real
	// application has) keeps the wal-index alive, so that backfilled-but-not-yet-
	// restarted logs and writer-driven log restarts occur.
	if cs.wal && t.Chance(3, 4) {
		anchor := cs.connFor(p, name, t.Fork())
		if anchor.Open() == 0 {
			if anchor.LockShared() == 0 && anchor.WalOpen() == 0 {
				r.Count("c10.anchor-connection")
				r.Cfg["anchor"] = true
			}
		}
	}

	cs.goActor("writer", func() { cs.writerLoop(wt) })
	if cs.wal {
		ct := t.Fork()
		cs.goActor("checkpointer", func() { c10Checkpointer(cs, p, name, ct) })
	}
	et := t.Fork()
	cs.goActor("exporter", func() { c10Exporter(cs, p, name, et, stall) })
	faultW := []int{0, 1, 2}[t.Next(3)]
	for step := 0; step < 6000 && !r.Failed(); step++ {
		cs.handleExits()
		cs.mu.Lock()
		done := cs.commits >= cs.wantTx
		cs.mu.Unlock()
		if done {
			break
		}
		var acts []Action
		if faultW > 0 {
			for _, a := range cs.faultActions(faultW) {
				if strings.HasPrefix(a.Name, "demote") || strings.HasPrefix(a.Name, "evict") || strings.HasPrefix(a.Name, "reset") {
					acts = append(acts, a)
				}
			}
		}
		cs.s.StepOnce(acts, true)
	}
	if r.Failed() {
		return
	}
	cs.heal()
	cs.quiesce()
	r.State("end/%v/replica%v/faults%d", cs.wal, withReplica, faultW)
}

func c10Checkpointer(cs *clusterSim, n *Node, name string, t *Tape) {
	r := cs.r
	for {
		cs.mu.Lock()
		stop := cs.stopWork || cs.commits >= cs.wantTx
		cs.mu.Unlock()
		if stop || r.Failed() {
			return
		}
		time.Sleep(time.Duration(t.Range(5, 400)) * time.Millisecond)
		if n.Store == nil || !n.Up || n.Exited {
			continue
		}
		c := cs.connFor(n, name, t)
		if c.Open() != 0 {
			continue
		}
		if c.LockShared() == 0 {
			if hdr, ok, e := c.ReadHeader(); e == 0 && ok && hdr.WAL {
				if c.WalOpen() == 0 {
					mode := []string{CkptPassive, CkptFull, CkptRestart, CkptTruncate}[t.Next(4)]
					_, e := c.WalCheckpoint(mode)
					r.Count("c10.app-checkpoint")
					cs.mu.Lock()
					cs.ckpts++
					cs.mu.Unlock()
					_ = e
				}
			}
			c.UnlockAll()
		}
		c.Close()
	}
}

func c10Exporter(cs *clusterSim, n *Node, name string, t *Tape, stall *c10stall) {
	r := cs.r
	stall.gid = goid()
	for {
		cs.mu.Lock()
		stop := cs.stopWork || cs.commits >= cs.wantTx
		c0, k0 := cs.commits, cs.ckpts
		cs.mu.Unlock()
		if stop || r.Failed() {
			return
		}
		if t.Chance(1, 2) {
			time.Sleep(time.Duration(t.Range(1, 200)) * time.Millisecond)
		}
		store := n.Store
		if store == nil || !n.Up || n.Exited {
			time.Sleep(20 * time.Millisecond)
			continue
		}
		db := store.DB(name)
		if db == nil || db.Pos().TXID == 0 {
			time.Sleep(20 * time.Millisecond)
			continue
		}
		kind := []string{"export", "snapshot", "http-export"}[t.Next(3)]
		w := &yieldWriter{r: r, node: n.ID, slow: []int{1, 6, 30}[t.Next(3)], pause: []time.Duration{0, 0, 20 * time.Millisecond, 150 * time.Millisecond}[t.Next(4)]}
		// half of the exports are held up once, somewhere among their lock transitions
		stall.n, stall.at, stall.dur = 0, 0, 0
		if t.Chance(1, 2) {
			stall.at, stall.dur = t.Range(1, 10), time.Duration(t.Range(5, 400))*time.Millisecond
		}
		ctx, cancel := context.WithTimeout(context.Background(), 20*time.Second)
		var pos ltx.Pos
		var err error
		var got *Image
		switch kind {
		case "export":
			pos, err = db.Export(ctx, w)
		case "snapshot":
			var hdr ltx.Header
			var tr ltx.Trailer
			hdr, tr, err = db.WriteSnapshotTo(ctx, w)
			pos = ltx.Pos{TXID: hdr.MaxTXID, PostApplyChecksum: tr.PostApplyChecksum}
		default:
			res := n.HTTPTo(ctx, "GET", "/export?name="+name, w)
			if res.Code != 200 || res.Panicked {
				err = fmt.Errorf("status %d %s", res.Code, res.PanicMsg)
			}
		}
		cancel()
		if n.Store != store || n.Exited || n.OS.fenced.Load() {
			continue
		}
		if err != nil {
			r.Count("c10.export-error." + kind)
			continue
		}
		cs.mu.Lock()
		c1, k1 := cs.commits, cs.ckpts
		cs.mu.Unlock()
		if kind == "http-export" {
			// the endpoint does not report a position: the body must be the image
			// of one committed position, whichever
			b := w.buf.Bytes()
			ps := int(cs.pageSize)
			if len(b) == 0 || len(b)%ps != 0 {
				r.Failf("c10.export-size", "GET /export returned %d bytes (page size %d)", len(b), ps)
				return
			}
			got = &Image{PageSize: cs.pageSize}
			for o := 0; o+ps <= len(b); o += ps {
				got.Pages = append(got.Pages, b[o:o+ps])
			}
			if _, ok := cs.ims.FindEqual(name, got); !ok {
				r.Failf("c10.mixture", "GET /export returned %d pages that are not the image of any committed position (%d commits and %d checkpoints happened while it ran)", got.N(), c1-c0, k1-k0)
				return
			}
			r.Count("c10.checked")
			if c1 != c0 || k1 != k0 {
				r.Count("c10.checked.overlapped")
			}
			r.State("%v/%s/commits%d/ckpt%v", cs.wal, kind, minInt(c1-c0, 3), k1 != k0)
			continue
		}
		want, ok := cs.ims.Get(name, pos)
		if !ok {
			r.Failf("c10.unknown-pos", "%s reports position %s which nobody committed", kind, pos)
			return
		}
		if kind == "snapshot" {
			f, derr := DecodeLTX(bytes.NewReader(w.buf.Bytes()))
			if derr != nil {
				r.Failf("c10.snapshot-decode", "a snapshot that completed without an error does not decode: %v", derr)
				return
			}
			got = f.Apply(nil)
			if !r.Check(uint64(f.Trailer.PostApplyChecksum) == got.Checksum(), "c10.snapshot-checksum", "snapshot @%s: trailer checksum %s, from-scratch checksum of its pages %016x", pos, f.Trailer.PostApplyChecksum, got.Checksum()) {
				return
			}
		} else {
			b := w.buf.Bytes()
			ps := int(want.PageSize)
			if ps == 0 || len(b)%ps != 0 {
				r.Failf("c10.export-size", "%s @%s returned %d bytes (page size %d)", kind, pos, len(b), ps)
				return
			}
			got = &Image{PageSize: want.PageSize}
			for o := 0; o+ps <= len(b); o += ps {
				got.Pages = append(got.Pages, b[o:o+ps])
			}
		}
		if d := DiffImages(got, want); d != "" {
			r.Failf("c10.mixture", "%s reports position %s but its content is not the image committed there (%d commits and %d checkpoints happened while it ran, %d writes of the stream; from-scratch checksum of the content %016x, of the reference %016x): %s", kind, pos, c1-c0, k1-k0, w.n, got.Checksum(), want.Checksum(), d)
			return
		}
		r.Check(uint64(pos.PostApplyChecksum) == want.Checksum(), "c10.pos-checksum", "%s reports %s, the image's checksum is %016x", kind, pos, want.Checksum())
		r.Count("c10.checked")
		if c1 != c0 || k1 != k0 {
			r.Count("c10.checked.overlapped")
		}
		r.State("%v/%s/commits%d/ckpt%v", cs.wal, kind, minInt(c1-c0, 3), k1 != k0)
	}
}

func minInt(a, b int) int {
	if a < b {
		return a
	}
	return b
}

// c10ExportAcrossDrop: exports of a database that an application drops and
// creates again under the same name while they run. The exporter and the
// application are tasks of the seeded scheduler (every OS call, FUSE operation
// and lock transition is a scheduling point), so the unlink, the re-creation and
// the first commits of the new database can fall between any two steps of an
// export. Oracle: an export that completes without an error is, byte for byte,
// the image committed at the position it reports.
func c10ExportAcrossDrop(r *Run) {
	t := r.Tape
	n := newStaticPrimary(r, false, nil)
	if n == nil {
		return
	}
	h := &hist{r: r, n: n, name: "db"}
	h.pageSize = []uint32{512, 1024, 4096}[t.Next(3)]
	h.jmode = []string{ModeDelete, ModeTruncate, ModePersist}[t.Next(3)]
	h.maxPages = 8
	r.Cfg["scenario"], r.Cfg["page_size"], r.Cfg["jmode"] = "export-across-drop", h.pageSize, h.jmode
	if !h.openConns(1) {
		return
	}
	var mu sync.Mutex
	ims := map[ltx.Pos]*Image{}
	note := func() {
		if d := h.db(); d != nil && d.Pos().TXID > 0 && h.ref != nil {
			mu.Lock()
			ims[d.Pos()] = h.ref
			mu.Unlock()
		}
	}
	for i := 0; i < 4 && h.ref.N() < 3; i++ {
		h.commit(t)
		note()
	}
	if r.Failed() || h.ref.N() == 0 {
		return
	}
	db := h.db()
	s := r.NewSched()
	installLockSeam(r, n, db, nil)
	s.Stick = t.Range(20, 90)
	s.MaxTick = 2 * time.Millisecond
	var wg sync.WaitGroup
	// the application: commits, now and then drops the database and creates it again
	steps := t.Range(4, 12)
	wg.Add(1)
	s.Go("app", func() {
		defer wg.Done()
		for i := 0; i < steps && !s.stopping.Load() && !r.Failed(); i++ {
			s.Yield(0, "op", "app")
			if t.Chance(1, 3) && h.ref.N() > 0 {
				h.closeConns()
				if e := n.K.Unlink(h.name); e != 0 {
					r.Count("c10.drop.refused")
					if !h.openConns(1) {
						return
					}
					continue
				}
				r.Count("c10.drop")
				h.ref, h.wal = nil, false
				if !h.openConns(1) {
					return
				}
				// the new database is not larger than the old one was
				saved := h.maxPages
				h.maxPages = 3
				h.commit(t)
				h.maxPages = saved
				note()
				continue
			}
			h.commit(t)
			note()
		}
	})
	exports := t.Range(3, 10)
	wg.Add(1)
	s.Go("exporter", func() {
		defer wg.Done()
		for i := 0; i < exports && !s.stopping.Load() && !r.Failed(); i++ {
			s.Yield(0, "op", "export")
			var buf bytes.Buffer
			ctx, cancel := context.WithTimeout(context.Background(), 5*time.Second)
			pos, err := db.Export(ctx, &buf)
			cancel()
			if err != nil {
				r.Count("c10.drop-export.error")
				continue
			}
			mu.Lock()
			want := ims[pos]
			mu.Unlock()
			if want == nil {
				// (the writer registers its image right after its commit; an export
				// can report that position a moment earlier)
				r.Count("c10.drop-export.unregistered")
				continue
			}
			if !bytes.Equal(buf.Bytes(), want.Bytes()) {
				got := &Image{PageSize: h.pageSize}
				b := buf.Bytes()
				for o := 0; o+int(h.pageSize) <= len(b); o += int(h.pageSize) {
					got.Pages = append(got.Pages, b[o:o+int(h.pageSize)])
				}
				r.Failf("c10.mixture", "DB.Export reports position %s (%d bytes) while the database is dropped and created again under it; what it returned is not the image committed at that position: %s", pos, buf.Len(), DiffImages(got, want))
				return
			}
			r.Count("c10.checked")
			r.Count("c10.drop-export.checked")
		}
	})
	done := make(chan struct{})
	go func() { wg.Wait(); close(done) }()
	finished := func() bool {
		select {
		case <-done:
			return true
		default:
			return false
		}
	}
	for st := 0; st < 12000 && !r.Failed(); st++ {
		s.Settle()
		if finished() {
			break
		}
		if !s.StepOnce(nil, true) {
			time.Sleep(time.Millisecond)
		}
	}
	s.Stop()
	for i := 0; i < 10000 && !finished(); i++ {
		time.Sleep(time.Millisecond)
		s.Settle()
	}
	if !r.Failed() && !finished() {
		r.Inconclusive("c10 export across drop: tasks did not finish")
		return
	}
	h.closeConns()
	r.State("drop/%s/%d", h.jmode, min(int(r.Stats["c10.drop"]), 3))
}
