package verifsim

import (
	"bytes"
	"context"
	"fmt"
	"io"
	"net/http"
	"runtime/debug"
	"strings"
	"sync"
)

// simResp is an http.ResponseWriter + Flusher that records what a handler
// wrote. Used for direct, in-process invocation of the real API handler.
type simResp struct {
	mu      sync.Mutex
	hdr     http.Header
	code    int
	wrote   bool
	body    bytes.Buffer
	flushes int
	onWrite func(p []byte) error // optional (streaming sink / fault hook)
	onFlush func()
}

func newSimResp() *simResp { return &simResp{hdr: http.Header{}} }

func (w *simResp) Header() http.Header { return w.hdr }

func (w *simResp) WriteHeader(code int) {
	w.mu.Lock()
	defer w.mu.Unlock()
	if !w.wrote {
		w.code, w.wrote = code, true
	}
}

func (w *simResp) Write(p []byte) (int, error) {
	w.mu.Lock()
	if !w.wrote {
		w.code, w.wrote = 200, true
	}
	sink := w.onWrite
	if sink == nil {
		w.body.Write(p)
	}
	w.mu.Unlock()
	if sink != nil {
		if err := sink(p); err != nil {
			return 0, err
		}
	}
	return len(p), nil
}

func (w *simResp) Flush() {
	w.mu.Lock()
	w.flushes++
	if !w.wrote {
		w.code, w.wrote = 200, true
	}
	f := w.onFlush
	w.mu.Unlock()
	if f != nil {
		f()
	}
}

// HTTPResult is the outcome of one API call.
type HTTPResult struct {
	Code     int
	Header   http.Header
	Body     []byte
	Panicked bool
	PanicMsg string
}

// HTTPTo is HTTP with the response body streamed into sink.
func (n *Node) HTTPTo(ctx context.Context, method, target string, sink io.Writer) (res HTTPResult) {
	req, err := http.NewRequestWithContext(ctx, method, "http://"+n.Name+":20202"+target, http.NoBody)
	if err != nil {
		return HTTPResult{Code: -1, PanicMsg: err.Error()}
	}
	req.RequestURI = target
	req.RemoteAddr = "sim:0"
	req.Proto, req.ProtoMajor, req.ProtoMinor = "HTTP/2.0", 2, 0
	w := newSimResp()
	w.onWrite = func(p []byte) error { _, err := sink.Write(p); return err }
	func() {
		defer func() {
			if rec := recover(); rec != nil {
				if _, ok := rec.(nodeExit); ok {
					return
				}
				res.Panicked = true
				res.PanicMsg = fmt.Sprintf("%v", rec)
			}
		}()
		n.Handler.ServeHTTP(w, req)
	}()
	w.mu.Lock()
	res.Code, res.Header = w.code, w.hdr
	if !w.wrote && !res.Panicked {
		res.Code = 200
	}
	w.mu.Unlock()
	return res
}

// HTTP invokes the node's real API handler in-process (h2c prior-knowledge
// shape: ProtoMajor 2 unless http1 is set). A handler panic is what net/http
// would turn into a dropped connection without a response.
func (n *Node) HTTP(ctx context.Context, method, target string, hdr map[string]string, body io.Reader, http1 bool) (res HTTPResult) {
	if body == nil {
		body = http.NoBody
	}
	req, err := http.NewRequestWithContext(ctx, method, "http://"+n.Name+":20202"+target, body)
	if err != nil {
		return HTTPResult{Code: -1, PanicMsg: err.Error()}
	}
	req.RequestURI = target
	req.RemoteAddr = "sim:0"
	if http1 {
		req.Proto, req.ProtoMajor, req.ProtoMinor = "HTTP/1.1", 1, 1
	} else {
		req.Proto, req.ProtoMajor, req.ProtoMinor = "HTTP/2.0", 2, 0
	}
	for k, v := range hdr {
		req.Header.Set(k, v)
	}
	w := newSimResp()
	func() {
		defer func() {
			if rec := recover(); rec != nil {
				if _, ok := rec.(nodeExit); ok {
					res.Panicked = false
					return
				}
				res.Panicked = true
				st := string(debug.Stack())
				if len(st) > 2500 {
					st = st[:2500]
				}
				res.PanicMsg = fmt.Sprintf("%v\n%s", rec, st)
			}
		}()
		n.Handler.ServeHTTP(w, req)
	}()
	w.mu.Lock()
	res.Code, res.Header, res.Body = w.code, w.hdr, append([]byte(nil), w.body.Bytes()...)
	if !w.wrote && !res.Panicked {
		res.Code = 200 // net/http sends 200 when the handler returns without writing
	}
	w.mu.Unlock()
	return res
}

// MakeImage builds a valid SQLite database image with attributable pages.
func MakeImage(pageSize uint32, n uint32, wal bool, tag int) *Image {
	im := &Image{PageSize: pageSize}
	hdr := DBHeader{WAL: wal, ChangeCounter: uint32(7 + tag), SizePages: n, SchemaCookie: uint32(3 + tag)}
	lock := LockPgno(pageSize)
	for pg := uint32(1); pg <= n; pg++ {
		if pg == lock {
			im.Pages = append(im.Pages, make([]byte, pageSize))
			continue
		}
		im.Pages = append(im.Pages, MakePage(pageSize, 900+tag, tag, pg, 0xabc, &hdr))
	}
	return im
}

// Bytes serialises the image as a database file.
func (im *Image) Bytes() []byte {
	var b bytes.Buffer
	for _, p := range im.Pages {
		b.Write(p)
	}
	return b.Bytes()
}

// ImportedForm returns the image as LiteFS stores an import: the file change
// counter (24..27) and schema cookie (40..43) of page 1 are reset.
func (im *Image) ImportedForm() *Image {
	out := im.Clone()
	if out.N() > 0 {
		for _, i := range []int{24, 25, 26, 27, 40, 41, 42, 43} {
			out.Pages[0][i] = 0
		}
	}
	return out
}

func isHTTPErrorBody(b []byte) bool { return strings.TrimSpace(string(b)) != "" }
