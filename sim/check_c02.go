package verifsim

import (
	"syscall"
	"fmt"
	"path/filepath"
	"time"

	"github.com/superfly/litefs"
	"github.com/superfly/ltx"
)

// shared helpers for single-node (H1) checks ---------------------------------

var pageSizes = []uint32{512, 1024, 2048, 4096, 8192, 16384, 32768, 65536}

// pickPageSize favours small pages (cheap large page counts) but covers all.
func pickPageSize(t *Tape) uint32 {
	return pageSizes[t.Pick([]int{40, 14, 8, 14, 6, 6, 6, 6})]
}

// pickSectorSize draws the journal sector size the simulated VFS reports: SQLite
// takes it from xSectorSize (512 or 4096 on unix builds) but accepts any power of
// two from 32 to 65536 and writes it into each journal segment header.
func pickSectorSize(t *Tape) uint32 {
	return []uint32{512, 4096, 32, 64, 1024, 65536}[t.Pick([]int{10, 4, 2, 1, 1, 1})]
}

// newStaticPrimary opens a single primary node with the static leaser.
func newStaticPrimary(r *Run, compress bool, tune func(*litefs.Store)) *Node {
	var n *Node
	n = r.NewNode(NodeCfg{Candidate: true, Compress: compress, Tune: tune})
	n.Cfg.Leaser = litefs.NewStaticLeaser(true, n.Name, n.URL())
	if err := n.Open(); err != nil {
		r.Inconclusive("open primary: %v", err)
		return nil
	}
	if !n.WaitPrimary(5 * time.Second) {
		r.Inconclusive("static primary did not become primary")
		return nil
	}
	return n
}

// drainTxEvents returns the tx events received so far for a database.
func drainTxEvents(sub *litefs.EventSubscriber, db string) (out []litefs.TxEventData) {
	for {
		select {
		case ev, ok := <-sub.C():
			if !ok {
				return out
			}
			if ev.Type == litefs.EventTypeTx && ev.DB == db {
				if d, ok := ev.Data.(litefs.TxEventData); ok {
					out = append(out, d)
				}
			}
		default:
			return out
		}
	}
}

// checkLTXForCommit is the C02/C03 oracle on the newest transaction file.
// prev/prevIm is the position and image before; want is what SQLite now sees.
func checkLTXForCommit(r *Run, n *Node, db string, prev, now ltx.Pos, prevIm, want *Image, oracle string) *LTXFile {
	dbDir := n.Store.DBPath(db)
	path := filepath.Join(dbDir, "ltx", ltx.FormatFilename(now.TXID, now.TXID))
	f, err := ReadLTXFile(path)
	if !r.Check(err == nil, oracle+".ltx-verify", "new transaction file does not verify: %v", err) {
		return nil
	}
	h := f.Header
	r.Check(h.MinTXID == prev.TXID+1 && h.MaxTXID == prev.TXID+1, oracle+".txid", "file covers %s-%s, previous position %s", h.MinTXID, h.MaxTXID, prev.TXID)
	r.Check(h.PreApplyChecksum == prev.PostApplyChecksum, oracle+".pre-checksum", "pre-apply checksum %s, previous position checksum %s", h.PreApplyChecksum, prev.PostApplyChecksum)
	r.Check(h.Commit == want.N(), oracle+".commit-size", "file commit size %d pages, SQLite sees %d", h.Commit, want.N())
	lock := LockPgno(h.PageSize)
	var last uint32
	for _, pg := range f.Pgnos {
		r.Check(pg > last, oracle+".page-order", "pages not strictly ascending: %d after %d", pg, last)
		r.Check(pg <= h.Commit, oracle+".page-beyond-size", "page %d beyond commit size %d", pg, h.Commit)
		r.Check(pg != lock, oracle+".lock-page", "lock page %d present in transaction file", pg)
		last = pg
	}
	got := f.Apply(prevIm)
	if d := DiffImages(got, want); d != "" {
		r.Failf(oracle+".image", "applying %s to the image at %s does not give SQLite's image: %s", f.Name, prev, d)
	}
	r.Check(uint64(f.Trailer.PostApplyChecksum) == want.Checksum(), oracle+".post-checksum", "post-apply checksum %s, from-scratch checksum of SQLite's image %016x", f.Trailer.PostApplyChecksum, want.Checksum())
	r.Check(f.Trailer.PostApplyChecksum == now.PostApplyChecksum, oracle+".pos-checksum", "file post-apply checksum %s but reported position %s", f.Trailer.PostApplyChecksum, now)
	return f
}

// checkNodeHealthy fails on handler panics or a LiteFS-initiated exit.
func checkNodeHealthy(r *Run, n *Node, oracle string) {
	n.K.mu.Lock()
	np := len(n.K.Panics)
	var first string
	if np > 0 {
		first = n.K.Panics[0]
		if len(first) > 1500 {
			first = first[:1500]
		}
	}
	n.K.mu.Unlock()
	r.Check(np == 0, oracle+".panic", "a file-system handler panicked: %s", first)
	r.Check(!n.Exited, oracle+".exit", "LiteFS called Exit(%d) on a fault-free run", n.ExitCode)
}

// ---------------------------------------------------------------------------

func init() {
	register(&CheckDef{
		ID:    "C02",
		Level: "exploration",
		Rule:  "seeded generation of SQLite rollback-journal pager programs (modify/append/free page sets, cache spills = multi-segment journals, synced/unsynced counts, commit, rollback before/after spill, lock-without-write, first transaction on an empty file, shrink with truncate after finalisation) x journal mode (DELETE/TRUNCATE/PERSIST) x page size x LZ4, driven through the real litefs/fuse handlers by a simulated kernel; the last program of a third of the runs meets one disk error (EIO/ENOSPC at a seeded LiteFS system call): if SQLite is told the commit failed and rolls back, the position, the image read through the mount and the capture of the next transaction must be those of the old position; a case is one executed program; distinct = distinct (mode, pagesize, outcome, grow/shrink/same, spill count, sync mode, crosses-256-block) tuple; non-trivial = run in which at least one commit advanced the position and was checked against the reference image",
		Run:   runC02,
		NonTrivial: func(r *Run) bool {
			return r.Stats["c02.commit.checked"] > 0
		},
		Assumptions: []string{
			"PagerSim reproduces SQLite's file-operation protocol (validated against strace of sqlite3 3.51.2, DESIGN §4.2); real SQLite on a FUSE mount is not available in the sandbox",
			"the ltx library's decoder is trusted to decode transaction files; the checksum oracle is stdlib crc64 over raw bytes",
		},
		Real: []string{"litefs.Store", "litefs.DB (CommitJournal, WriteDatabaseAt, WriteJournalAt, TruncateDatabase, locks)", "litefs/fuse nodes and handles", "superfly/ltx encoder/decoder", "tmpfs files"},
		Stub: []string{"SimKernel (VFS dispatch + page cache)", "PagerSim (SQLite pager)"},
	})
}

func runC02(r *Run) {
	t := r.Tape
	pageSize := pickPageSize(t)
	r.SectorSize = pickSectorSize(t)
	r.Cfg["sector_size"] = r.SectorSize
	mode := []string{ModeDelete, ModeTruncate, ModePersist}[t.Next(3)]
	compress := t.Chance(1, 2)
	keepJFD := t.Chance(1, 2)
	nprog := t.Range(3, 25)
	if r.Thorough() {
		nprog = t.Range(5, 40)
	}
	maxPages := uint32(60)
	if pageSize <= 1024 {
		maxPages = 700
	}
	bigStart := maxPages >= 700 && t.Chance(1, 3) // start beyond the first checksum block
	r.Cfg["big_start"] = bigStart
	lockPageRun := r.Thorough() && pageSize == 65536 && t.Chance(1, 30)
	faultLast := t.Chance(1, 3)
	r.Cfg["disk_error_in_last_program"] = faultLast
	r.Cfg["page_size"], r.Cfg["mode"], r.Cfg["lz4"], r.Cfg["keep_jfd"], r.Cfg["programs"] = pageSize, mode, compress, keepJFD, nprog
	r.Cfg["lock_page_run"] = lockPageRun
	if lockPageRun {
		r.UseDiskScratch() // a 1 GiB database and a 1 GiB transaction file
	}

	n := newStaticPrimary(r, compress, nil)
	if n == nil {
		return
	}
	const dbName = "db"
	c := n.NewConn(dbName, mode, pageSize)
	c.KeepJFD = keepJFD
	if e := c.Open(); e != 0 {
		r.Failf("c02.open", "creating the database through the mount failed: %v", e)
		return
	}
	rd := n.NewConn(dbName, mode, pageSize)
	if e := rd.Open(); e != 0 {
		r.Failf("c02.open", "opening the database through the mount failed: %v", e)
		return
	}
	db := n.Store.DB(dbName)
	if db == nil {
		r.Failf("c02.open", "database not registered after create")
		return
	}
	sub := n.Store.SubscribeEvents()
	defer sub.Stop()

	var ref *Image
	var progs []string
	walExcursionAt := -1
	if !lockPageRun && t.Chance(1, 4) {
		walExcursionAt = t.Range(1, nprog-1)
	}
	r.Cfg["wal_excursion_at"] = walExcursionAt
	for i := 0; i < nprog && !r.Failed(); i++ {
		r.Step()
		cur := ref.N()
		prog := GenProgram(t, cur, maxPages, LockPgno(pageSize))
		if i == 0 && bigStart {
			prog.NewSize, prog.Outcome = BigSize(t, maxPages), OutCommit
		}
		if lockPageRun && i == 1 {
			prog.NewSize = LockPgno(pageSize) + uint32(t.Range(0, 2))
			prog.Outcome = OutCommit
		}
		if i == walExcursionAt && cur > 0 {
			// An excursion into WAL mode and back: the transaction that leaves
			// WAL mode again is a rollback-journal transaction (OP_JournalMode
			// closes the log, then sqlite3BtreeSetVersion(1) under a journal)
			// and is the program checked in this step.
			p, ok := c02WalExcursion(r, c, t, ref, maxPages)
			if !ok {
				break
			}
			ref, cur = p, p.N()
			c.Mode = mode
			prog = TxProgram{NewSize: cur, Outcome: OutCommit, SetWAL: 2}
			drainTxEvents(sub, dbName)
			r.Count("c02.wal-excursion")
		}
		prev := db.Pos()
		// In some runs the last program meets one disk error (EIO / ENOSPC at a
		// seeded system call of LiteFS): SQLite either never notices, or gets an
		// error and rolls the transaction back - which must leave the image of
		// the position LiteFS reports.
		// (not on the transaction that creates the database: LiteFS knows no page
		// size yet and the rollback of that one is outside the statement, as above)
		faulty := faultLast && i == nprog-1 && !lockPageRun && cur > 0
		if faulty {
			prog.Outcome = OutCommit
			n.OS.FailNth = int64(t.Range(1, 16))
			n.OS.FailErr = []error{syscall.EIO, syscall.ENOSPC}[t.Next(2)]
		}
		res := c.WriteTx(prog, ref)
		if faulty {
			n.OS.FailNth = 0
		}
		now := db.Pos()
		desc := fmt.Sprintf("%s size %d->%d mod=%d spill=%d nosync=%v => %s", prog.Outcome, cur, prog.NewSize, len(prog.Modify), len(prog.SpillAt), prog.NoSync, res.Outcome)
		if faulty && n.OS.FiredAt != "" && res.Outcome == "error" && res.After != nil {
			// the error reached SQLite after the commit point (sync of the
			// finalised journal, cut of the file): the transaction stands
			r.Count("c02.disk-error.after-commit-point")
			if !r.Check(!n.Exited, "c02.disk-error", "a disk error at %s stopped the node (Exit %d)", n.OS.FiredAt, n.ExitCode) {
				break
			}
			if r.Check(now.TXID == prev.TXID+1, "c02.disk-error", "a commit whose journal was finalised before the disk error at %s reached SQLite (%s) moved the position %s -> %s", n.OS.FiredAt, res.FailedAt, prev, now) {
				r.Check(uint64(now.PostApplyChecksum) == res.After.Checksum(), "c02.pos-vs-image", "position checksum %s, from-scratch checksum of SQLite's image %016x", now.PostApplyChecksum, res.After.Checksum())
			}
			break
		}
		if faulty && n.OS.FiredAt != "" && res.Outcome == "error" {
			r.Count("c02.disk-error.rolled-back")
			r.Logf("prog %d: %s, disk error at %s, SQLite got %v at %s; pos %s -> %s", i, desc, n.OS.FiredAt, res.Errno, res.FailedAt, prev, now)
			if !r.Check(!n.Exited, "c02.disk-error", "a disk error at %s stopped the node (Exit %d)", n.OS.FiredAt, n.ExitCode) {
				break
			}
			if !r.Check(now.PostApplyChecksum == prev.PostApplyChecksum && now.TXID <= prev.TXID+1, "c02.disk-error", "SQLite was told that its commit failed (%v at %s, disk error at %s) and rolled back; the position went %s -> %s", res.Errno, res.FailedAt, n.OS.FiredAt, prev, now) {
				break
			}
			prev = now
			// what the next connection sees (it rolls a hot journal back first, if
			// the failed connection could not do so itself)
			got, e := rd.ReadTxRecover()
			now = db.Pos()
			if !r.Check(now.PostApplyChecksum == prev.PostApplyChecksum && now.TXID <= prev.TXID+1, "c02.disk-error", "the rollback of the hot journal left by the failed commit moved the position %s -> %s", prev, now) {
				break
			}
			prev = now
			if r.Check(e == 0, "c02.disk-error", "after a commit that failed with a disk error at %s and was rolled back, reading the database fails: %v", n.OS.FiredAt, e) {
				if d := DiffImages(got, ref); d != "" {
					r.Failf("c02.disk-error", "after a commit that failed with a disk error at %s and was rolled back, the image read through the mount is not the image of position %s: %s", n.OS.FiredAt, now, d)
					break
				}
			}
			// ... and the next transaction is captured as usual
			next := GenProgram(t, ref.N(), maxPages, LockPgno(pageSize))
			next.Outcome = OutCommit
			res2 := c.WriteTx(next, ref)
			now2 := db.Pos()
			if !r.Check(res2.Outcome == OutCommit, "c02.disk-error", "the transaction after a failed, rolled-back commit (disk error at %s) is refused at %s: %v", n.OS.FiredAt, res2.FailedAt, res2.Errno) {
				break
			}
			if r.Check(now2.TXID == prev.TXID+1, "c02.disk-error", "the transaction after a failed, rolled-back commit moved the position %s -> %s", prev, now2) {
				checkLTXForCommit(r, n, dbName, prev, now2, ref, res2.After, "c02")
				r.Check(uint64(now2.PostApplyChecksum) == res2.After.Checksum(), "c02.pos-vs-image", "position checksum %s, from-scratch checksum of SQLite's image %016x", now2.PostApplyChecksum, res2.After.Checksum())
			}
			break
		}
		progs = append(progs, desc)
		r.Logf("prog %d: %s pos %s -> %s", i, desc, prev, now)
		shape := "same"
		if prog.NewSize > cur {
			shape = "grow"
		} else if prog.NewSize < cur {
			shape = "shrink"
		}
		cross := (cur-1)/256 != (prog.NewSize-1)/256 && cur > 0
		r.State("%s/%d/%s/%s/spill%d/nosync%v/cross%v", mode, pageSize, res.Outcome, shape, len(prog.SpillAt), prog.NoSync, cross)

		if res.Outcome == "error" || res.Outcome == "busy" {
			if prog.Outcome == OutCommit {
				r.Failf("c02.commit-refused", "a legal commit was refused at %s: errno %d (%v)", res.FailedAt, int(res.Errno), res.Errno)
				break
			}
			// A refused rollback / lock-only transaction is outside the
			// property's statement (nothing was committed); it is counted, the
			// "unchanged" part is still checked, and the run ends because
			// SQLite's error recovery is not modelled.
			r.Count("c02.refused." + prog.Outcome + "." + res.FailedAt)
			r.Check(now.PostApplyChecksum == prev.PostApplyChecksum && now.TXID <= prev.TXID+1, "c02.rollback-checksum", "position changed from %s to %s on a refused %s", prev, now, prog.Outcome)
			break
		}
		checkNodeHealthy(r, n, "c02")

		// position advances by at most one
		if !r.Check(now.TXID == prev.TXID || now.TXID == prev.TXID+1, "c02.txid-step", "position went from %s to %s", prev, now) {
			break
		}
		want := ref
		if res.Outcome == OutCommit {
			want = res.After
		}
		evs := drainTxEvents(sub, dbName)
		if now.TXID == prev.TXID+1 {
			checkLTXForCommit(r, n, dbName, prev, now, ref, want, "c02")
			if r.Check(len(evs) == 1, "c02.event", "%d tx events for one transaction", len(evs)) {
				r.Check(evs[0].TXID == now.TXID && evs[0].PostApplyChecksum == now.PostApplyChecksum, "c02.event", "tx event carries %s/%s, position is %s", evs[0].TXID, evs[0].PostApplyChecksum, now)
			}
			if res.Outcome == OutCommit {
				r.Count("c02.commit.checked")
			} else {
				r.Count("c02.noop-txid")
			}
		} else {
			r.Check(len(evs) == 0, "c02.event", "tx event without position change")
			if res.Outcome == OutCommit {
				r.Failf("c02.lost-commit", "SQLite committed (size %d->%d) but the position stayed at %s", cur, prog.NewSize, now)
			}
		}
		if res.Outcome != OutCommit {
			// rollback / lock-only: image and checksum unchanged
			r.Check(now.PostApplyChecksum == prev.PostApplyChecksum || prev.TXID == 0, "c02.rollback-checksum", "checksum changed from %s to %s on %s", prev.PostApplyChecksum, now.PostApplyChecksum, res.Outcome)
			r.Count("c02.rollback.checked")
		}
		ref = want

		// between transactions the image SQLite sees is the image at the position
		if now.TXID > 0 {
			r.Check(uint64(now.PostApplyChecksum) == ref.Checksum(), "c02.pos-vs-image", "position checksum %s, from-scratch checksum of SQLite's image %016x", now.PostApplyChecksum, ref.Checksum())
		}
		if !(lockPageRun && ref.N() > 2000) || i == nprog-1 {
			got, e := rd.ReadTx()
			if r.Check(e == 0, "c02.readback", "reading the database back failed: %v", e) {
				if d := DiffImages(got, ref); d != "" {
					r.Failf("c02.readback", "image read through the mount differs from SQLite's image: %s", d)
				}
			}
			disk, err := ReadDiskImage(n.Store.DBPath(dbName))
			if r.Check(err == nil, "c02.disk", "reading raw files: %v", err) {
				if d := DiffImages(disk, ref); d != "" {
					r.Failf("c02.disk", "raw database file differs from SQLite's image: %s", d)
				}
			}
		}
		if msg := CheckChain(n.Store.DBPath(dbName), now); msg != "" {
			r.Failf("c02.chain", "transaction log: %s", msg)
		}
	}
	c.Close()
	rd.Close()
	r.Sample = map[string]any{"programs": progs}
}

// c02WalExcursion switches the database to WAL mode, commits a few WAL
// transactions and closes the log as the last connection (checkpoint, unlink
// -wal and -shm). It returns SQLite's image afterwards; the header still says
// WAL, the caller commits the journal transaction that changes it back.
func c02WalExcursion(r *Run, c *Conn, t *Tape, ref *Image, maxPages uint32) (*Image, bool) {
	res := c.WriteTx(TxProgram{NewSize: ref.N(), Outcome: OutCommit, SetWAL: 1}, ref)
	if res.Outcome != OutCommit {
		r.Failf("c02.commit-refused", "switch to WAL refused at %s: %v", res.FailedAt, res.Errno)
		return nil, false
	}
	ref = res.After
	if e := c.WalOpen(); e != 0 {
		r.Failf("c02.commit-refused", "opening the WAL failed: %v", e)
		return nil, false
	}
	for k := t.Range(0, 3); k > 0; k-- {
		prog := GenWalProgram(t, ref.N(), maxPages)
		res := c.WalWriteTx(prog, ref)
		if res.Outcome == OutCommit {
			ref = res.After
		} else if res.Outcome == "error" || res.Outcome == "busy" {
			r.Failf("c02.commit-refused", "WAL transaction refused at %s: %v", res.FailedAt, res.Errno)
			return nil, false
		}
	}
	at, e := c.WalCloseLast(ref)
	if e != 0 || at != "" {
		r.Failf("c02.commit-refused", "closing the WAL as the last connection failed at %q: %v", at, e)
		return nil, false
	}
	if e := c.UnlockAll(); e != 0 {
		r.Failf("c02.commit-refused", "unlock after closing the WAL: %v", e)
		return nil, false
	}
	return ref, true
}
