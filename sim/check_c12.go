package verifsim

import (
	"context"
	"fmt"
	"strings"
	"sync"
	"time"

	"github.com/anishathalye/porcupine"
	"github.com/superfly/litefs"
)

// C12 - each advisory lock obeys reader/writer semantics with upgrade and
// downgrade. Specification (POSIX byte-range rules between distinct owners):
// per owner state in {U,S,X}; try-exclusive by g succeeds iff no OTHER owner
// holds S or X; try-shared by g succeeds iff no OTHER owner holds X; a failed
// attempt changes nothing; unlock always succeeds and is a no-op when unheld.

type lockSpec struct{ g []byte } // 'U','S','X' per guard

func (s lockSpec) clone() lockSpec { return lockSpec{append([]byte(nil), s.g...)} }
func (s lockSpec) key() string     { return string(s.g) }

func (s lockSpec) canX(i int) bool {
	for j, v := range s.g {
		if j != i && v != 'U' {
			return false
		}
	}
	return true
}

func (s lockSpec) canS(i int) bool {
	for j, v := range s.g {
		if j != i && v == 'X' {
			return false
		}
	}
	return true
}

func (s lockSpec) mutexState() litefs.RWMutexState {
	st := litefs.RWMutexStateUnlocked
	for _, v := range s.g {
		if v == 'X' {
			return litefs.RWMutexStateExclusive
		}
		if v == 'S' {
			st = litefs.RWMutexStateShared
		}
	}
	return st
}

func guardStateByte(s litefs.RWMutexState) byte {
	switch s {
	case litefs.RWMutexStateShared:
		return 'S'
	case litefs.RWMutexStateExclusive:
		return 'X'
	}
	return 'U'
}

// reachable closure of the specification for n guards.
func specReachable(n int) map[string]bool {
	start := lockSpec{[]byte(strings.Repeat("U", n))}
	seen := map[string]bool{start.key(): true}
	q := []lockSpec{start}
	for len(q) > 0 {
		s := q[0]
		q = q[1:]
		for i := 0; i < n; i++ {
			var next []lockSpec
			if s.canX(i) {
				t := s.clone()
				t.g[i] = 'X'
				next = append(next, t)
			}
			if s.canS(i) {
				t := s.clone()
				t.g[i] = 'S'
				next = append(next, t)
			}
			t := s.clone()
			t.g[i] = 'U'
			next = append(next, t)
			for _, t := range next {
				if !seen[t.key()] {
					seen[t.key()] = true
					q = append(q, t)
				}
			}
		}
	}
	return seen
}

func init() {
	register(&CheckDef{
		ID:    "C12",
		Level: "exploration",
		Rule:  "part 1: seeded walks of TryLock/TryRLock/CanLock/CanRLock/Unlock/State by 2-4 guards on one real litefs.RWMutex, each result and the resulting guard/mutex states compared with the three-line POSIX specification and the OnLockStateChange callback checked against the specification's transitions; a case is one (abstract guard vector, guard, operation) triple and the evidence reports reached/reachable pairs of the specification's closure. part 2: goroutines in a synctest bubble issue the same operations plus blocking Lock/RLock under a seeded cooperative scheduler; the invoke/return history stamped with driver event numbers is checked with porcupine against the sequential model, and blocking calls must return within one poll interval (fake clock) of the lock becoming free or their context ending; part 3: the same operations at the database's per-owner interface (DB.TryLocks/TryRLocks/CanLock/CanRLock/Unlock on two read-mark locks of a real database, requests naming one of them or both, all or nothing) by 2-4 owners with one or two goroutines each (threads of one process share the lock owner, also on its first contact with the database), on a binary in which every acquisition of a sync mutex inside LiteFS is a scheduling point (tools/yieldinst); the history is checked with porcupine against the same specification per owner and at the end the lock must be free; non-trivial = a run with at least one contended operation",
		Run:   runC12,
		NonTrivial: func(r *Run) bool {
			return r.Stats["c12.contended"] > 0
		},
		Assumptions: []string{"porcupine Unknown (timeout) is reported as harness trouble, never as a violation"},
		Real:        []string{"litefs.RWMutex / RWMutexGuard", "DB guard sets: CreateGuardSetIfNotExists, TryLocks, TryRLocks, CanLock, CanRLock, Unlock (part 3, mutex-instrumented copy of the same source)"},
		Stub:        []string{"none (the scheduler and fake clock are the environment)"},
	})
}

type c12Op struct {
	G  int
	Op string // lock rlock unlock canlock canrlock state block-lock block-rlock
	L  int    // part 3: which of the two locks (0, 1) or both (2)
}
type c12Out struct {
	OK    bool
	State byte // guard state after (for "state") or mutex state for canlock
}

func runC12(r *Run) {
	t := r.Tape
	nG := t.Range(2, 4)
	r.Cfg["guards"] = nG
	switch t.Pick([]int{5, 4, 3}) {
	case 0:
		r.Cfg["part"] = "sequential"
		c12Sequential(r, nG)
	case 1:
		r.Cfg["part"] = "concurrent"
		c12Concurrent(r, nG)
	default:
		r.Cfg["part"] = "owners"
		c12Owners(r, nG)
	}
}

// c12Model2 is the specification for two locks and requests that name one of
// them or both (all or nothing): the state is one U/S/X per (lock, owner).
func c12Model2(nG int, relaxed bool) porcupine.Model {
	locksOf := func(l int) []int {
		switch l {
		case 2:
			return []int{0, 1}
		case 3:
			return []int{2}
		}
		return []int{l}
	}
	return porcupine.Model{
		Init: func() interface{} { return strings.Repeat("U", 3*nG) },
		Step: func(state, input, output interface{}) (bool, interface{}) {
			st := []byte(state.(string))
			in := input.(c12Op)
			out := output.(c12Out)
			spec := func(l int) lockSpec { return lockSpec{st[l*nG : (l+1)*nG]} }
			switch in.Op {
			case "lock", "rlock":
				can := true
				for _, l := range locksOf(in.L) {
					if in.Op == "lock" && !spec(l).canX(in.G) || in.Op == "rlock" && !spec(l).canS(in.G) {
						can = false
					}
				}
				if out.OK != can && !(relaxed && !out.OK) {
					return false, state
				}
				if out.OK {
					for _, l := range locksOf(in.L) {
						if in.Op == "lock" {
							st[l*nG+in.G] = 'X'
						} else {
							st[l*nG+in.G] = 'S'
						}
					}
				}
				return true, string(st)
			case "unlock":
				for _, l := range locksOf(in.L) {
					st[l*nG+in.G] = 'U'
				}
				return true, string(st)
			case "canlock", "canrlock":
				can := true
				for _, l := range locksOf(in.L) {
					if in.Op == "canlock" && !spec(l).canX(in.G) || in.Op == "canrlock" && !spec(l).canS(in.G) {
						can = false
					}
				}
				return out.OK == can || (relaxed && !out.OK), state
			}
			return false, state
		},
		DescribeOperation: func(input, output interface{}) string {
			return fmt.Sprintf("%+v -> %+v", input, output)
		},
	}
}

// c12Owners (part 3): the same specification one level up, at the database's
// per-owner lock interface (DB.TryLocks / TryRLocks / CanLock / CanRLock /
// Unlock by lock owner), which is what a FUSE lock request reaches. An owner is
// a process: several goroutines (threads, or an acquire racing a query) may act
// for one owner, also on the owner's very first contact with the database. When
// the binary was built with mutex scheduling points (bin/build mutex) the
// scheduler interleaves the goroutines at every mutex acquisition inside LiteFS.
func c12Owners(r *Run, nOwners int) {
	t := r.Tape
	n := newStaticPrimary(r, false, nil)
	if n == nil {
		return
	}
	const dbName = "db"
	c := n.NewConn(dbName, ModeDelete, 4096)
	if e := c.Open(); e != 0 {
		r.Inconclusive("create: %v", e)
		return
	}
	if res := c.WriteTx(TxProgram{NewSize: 2, Outcome: OutCommit}, nil); res.Outcome != OutCommit {
		r.Inconclusive("create: %s", res.Outcome)
		return
	}
	c.Close()
	db := n.Store.DB(dbName)
	if db == nil {
		r.Inconclusive("no database")
		return
	}
	// read-mark locks: taking and releasing them has no side effect in LiteFS.
	// A request names one of two locks or both (SQLite asks for byte ranges);
	// a request for both that is refused half-way has to give back what it took.
	// One owner is one process: SQLite serialises a process's lock requests per
	// file (the inode's and the shm node's mutex), so an owner has at most one
	// thread working on the shm locks and one on the database file's lock.
	lockSets := [][]litefs.LockType{{litefs.LockTypeRead2}, {litefs.LockTypeRead3}, {litefs.LockTypeRead2, litefs.LockTypeRead3}, {litefs.LockTypePending}}
	lockType := append(append([]litefs.LockType{}, lockSets[2]...), litefs.LockTypePending)
	s := r.NewSched()
	s.Stick = t.Range(20, 80)
	s.MaxTick = 500 * time.Microsecond
	r.MutexSeam = MutexYieldBuilt && t.Chance(4, 5)
	r.Cfg["mutex_seam"] = r.MutexSeam
	// goroutines: one or two per owner
	type thread struct {
		owner int
		dbf   bool // works on the database file's lock (else on the shm locks)
		prog  []string
		which []int
	}
	var threads []*thread
	for o := 0; o < nOwners; o++ {
		threads = append(threads, &thread{owner: o})
		if t.Chance(1, 2) {
			threads = append(threads, &thread{owner: o, dbf: true})
		}
	}
	nops := t.Range(4, 24)
	for k := 0; k < nops; k++ {
		th := threads[t.Next(len(threads))]
		th.prog = append(th.prog, []string{"lock", "rlock", "unlock", "canlock", "canrlock"}[t.Pick([]int{25, 25, 25, 13, 12})])
		if th.dbf {
			th.which = append(th.which, 3)
		} else {
			w := t.Pick([]int{3, 3, 4})
			// SQLite's byte-range requests over several locks are exclusive
			// requests and unlocks (READ1-4, CKPT+RECOVER); shared requests and
			// queries (F_GETLK: the RESERVED byte only) name one lock. A query
			// over two locks looks at them one after the other and can answer
			// "free" although they never were at the same instant; the property
			// speaks of each lock, so such a query is not generated.
			if op := th.prog[len(th.prog)-1]; w == 2 && (op == "rlock" || op == "canrlock" || op == "canlock") {
				w = t.Next(2)
			}
			th.which = append(th.which, w)
		}
	}
	base := uint64(t.Range(1, 1000)) * 1000
	var mu sync.Mutex
	var ops []porcupine.Operation
	var seq int64
	stamp := func() int64 { mu.Lock(); seq++; v := seq; mu.Unlock(); return v }
	var wg sync.WaitGroup
	ctx := context.Background()
	for ti, th := range threads {
		ti, th := ti, th
		wg.Add(1)
		s.Go(fmt.Sprintf("o%dt%d", th.owner, ti), func() {
			defer wg.Done()
			owner := base + uint64(th.owner)
			for k, op := range th.prog {
				s.Yield(0, "op", op)
				if s.stopping.Load() {
					return
				}
				lockType := lockSets[th.which[k]]
				call := stamp()
				var out c12Out
				switch op {
				case "lock":
					ok, err := db.TryLocks(ctx, owner, lockType)
					out.OK = ok && err == nil
				case "rlock":
					out.OK = db.TryRLocks(ctx, owner, lockType)
				case "unlock":
					_ = db.Unlock(ctx, owner, lockType)
					out.OK = true
				case "canlock":
					out.OK, _ = db.CanLock(ctx, owner, lockType)
				case "canrlock":
					out.OK = db.CanRLock(ctx, owner, lockType)
				}
				ret := stamp()
				mu.Lock()
				ops = append(ops, porcupine.Operation{ClientId: ti, Input: c12Op{G: th.owner, Op: op, L: th.which[k]}, Call: call, Output: out, Return: ret})
				mu.Unlock()
			}
		})
	}
	allDone := make(chan struct{})
	go func() { wg.Wait(); close(allDone) }()
	finished := func() bool {
		select {
		case <-allDone:
			return true
		default:
			return false
		}
	}
	for steps := 0; steps < 6000 && !r.Failed(); steps++ {
		s.Settle()
		if finished() {
			break
		}
		if !s.StepOnce(nil, true) {
			time.Sleep(time.Millisecond)
		}
	}
	s.Stop()
	for i := 0; i < 1000 && !finished(); i++ {
		time.Sleep(time.Millisecond)
		s.Settle()
	}
	if !finished() {
		r.Inconclusive("c12: owner threads did not finish")
		return
	}
	mu.Lock()
	hist := append([]porcupine.Operation(nil), ops...)
	mu.Unlock()
	shared := 0
	for _, th := range threads {
		for _, o := range threads {
			if o != th && o.owner == th.owner && len(o.prog) > 0 && len(th.prog) > 0 {
				shared++
			}
		}
	}
	if shared > 0 {
		r.Count("c12.contended")
		r.Count("c12.owners.shared-owner")
	}
	switch porcupine.CheckOperationsTimeout(c12Model2(nOwners, false), hist, 20*time.Second) {
	case porcupine.Illegal:
		var lines []string
		for _, o := range hist {
			lines = append(lines, fmt.Sprintf("[%d,%d] thread %d %+v -> %+v", o.Call, o.Return, o.ClientId, o.Input, o.Output))
		}
		// Is the history explained by refusals alone? A request for several
		// locks takes them one after the other and gives back what it took when
		// a later one is refused; while it is in flight another owner can be
		// refused a lock that nobody ends up holding (a spurious BUSY, which
		// POSIX's atomic range request never produces). Every grant and every
		// state reported still has to be right.
		if porcupine.CheckOperationsTimeout(c12Model2(nOwners, true), hist, 20*time.Second) == porcupine.Ok {
			r.Failf("c12.owners-spurious-busy", "a lock request was refused although no other owner held the lock in any order of the concurrent requests: it met the locks a multi-lock request of another owner had taken and then gave back (history of %d requests by %d owners):\n%s", len(hist), nOwners, strings.Join(lines, "\n"))
			break
		}
		r.Failf("c12.owners-linearizable", "history of %d lock requests by %d owners (%d threads) on one database lock is not linearizable against the reader/writer specification per owner:\n%s", len(hist), nOwners, len(threads), strings.Join(lines, "\n"))
	case porcupine.Unknown:
		r.Inconclusive("porcupine timed out on %d operations", len(hist))
	}
	// at the end every owner releases: the lock must be free for a stranger
	for o := 0; o < nOwners; o++ {
		_ = db.Unlock(ctx, base+uint64(o), lockType)
	}
	ok, st := db.CanLock(ctx, base+999, lockType)
	r.Check(ok, "c12.owners-leak", "every owner released the lock, yet a new owner is told it is held (%v)", st)
	r.State("owners/%d/%d/%v", nOwners, len(threads), r.MutexSeam)
}

func c12Sequential(r *Run, nG int) {
	t := r.Tape
	var rw litefs.RWMutex
	spec := lockSpec{[]byte(strings.Repeat("U", nG))}
	type trans struct{ prev, next litefs.RWMutexState }
	var cb []trans
	rw.OnLockStateChange = func(p, n litefs.RWMutexState) { cb = append(cb, trans{p, n}) }
	guards := make([]litefs.RWMutexGuard, nG)
	for i := range guards {
		guards[i] = rw.Guard()
	}
	reach := specReachable(nG)
	nops := t.Range(10, 120)
	var sample []string
	for k := 0; k < nops && !r.Failed(); k++ {
		r.Step()
		i := t.Next(nG)
		op := []string{"lock", "rlock", "unlock", "canlock", "canrlock", "state"}[t.Pick([]int{30, 30, 25, 5, 5, 5})]
		before := spec.clone()
		prevM := spec.mutexState()
		cb = cb[:0]
		g := &guards[i]
		r.State("%s/%d/%s", before.key(), i, op)
		if len(sample) < 40 {
			sample = append(sample, fmt.Sprintf("%s g%d %s", before.key(), i, op))
		}
		switch op {
		case "lock":
			want := spec.canX(i)
			if want {
				spec.g[i] = 'X'
			} else {
				r.Count("c12.contended")
			}
			got := g.TryLock()
			r.Check(got == want, "c12.trylock", "state %s: TryLock by guard %d returned %v, POSIX rules say %v", before.key(), i, got, want)
		case "rlock":
			want := spec.canS(i)
			if want {
				spec.g[i] = 'S'
			} else {
				r.Count("c12.contended")
			}
			got := g.TryRLock()
			r.Check(got == want, "c12.tryrlock", "state %s: TryRLock by guard %d returned %v, POSIX rules say %v", before.key(), i, got, want)
		case "unlock":
			spec.g[i] = 'U'
			g.Unlock()
		case "canlock":
			got, ms := g.CanLock()
			r.Check(got == spec.canX(i), "c12.canlock", "state %s: CanLock by guard %d returned %v", before.key(), i, got)
			r.Check(ms == spec.mutexState(), "c12.canlock", "state %s: CanLock reported mutex state %v, want %v", before.key(), ms, spec.mutexState())
		case "canrlock":
			got := g.CanRLock()
			r.Check(got == spec.canS(i), "c12.canrlock", "state %s: CanRLock by guard %d returned %v", before.key(), i, got)
		case "state":
		}
		// every guard and the mutex must now be exactly where the spec is
		for j := range guards {
			if gs := guardStateByte(guards[j].State()); gs != spec.g[j] {
				r.Failf("c12.state", "after %s by guard %d in state %s: guard %d is %c, specification says %c", op, i, before.key(), j, gs, spec.g[j])
			}
		}
		r.Check(rw.State() == spec.mutexState(), "c12.state", "after %s by guard %d in state %s: mutex state %v, want %v", op, i, before.key(), rw.State(), spec.mutexState())
		r.Check(reach[spec.key()], "c12.state", "state %s is outside the specification's reachable set", spec.key())
		// callback: fired exactly when the mutex-level state changed
		nextM := spec.mutexState()
		if prevM != nextM {
			r.Check(len(cb) == 1 && cb[0].prev == prevM && cb[0].next == nextM, "c12.callback", "transition %v->%v reported as %v", prevM, nextM, cb)
		} else {
			r.Check(len(cb) == 0, "c12.callback", "callback fired without a state change: %v", cb)
		}
	}
	r.Sample = map[string]any{"walk": sample, "reachable_states": len(reach)}
}

// porcupine model over the guard vector
func c12Model(nG int) porcupine.Model {
	return porcupine.Model{
		Init: func() interface{} { return strings.Repeat("U", nG) },
		Step: func(state, input, output interface{}) (bool, interface{}) {
			s := lockSpec{[]byte(state.(string))}
			in := input.(c12Op)
			out := output.(c12Out)
			switch in.Op {
			case "lock", "block-lock":
				if !out.OK {
					if in.Op == "lock" && s.canX(in.G) {
						return false, state
					}
					return true, state
				}
				if !s.canX(in.G) {
					return false, state
				}
				s.g[in.G] = 'X'
				return true, s.key()
			case "rlock", "block-rlock":
				if !out.OK {
					if in.Op == "rlock" && s.canS(in.G) {
						return false, state
					}
					return true, state
				}
				if !s.canS(in.G) {
					return false, state
				}
				s.g[in.G] = 'S'
				return true, s.key()
			case "unlock":
				s.g[in.G] = 'U'
				return true, s.key()
			case "canlock":
				return out.OK == s.canX(in.G), state
			case "canrlock":
				return out.OK == s.canS(in.G), state
			case "state":
				return out.State == s.g[in.G], state
			}
			return false, state
		},
		DescribeOperation: func(input, output interface{}) string {
			return fmt.Sprintf("%+v -> %+v", input, output)
		},
	}
}

// c12LateCtx is a context whose Err() can turn non-nil before its Done()
// channel closes (what litefs.Store.PrimaryCtx returns behaves like that
// between the loss of the role and the helper goroutine's cancel).
type c12LateCtx struct {
	context.Context
	mu  sync.Mutex
	err error
}

func (c *c12LateCtx) Err() error {
	c.mu.Lock()
	defer c.mu.Unlock()
	if c.err != nil {
		return c.err
	}
	return c.Context.Err()
}
func (c *c12LateCtx) lose()      { c.mu.Lock(); c.err = litefs.ErrLeaseExpired; c.mu.Unlock() }
func (c *c12LateCtx) lost() bool { c.mu.Lock(); defer c.mu.Unlock(); return c.err != nil }

func c12Concurrent(r *Run, nG int) {
	t := r.Tape
	s := r.NewSched()
	s.Stick = t.Range(20, 80)
	s.MaxTick = 500 * time.Microsecond
	var rw litefs.RWMutex
	guards := make([]litefs.RWMutexGuard, nG)
	for i := range guards {
		guards[i] = rw.Guard()
	}
	var mu sync.Mutex
	var ops []porcupine.Operation
	var seq int64
	stamp := func() int64 { mu.Lock(); seq++; v := seq; mu.Unlock(); return v }

	type pending struct {
		g        int
		op       string
		invokeAt time.Duration
		cancel   context.CancelFunc
		late     *c12LateCtx
		done     bool
		doneAt   time.Duration
		ok       bool
	}
	var pend []*pending
	r.OnCleanup(func() {
		mu.Lock()
		for _, p := range pend {
			p.cancel()
		}
		mu.Unlock()
	})
	nops := t.Range(6, 30)
	// per-guard programs are drawn up front so that goroutines never touch the tape
	progs := make([][]string, nG)
	for k := 0; k < nops; k++ {
		g := t.Next(nG)
		op := []string{"lock", "rlock", "unlock", "canlock", "canrlock", "state", "block-lock", "block-rlock"}[t.Pick([]int{20, 20, 25, 4, 4, 4, 12, 11})]
		progs[g] = append(progs[g], op)
	}
	var wg sync.WaitGroup
	for gi := 0; gi < nG; gi++ {
		gi := gi
		wg.Add(1)
		s.Go(fmt.Sprintf("owner%d", gi), func() {
			defer wg.Done()
			g := &guards[gi]
			for _, op := range progs[gi] {
				s.Yield(0, "op", op)
				if s.stopping.Load() {
					return // the run is over: do not start (and possibly block in) another operation
				}
				call := stamp()
				var out c12Out
				switch op {
				case "lock":
					out.OK = g.TryLock()
				case "rlock":
					out.OK = g.TryRLock()
				case "unlock":
					g.Unlock()
					out.OK = true
				case "canlock":
					out.OK, _ = g.CanLock()
				case "canrlock":
					out.OK = g.CanRLock()
				case "state":
					out.State = guardStateByte(g.State())
				case "block-lock", "block-rlock":
					inner, cancel := context.WithCancel(context.Background())
					// the caller's context is of the kind LiteFS passes in itself
					// (Store.PrimaryCtx): its Err() turns non-nil the moment the role
					// is lost, its Done() channel closes a little later
					lc := &c12LateCtx{Context: inner}
					var ctx context.Context = lc
					p := &pending{g: gi, op: op, invokeAt: r.SimNow(), cancel: cancel, late: lc}
					mu.Lock()
					pend = append(pend, p)
					mu.Unlock()
					var err error
					if op == "block-lock" {
						err = g.Lock(ctx)
					} else {
						err = g.RLock(ctx)
					}
					cancel()
					out.OK = err == nil
					mu.Lock()
					p.done, p.doneAt, p.ok = true, r.SimNow(), err == nil
					mu.Unlock()
				}
				ret := stamp()
				mu.Lock()
				ops = append(ops, porcupine.Operation{ClientId: gi, Input: c12Op{G: gi, Op: op}, Call: call, Output: out, Return: ret})
				mu.Unlock()
			}
		})
	}
	allDone := make(chan struct{})
	go func() { wg.Wait(); close(allDone) }()

	finished := func() bool {
		select {
		case <-allDone:
			return true
		default:
			return false
		}
	}
	for steps := 0; steps < 4000 && !r.Failed(); steps++ {
		s.Settle()
		if finished() {
			break
		}
		var acts []Action
		mu.Lock()
		for _, p := range pend {
			if !p.done {
				p := p
				if !p.late.lost() {
					acts = append(acts, Action{Name: fmt.Sprintf("role-lost-g%d", p.g), Weight: 8, Do: func() {
						// Err() reports the loss from now on; Done() stays open: the call
						// keeps waiting, and whatever it returns has to agree with
						// whether it took the lock
						p.late.lose()
						r.Count("c12.role-lost-while-blocked")
					}})
				}
				acts = append(acts, Action{Name: fmt.Sprintf("cancel-g%d", p.g), Weight: 15, Do: func() {
					p.cancel()
					r.Count("c12.cancel")
					// the blocked call must return promptly (one poll interval of fake time)
					time.Sleep(200 * time.Microsecond)
					s.Settle()
					mu.Lock()
					d := p.done
					mu.Unlock()
					r.Check(d, "c12.block-ctx", "blocking %s by guard %d did not return within 200us of its context ending", p.op, p.g)
				}})
			}
		}
		blocked := 0
		for _, p := range pend {
			if !p.done {
				blocked++
			}
		}
		mu.Unlock()
		if blocked > 0 {
			r.Count("c12.contended")
		}
		if !s.StepOnce(acts, true) {
			// everything is blocked in Lock/RLock with nobody left to release
			mu.Lock()
			for _, p := range pend {
				if !p.done {
					p.cancel()
				}
			}
			mu.Unlock()
			time.Sleep(time.Millisecond)
		}
		// availability: a blocked caller whose lock is free must get it within
		// one poll interval. After the step, advance 200us and compare.
		mu.Lock()
		var waiting []*pending
		for _, p := range pend {
			if !p.done {
				waiting = append(waiting, p)
			}
		}
		mu.Unlock()
		if len(waiting) > 0 && len(s.Parked()) == 0 {
			// nobody else can move: either a waiter can proceed or all are stuck
			time.Sleep(200 * time.Microsecond)
			s.Settle()
			for _, p := range waiting {
				mu.Lock()
				d := p.done
				mu.Unlock()
				if d {
					continue
				}
				sp := lockSpec{make([]byte, nG)}
				for j := range guards {
					sp.g[j] = guardStateByte(guards[j].State())
				}
				free := (p.op == "block-lock" && sp.canX(p.g)) || (p.op == "block-rlock" && sp.canS(p.g))
				r.Check(!free, "c12.block-avail", "blocking %s by guard %d still waiting 200us after the lock became available (state %s)", p.op, p.g, sp.key())
			}
		}
	}
	// drain: cancel whatever still blocks, let owners finish
	mu.Lock()
	for _, p := range pend {
		if !p.done {
			p.cancel()
		}
	}
	mu.Unlock()
	s.Stop()
	for i := 0; i < 1000 && !finished(); i++ {
		time.Sleep(time.Millisecond)
		s.Settle()
	}
	if !finished() {
		r.Inconclusive("c12: owners did not finish")
		return
	}
	mu.Lock()
	hist := append([]porcupine.Operation(nil), ops...)
	mu.Unlock()
	res := porcupine.CheckOperationsTimeout(c12Model(nG), hist, 20*time.Second)
	switch res {
	case porcupine.Illegal:
		var lines []string
		for _, o := range hist {
			lines = append(lines, fmt.Sprintf("[%d,%d] c%d %+v -> %+v", o.Call, o.Return, o.ClientId, o.Input, o.Output))
		}
		r.Failf("c12.linearizable", "history of %d operations is not linearizable against the reader/writer specification:\n%s", len(hist), strings.Join(lines, "\n"))
	case porcupine.Unknown:
		r.Inconclusive("porcupine timed out on %d operations", len(hist))
	}
	r.Add("c12.history.ops", int64(len(hist)))
	r.State("conc/%d/%d", nG, len(hist)/4)
	var sample []string
	for i, o := range hist {
		if i >= 30 {
			break
		}
		sample = append(sample, fmt.Sprintf("[%d,%d] owner%d %s -> %+v", o.Call, o.Return, o.ClientId, o.Input.(c12Op).Op, o.Output))
	}
	r.Sample = map[string]any{"history": sample}
}
