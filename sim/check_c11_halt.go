package verifsim

import (
	"context"
	"fmt"
	"sync"
	"time"

	"github.com/superfly/litefs"
)

// c11HaltRace: the primary's side of a halt, request by request. Remote nodes
// ("holders", one halt-lock id per open lock handle, reused for every
// lock/unlock cycle of that handle) ask the primary for the halt lock, keep it
// for a while - sometimes longer than its time to live - and give it back; the
// expiry sweep (DB.EnforceHaltLockExpiration, what Store.monitorHaltLock calls)
// runs as a goroutine of its own; local connections of the primary keep asking
// for SHARED and RESERVED through the FUSE lock layer. Every goroutine is a task
// of the run's scheduler; with the mutexyield build the scheduler can also
// switch tasks before any statement that loads, stores or swaps an atomic field
// (seam "atomic": the halt lock is an atomic.Value), i.e. between the sweep's
// expiry check and its release, or between a release's load and its
// compare-and-swap.
//
// Oracle (C11, "holding a halt"): from the moment a grant is returned to the
// holder until the holder asks for its release, and while the grant's expiry
// time has not been reached, the primary still holds the lock for that holder
// (HasHaltLock) and its guards (a stranger cannot take PENDING even shared), and
// no local connection is granted SHARED or RESERVED. After every holder is
// done and all grants are released or expired and swept, the database can be
// locked again.
func c11HaltRace(r *Run) {
	t := r.Tape
	ttl := time.Duration(t.Range(2, 30)) * time.Millisecond
	n := newStaticPrimary(r, false, func(s *litefs.Store) {
		s.HaltLockTTL = ttl
		s.HaltLockMonitorInterval = time.Hour // the sweeps are the monitor task's
		// (HaltAcquireTimeout stays at its default of 10 s: a deadline that runs out at the same instant as the
		// retry timer of AcquireWriteLock makes its select choose at random, which no seed controls)
	})
	if n == nil {
		return
	}
	const dbName = "db"
	c := n.NewConn(dbName, ModeDelete, 4096)
	if e := c.Open(); e != 0 {
		r.Inconclusive("create: %v", e)
		return
	}
	if res := c.WriteTx(TxProgram{NewSize: 2, Outcome: OutCommit}, nil); res.Outcome != OutCommit {
		r.Inconclusive("create: %s", res.Outcome)
		return
	}
	db := n.Store.DB(dbName)
	if db == nil {
		r.Inconclusive("no database")
		return
	}
	s := r.NewSched()
	installLockSeam(r, n, db, nil)
	s.Stick = t.Range(30, 90)
	s.MaxTick = 2 * time.Millisecond
	r.AtomicSeam = MutexYieldBuilt // (also what keeps goroutines that wake at the same instant from racing: each reaches a scheduling point before it touches shared state)
	r.MutexSeam = MutexYieldBuilt && t.Chance(1, 3)
	r.Cfg["atomic_seam"], r.Cfg["mutex_seam"], r.Cfg["ttl_ms"] = r.AtomicSeam, r.MutexSeam, ttl.Milliseconds()
	atomicSeam, mutexSeam := r.AtomicSeam, r.MutexSeam

	ctx := context.Background()
	var mu sync.Mutex
	var seq int64
	stamp := func() int64 { mu.Lock(); seq++; v := seq; mu.Unlock(); return v }
	// live grants, as the holders know them
	type grant struct {
		id      int64
		from    int64 // stamp at which AcquireHaltLock returned
		expires time.Time
	}
	live := map[int64]*grant{}
	liveNow := func() *grant {
		mu.Lock()
		defer mu.Unlock()
		for _, g := range live {
			if time.Now().Before(g.expires) {
				return g
			}
		}
		return nil
	}
	// probe runs without scheduling points: it is one observation
	stranger := uint64(t.Range(1, 1000))*1000 + 777
	probe := func(g *grant, where string) {
		if !time.Now().Before(g.expires) {
			return
		}
		r.AtomicSeam, r.MutexSeam = false, false
		defer func() { r.AtomicSeam, r.MutexSeam = atomicSeam, mutexSeam }()
		r.Count("c11.halt.probe")
		if !db.HasHaltLock(g.id) {
			r.Failf("c11.halt-lost", "%s: halt lock id=%d was granted (expires in %v) and has not been released by its holder, yet the primary no longer has it", where, g.id, time.Until(g.expires))
			return
		}
		if db.CanRLock(ctx, stranger, []litefs.LockType{litefs.LockTypePending}) {
			r.Failf("c11.halt-guard-dropped", "%s: halt lock id=%d is registered and not expired (%v left) but its guards are gone: a new local connection can take PENDING", where, g.id, time.Until(g.expires))
		}
	}

	base := int64(t.Range(1, 1<<20)) << 8
	nHolders := t.Pick([]int{3, 2}) + 1
	type hstep struct {
		kind string // "yield", "sleep"
		d    time.Duration
	}
	type cycle struct {
		hold    []hstep
		release bool
		pause   time.Duration
	}
	var wg sync.WaitGroup
	for h := 0; h < nHolders; h++ {
		id := base + int64(h)
		var prog []cycle
		for k, nc := 0, t.Range(3, 8); k < nc; k++ {
			var cy cycle
			for j, nh := 0, t.Range(0, 3); j < nh; j++ {
				if t.Chance(1, 2) {
					cy.hold = append(cy.hold, hstep{kind: "yield"})
				} else {
					// around the time to live: half of these holds end after the lock has run out
					cy.hold = append(cy.hold, hstep{kind: "sleep", d: ttl/2 + time.Duration(t.Range(0, int(ttl/time.Millisecond)))*time.Millisecond})
				}
			}
			cy.release = t.Chance(5, 6)
			if t.Chance(1, 3) {
				cy.pause = time.Duration(t.Range(1, 10)) * time.Millisecond
			}
			prog = append(prog, cy)
		}
		wg.Add(1)
		s.Go(fmt.Sprintf("holder%d", h), func() {
			defer wg.Done()
			for _, cy := range prog {
				s.Yield(0, "op", "acquire")
				if s.stopping.Load() {
					return
				}
				hl, err := db.AcquireHaltLock(ctx, id)
				if err != nil || hl == nil || hl.Expires == nil {
					r.Count("c11.halt.refused")
					continue
				}
				g := &grant{id: id, from: stamp(), expires: *hl.Expires}
				mu.Lock()
				live[id] = g
				mu.Unlock()
				r.Count("c11.halt.granted")
				probe(g, "right after the grant")
				for _, st := range cy.hold {
					if st.kind == "sleep" {
						time.Sleep(st.d)
						s.Yield(0, "op", "wake")
					} else {
						s.Yield(0, "op", "hold")
					}
					if s.stopping.Load() {
						return
					}
					probe(g, "while holding")
				}
				if !time.Now().Before(g.expires) {
					r.Count("c11.halt.held-past-expiry")
				}
				mu.Lock()
				delete(live, id)
				mu.Unlock()
				if cy.release {
					db.ReleaseHaltLock(ctx, id)
				}
				if cy.pause > 0 {
					time.Sleep(cy.pause)
					s.Yield(0, "op", "wake")
				}
			}
		})
	}
	holdersDone := make(chan struct{})
	go func() { wg.Wait(); close(holdersDone) }()
	finished := func() bool {
		select {
		case <-holdersDone:
			return true
		default:
			return false
		}
	}
	// the expiry sweep
	s.Go("monitor", func() {
		for !s.stopping.Load() && !finished() {
			s.Yield(0, "op", "sweep")
			db.EnforceHaltLockExpiration(ctx)
			time.Sleep(time.Millisecond)
		}
	})
	// local connections
	for l, nl := 0, t.Range(1, 2); l < nl; l++ {
		lc := n.NewConn(dbName, ModeDelete, 4096)
		if e := lc.Open(); e != 0 {
			r.Inconclusive("open local connection: %v", e)
			return
		}
		s.Go(fmt.Sprintf("local%d", l), func() {
			for !s.stopping.Load() && !finished() {
				s.Yield(0, "op", "local")
				if lc.LockShared() == 0 {
					// granted: is a halt in force right now? (no scheduling
					// point between the grant and this look)
					if g := liveNow(); g != nil {
						r.Failf("c11.halt-local-shared", "a local connection was granted SHARED while halt lock id=%d is held by a remote node (%v left)", g.id, time.Until(g.expires))
					}
					if lc.LockReserved() == 0 {
						if g := liveNow(); g != nil {
							r.Failf("c11.halt-local-reserved", "a local connection was granted RESERVED while halt lock id=%d is held by a remote node (%v left)", g.id, time.Until(g.expires))
						}
						r.Count("c11.halt.local-write-lock")
					}
				} else {
					r.Count("c11.halt.local-busy")
				}
				lc.UnlockAll()
				time.Sleep(time.Millisecond)
			}
		})
	}
	// fault: a thread is held up (descheduled, page fault, a slow log writer)
	// at one of its scheduling points for a few milliseconds
	stalls := t.Range(0, 40)
	stallFor := make([]time.Duration, stalls)
	for i := range stallFor {
		stallFor[i] = time.Duration(t.Range(1, int(3*ttl/time.Millisecond))) * time.Millisecond
	}
	r.Cfg["stalls"] = stalls
	for steps := 0; steps < 12000 && !r.Failed(); steps++ {
		// (quiescence first: whether the holders are done must not depend on
		// how far the goroutine released by the last step has got)
		s.Settle()
		if finished() {
			break
		}
		var acts []Action
		if stalls > 0 {
			now := r.SimNow()
			for _, g := range s.Parked() {
				if (g.seam == "atomic" || g.seam == "mutex") && g.until <= now {
					g := g
					w := 5
					if g.inOp >= 2 {
						w = 50 // in the middle of an operation: between a look at shared state and what is done about it
					}
					acts = append(acts, Action{Name: "stall " + g.Name, Weight: w, Do: func() {
						stalls--
						g.until = now + stallFor[stalls]
						r.Count("fault.thread-stall")
					}})
				}
			}
		}
		if !s.StepOnce(acts, true) {
			time.Sleep(time.Millisecond)
		}
	}
	s.Stop()
	// (the scheduler is off now; the sweeps go on so that holders that wait
	// behind a lock nobody gives back get their turn)
	r.AtomicSeam, r.MutexSeam = false, false
	for i := 0; i < 12000 && !finished(); i++ {
		time.Sleep(time.Millisecond)
		db.EnforceHaltLockExpiration(ctx)
		s.Settle()
	}
	if r.Failed() {
		return
	}
	if !finished() {
		r.Inconclusive("c11 halt: holders did not finish")
		return
	}
	// everything was released or has to expire: after a sweep past the time to
	// live the database is free again
	r.AtomicSeam, r.MutexSeam = false, false
	time.Sleep(ttl + time.Millisecond)
	db.EnforceHaltLockExpiration(ctx)
	s.Settle()
	ok, st := db.CanLock(ctx, stranger, []litefs.LockType{litefs.LockTypePending, litefs.LockTypeReserved, litefs.LockTypeShared})
	r.Check(ok, "c11.halt-leak", "every halt lock was released or has expired and was swept, yet the database's locks are still held (%v)", st)
	r.State("halt/%d/%v/%v/%d/%d", nHolders, atomicSeam, mutexSeam, stalls, min(r.Stats["c11.halt.held-past-expiry"], 3))
}
