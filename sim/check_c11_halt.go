package verifsim

import (
	"context"
	"fmt"
	"strings"
	"sync"
	"syscall"
	"time"

	"github.com/superfly/litefs"
)

// c11HaltRace: the primary's side of a halt, request by request. Remote nodes
// ("holders", one halt-lock id per open lock handle, reused for every
// lock/unlock cycle of that handle) ask the primary for the halt lock, keep it
// for a while - sometimes longer than its time to live - and give it back; the
// expiry sweep (DB.EnforceHaltLockExpiration, what Store.monitorHaltLock calls)
// runs as a goroutine of its own; local connections of the primary keep asking
// for SHARED and RESERVED through the FUSE lock layer. Every goroutine is a task
// of the run's scheduler; with the mutexyield build the scheduler can also
// switch tasks before any statement that loads, stores or swaps an atomic field
// (seam "atomic": the halt lock is an atomic.Value), i.e. between the sweep's
// expiry check and its release, or between a release's load and its
// compare-and-swap.
//
// Oracle (C11, "holding a halt"): from the moment a grant is returned to the
// holder until the holder asks for its release, and while the grant's expiry
// time has not been reached, the primary still holds the lock for that holder
// (HasHaltLock) and its guards (a stranger cannot take PENDING even shared), and
// no local connection is granted SHARED or RESERVED. After every holder is
// done and all grants are released or expired and swept, the database can be
// locked again.
func c11HaltRace(r *Run) {
	t := r.Tape
	ttl := time.Duration(t.Range(2, 30)) * time.Millisecond
	n := newStaticPrimary(r, false, func(s *litefs.Store) {
		s.HaltLockTTL = ttl
		s.HaltLockMonitorInterval = time.Hour // the sweeps are the monitor task's
		// (HaltAcquireTimeout stays at its default of 10 s: a deadline that runs out at the same instant as the
		// retry timer of AcquireWriteLock makes its select choose at random, which no seed controls)
	})
	if n == nil {
		return
	}
	const dbName = "db"
	// a rollback-journal or (one run in three) a WAL database with a few
	// commits, some of them still in the log
	hh := &hist{r: r, n: n, name: dbName, pageSize: 4096, jmode: ModeDelete, maxPages: 8}
	if !hh.openConns(1) {
		return
	}
	for i := 0; i < 3 && hh.ref.N() < 2; i++ {
		hh.commit(t)
	}
	wal := t.Chance(1, 3)
	if wal && hh.ref.N() > 0 {
		if !hh.toWAL() {
			return
		}
		for i, k := 0, t.Range(0, 2); i < k; i++ {
			hh.commit(t)
		}
	}
	hh.closeConns()
	r.Cfg["wal"] = hh.wal
	if r.Failed() {
		return
	}
	db := n.Store.DB(dbName)
	if db == nil || db.Pos().TXID == 0 {
		return // (every drawn program rolled back: no database to halt)
	}
	s := r.NewSched()
	installLockSeam(r, n, db, nil)
	s.Stick = t.Range(30, 90)
	s.MaxTick = 2 * time.Millisecond
	r.AtomicSeam = MutexYieldBuilt // (also what keeps goroutines that wake at the same instant from racing: each reaches a scheduling point before it touches shared state)
	r.MutexSeam = MutexYieldBuilt && t.Chance(1, 3)
	r.Cfg["atomic_seam"], r.Cfg["mutex_seam"], r.Cfg["ttl_ms"] = r.AtomicSeam, r.MutexSeam, ttl.Milliseconds()
	atomicSeam, mutexSeam := r.AtomicSeam, r.MutexSeam

	ctx := context.Background()
	var mu sync.Mutex
	var seq int64
	stamp := func() int64 { mu.Lock(); seq++; v := seq; mu.Unlock(); return v }
	// live grants, as the holders know them
	type grant struct {
		id      int64
		from    int64 // stamp at which AcquireHaltLock returned
		expires time.Time
	}
	live := map[int64]*grant{}
	liveNow := func() *grant {
		mu.Lock()
		defer mu.Unlock()
		for _, g := range live {
			if time.Now().Before(g.expires) {
				return g
			}
		}
		return nil
	}
	// probe runs without scheduling points: it is one observation
	stranger := uint64(t.Range(1, 1000))*1000 + 777
	probe := func(g *grant, where string) {
		if !time.Now().Before(g.expires) {
			return
		}
		r.AtomicSeam, r.MutexSeam = false, false
		defer func() { r.AtomicSeam, r.MutexSeam = atomicSeam, mutexSeam }()
		r.Count("c11.halt.probe")
		// (through the verif hook, not DB.HasHaltLock: that method came with a
		// fix, and the reverse of that fix has to build against this harness)
		if hl := db.VerifHaltLock(); hl == nil || hl.ID != g.id {
			r.Failf("c11.halt-lost", "%s: halt lock id=%d was granted (expires in %v) and has not been released by its holder, yet the primary no longer has it", where, g.id, time.Until(g.expires))
			return
		}
		if db.CanRLock(ctx, stranger, []litefs.LockType{litefs.LockTypePending}) {
			r.Failf("c11.halt-guard-dropped", "%s: halt lock id=%d is registered and not expired (%v left) but its guards are gone: a new local connection can take PENDING", where, g.id, time.Until(g.expires))
		}
	}

	base := int64(t.Range(1, 1<<20)) << 8
	nHolders := t.Pick([]int{3, 2}) + 1
	type hstep struct {
		kind string // "yield", "sleep"
		d    time.Duration
	}
	type cycle struct {
		hold    []hstep
		release bool
		pause   time.Duration
	}
	var wg sync.WaitGroup
	for h := 0; h < nHolders; h++ {
		id := base + int64(h)
		var prog []cycle
		for k, nc := 0, t.Range(3, 8); k < nc; k++ {
			var cy cycle
			for j, nh := 0, t.Range(0, 3); j < nh; j++ {
				if t.Chance(1, 2) {
					cy.hold = append(cy.hold, hstep{kind: "yield"})
				} else {
					// around the time to live: half of these holds end after the lock has run out
					cy.hold = append(cy.hold, hstep{kind: "sleep", d: ttl/2 + time.Duration(t.Range(0, int(ttl/time.Millisecond)))*time.Millisecond})
				}
			}
			cy.release = t.Chance(5, 6)
			if t.Chance(1, 3) {
				cy.pause = time.Duration(t.Range(1, 10)) * time.Millisecond
			}
			prog = append(prog, cy)
		}
		wg.Add(1)
		s.Go(fmt.Sprintf("holder%d", h), func() {
			defer wg.Done()
			for _, cy := range prog {
				s.Yield(0, "op", "acquire")
				if s.stopping.Load() {
					return
				}
				hl, err := db.AcquireHaltLock(ctx, id)
				if err != nil || hl == nil || hl.Expires == nil {
					r.Count("c11.halt.refused")
					continue
				}
				g := &grant{id: id, from: stamp(), expires: *hl.Expires}
				mu.Lock()
				live[id] = g
				mu.Unlock()
				r.Count("c11.halt.granted")
				probe(g, "right after the grant")
				for _, st := range cy.hold {
					if st.kind == "sleep" {
						time.Sleep(st.d)
						s.Yield(0, "op", "wake")
					} else {
						s.Yield(0, "op", "hold")
					}
					if s.stopping.Load() {
						return
					}
					probe(g, "while holding")
				}
				if !time.Now().Before(g.expires) {
					r.Count("c11.halt.held-past-expiry")
				}
				mu.Lock()
				delete(live, id)
				mu.Unlock()
				if cy.release {
					db.ReleaseHaltLock(ctx, id)
				}
				if cy.pause > 0 {
					time.Sleep(cy.pause)
					s.Yield(0, "op", "wake")
				}
			}
		})
	}
	holdersDone := make(chan struct{})
	go func() { wg.Wait(); close(holdersDone) }()
	finished := func() bool {
		select {
		case <-holdersDone:
			return true
		default:
			return false
		}
	}
	// the expiry sweep
	s.Go("monitor", func() {
		for !s.stopping.Load() && !finished() {
			s.Yield(0, "op", "sweep")
			db.EnforceHaltLockExpiration(ctx)
			time.Sleep(time.Millisecond)
		}
	})
	// local connections
	for l, nl := 0, t.Range(1, 2); l < nl; l++ {
		lc := n.NewConn(dbName, ModeDelete, 4096)
		if e := lc.Open(); e != 0 {
			r.Inconclusive("open local connection: %v", e)
			return
		}
		s.Go(fmt.Sprintf("local%d", l), func() {
			for !s.stopping.Load() && !finished() {
				s.Yield(0, "op", "local")
				if lc.LockShared() == 0 {
					// granted: is a halt in force right now? On a rollback-journal
					// database the halt needs SHARED exclusively, so it cannot have
					// been granted since. (On a WAL database it can: connections
					// keep SHARED for as long as they are open, the halt takes
					// PENDING and the WAL locks, and the lock seam yields inside
					// the request that gave PENDING back - what counts there is
					// the WAL write lock below.)
					if g := liveNow(); g != nil && !hh.wal {
						r.Failf("c11.halt-local-shared", "a local connection was granted SHARED while halt lock id=%d is held by a remote node (%v left)", g.id, time.Until(g.expires))
					}
					if hh.wal {
						// a WAL connection writes under the wal-index's WRITE lock
						if lc.WalOpen() == 0 {
							if _, e := lc.WalBeginRead(); e == 0 {
								if _, e := lc.WalBeginWrite(); e == 0 {
									if g := liveNow(); g != nil {
										r.Failf("c11.halt-local-reserved", "a local connection was granted the WAL write lock while halt lock id=%d is held by a remote node (%v left)", g.id, time.Until(g.expires))
									}
									r.Count("c11.halt.local-write-lock")
									lc.WalEndWrite()
								}
								lc.WalEndRead()
							}
							lc.walClose()
						}
					} else if lc.LockReserved() == 0 {
						if g := liveNow(); g != nil {
							r.Failf("c11.halt-local-reserved", "a local connection was granted RESERVED while halt lock id=%d is held by a remote node (%v left)", g.id, time.Until(g.expires))
						}
						r.Count("c11.halt.local-write-lock")
					}
				} else {
					r.Count("c11.halt.local-busy")
				}
				lc.UnlockAll()
				time.Sleep(time.Millisecond)
			}
		})
	}
	// fault: a thread is held up (descheduled, page fault, a slow log writer)
	// at one of its scheduling points for a few milliseconds
	stalls := t.Range(0, 40)
	stallFor := make([]time.Duration, stalls)
	for i := range stallFor {
		stallFor[i] = time.Duration(t.Range(1, int(3*ttl/time.Millisecond))) * time.Millisecond
	}
	r.Cfg["stalls"] = stalls
	for steps := 0; steps < 12000 && !r.Failed(); steps++ {
		// (quiescence first: whether the holders are done must not depend on
		// how far the goroutine released by the last step has got)
		s.Settle()
		if finished() {
			break
		}
		var acts []Action
		if stalls > 0 {
			now := r.SimNow()
			for _, g := range s.Parked() {
				if (g.seam == "atomic" || g.seam == "mutex") && g.until <= now {
					g := g
					w := 5
					if g.inOp >= 2 {
						w = 50 // in the middle of an operation: between a look at shared state and what is done about it
					}
					acts = append(acts, Action{Name: "stall " + g.Name, Weight: w, Do: func() {
						stalls--
						g.until = now + stallFor[stalls]
						r.Count("fault.thread-stall")
					}})
				}
			}
		}
		if !s.StepOnce(acts, true) {
			time.Sleep(time.Millisecond)
		}
	}
	s.Stop()
	// (the scheduler is off now; the sweeps go on so that holders that wait
	// behind a lock nobody gives back get their turn)
	r.AtomicSeam, r.MutexSeam = false, false
	for i := 0; i < 12000 && !finished(); i++ {
		time.Sleep(time.Millisecond)
		db.EnforceHaltLockExpiration(ctx)
		s.Settle()
	}
	if r.Failed() {
		return
	}
	if !finished() {
		r.Inconclusive("c11 halt: holders did not finish")
		return
	}
	// everything was released or has to expire: after a sweep past the time to
	// live the database is free again
	r.AtomicSeam, r.MutexSeam = false, false
	time.Sleep(ttl + time.Millisecond)
	db.EnforceHaltLockExpiration(ctx)
	s.Settle()
	ok, st := db.CanLock(ctx, stranger, []litefs.LockType{litefs.LockTypePending, litefs.LockTypeReserved, litefs.LockTypeShared})
	r.Check(ok, "c11.halt-leak", "every halt lock was released or has expired and was swept, yet the database's locks are still held (%v)", st)
	r.State("halt/%d/%v/%v/%d/%d", nHolders, atomicSeam, mutexSeam, stalls, min(r.Stats["c11.halt.held-past-expiry"], 3))
}

// c11HotJournalRace: a write transaction of an application dies half-way (its
// page writes start to fail with an I/O error after the first ones went
// through, so its own rollback fails too): the database file is modified, the
// journal is hot and nobody holds a lock - the state a crashed writer leaves.
// SQLite's rule for everybody who comes next: take SHARED, look for a hot
// journal (it exists, nobody holds RESERVED, its header is valid), roll it back
// under EXCLUSIVE taken WITHOUT the intermediate RESERVED lock - "if it were,
// another process might open the database file, detect the RESERVED lock, and
// conclude that the database is safe to read while this process is still
// rolling the hot-journal back" (pager.c). LiteFS's internal writer is such a
// process: remote halt-lock requests and its own recovery take the write lock
// (retrying while connections hold locks) and roll the journal back. Readers and
// those internal attempts are tasks of the seeded scheduler, with every change
// of one of the database's locks a scheduling point. Oracle: a reader that gets
// data gets the committed image (the one before the dead transaction); it may
// be refused (BUSY) but never reads the dead transaction's pages.
func c11HotJournalRace(r *Run) {
	t := r.Tape
	n := newStaticPrimary(r, false, nil)
	if n == nil {
		return
	}
	h := &hist{r: r, n: n, name: "db"}
	h.pageSize = []uint32{512, 1024, 4096}[t.Next(3)]
	h.jmode = []string{ModeDelete, ModeTruncate, ModePersist}[t.Next(3)]
	h.maxPages = 10
	r.Cfg["page_size"], r.Cfg["jmode"] = h.pageSize, h.jmode
	if !h.openConns(1) {
		return
	}
	for i := 0; i < 3 && h.ref.N() < 3; i++ {
		h.commit(t)
	}
	if r.Failed() || h.ref.N() < 2 {
		return
	}
	h.closeConns()
	db := n.Store.DB(h.name)
	if db == nil {
		return
	}
	committed := h.ref
	pos := db.Pos()
	// the transaction that dies: rewrites some pages and grows the file
	w := n.NewConn(h.name, h.jmode, h.pageSize)
	if e := w.Open(); e != 0 {
		r.Inconclusive("open writer: %v", e)
		return
	}
	failFrom := t.Range(2, 3)
	var writes int
	n.SetPageOpHook(func(d *litefs.DB, op string, pgno uint32) error {
		if d.Name() != h.name {
			return nil
		}
		if writes++; writes >= failFrom {
			r.Count("fault.page_write_error")
			return syscall.EIO
		}
		return nil
	})
	var mod []uint32
	for pg := uint32(2); pg <= committed.N(); pg++ {
		mod = append(mod, pg)
	}
	res := w.WriteTx(TxProgram{Modify: mod, NewSize: committed.N() + uint32(t.Range(0, 2)), Outcome: OutCommit}, committed)
	n.SetPageOpHook(nil)
	w.Die()
	if res.Outcome == OutCommit {
		r.Count("c11.hot-journal.not-left") // (fewer page writes than the fault's ordinal)
		return
	}
	if db.Pos() != pos {
		r.Failf("c11.hot-journal-setup", "a transaction whose page writes failed moved the position %s -> %s", pos, db.Pos())
		return
	}
	disk, err := ReadDiskImage(db.Path())
	if err != nil || DiffImages(disk, committed) == "" || !journalLooksHot(db.Path()) {
		r.Count("c11.hot-journal.not-left")
		return // the failed transaction left nothing behind: nothing to race about
	}
	r.Count("c11.hot-journal.left")

	s := r.NewSched()
	installLockSeam(r, n, db, nil)
	s.Stick = t.Range(20, 90)
	s.MaxTick = 2 * time.Millisecond
	r.MutexSeam = MutexYieldBuilt && t.Chance(1, 2)
	r.AtomicSeam = MutexYieldBuilt && t.Chance(1, 2)
	r.Cfg["mutex_seam"], r.Cfg["atomic_seam"] = r.MutexSeam, r.AtomicSeam
	ctx := context.Background()
	var wg sync.WaitGroup
	nReaders := t.Range(1, 2)
	reads := make([]int, nReaders)
	for i := 0; i < nReaders; i++ {
		i := i
		k := t.Range(1, 4)
		rc := n.NewConn(h.name, h.jmode, h.pageSize)
		if e := rc.Open(); e != 0 {
			r.Inconclusive("open reader: %v", e)
			return
		}
		wg.Add(1)
		s.Go(fmt.Sprintf("reader%d", i), func() {
			defer wg.Done()
			for j := 0; j < k && !s.stopping.Load(); j++ {
				s.Yield(0, "op", "read")
				im, e := rc.ReadTxRecover()
				if e != 0 || im == nil {
					r.Count("c11.hot-journal.reader-refused")
					rc.UnlockAll()
					continue
				}
				reads[i]++
				r.Count("c11.hot-journal.read")
				if d := DiffImages(im, committed); d != "" {
					r.Failf("c11.hot-journal-reader", "a transaction died after some of its page writes (hot journal, modified database file, position still %s); a connection that followed SQLite's opening sequence (SHARED, hot-journal test, rollback if hot) while LiteFS's internal writer was trying to take its write lock read the dead transaction's pages: %s", pos, d)
					return
				}
			}
		})
	}
	kind := []string{"halt", "recover"}[t.Next(2)]
	attempts := t.Range(1, 3)
	r.Cfg["internal"] = kind
	wg.Add(1)
	s.Go("internal", func() {
		defer wg.Done()
		for j := 0; j < attempts && !s.stopping.Load(); j++ {
			s.Yield(0, "op", kind)
			switch kind {
			case "halt":
				id := int64(1000 + j)
				if hl, err := db.AcquireHaltLock(ctx, id); err == nil && hl != nil {
					s.Yield(0, "op", "halt-held")
					db.ReleaseHaltLock(ctx, id)
					r.Count("c11.hot-journal.internal-done")
				}
			default:
				if err := db.Recover(ctx); err == nil {
					r.Count("c11.hot-journal.internal-done")
				}
			}
		}
	})
	done := make(chan struct{})
	go func() { wg.Wait(); close(done) }()
	finished := func() bool {
		select {
		case <-done:
			return true
		default:
			return false
		}
	}
	for steps := 0; steps < 6000 && !r.Failed(); steps++ {
		s.Settle()
		if finished() {
			break
		}
		if !s.StepOnce(nil, true) {
			time.Sleep(time.Millisecond)
		}
	}
	s.Stop()
	r.MutexSeam, r.AtomicSeam = false, false
	for i := 0; i < 15000 && !finished(); i++ {
		time.Sleep(time.Millisecond)
		s.Settle()
	}
	if r.Failed() {
		return
	}
	if !finished() {
		r.Inconclusive("c11 hot journal: tasks did not finish")
		return
	}
	// in the end the journal is rolled back by somebody and the file is the committed image
	c := n.NewConn(h.name, h.jmode, h.pageSize)
	if e := c.Open(); e == 0 {
		if im, e := c.ReadTxRecover(); e == 0 && im != nil {
			if d := DiffImages(im, committed); d != "" {
				r.Failf("c11.hot-journal-reader", "after every reader and LiteFS's internal writer were done a new connection reads something else than the committed image of %s: %s", pos, d)
			}
		}
		c.Close()
	}
	// (a connection that rolls the journal back itself rewrites the original
	// pages: LiteFS records that as a transaction with the same checksum)
	r.Check(db.Pos().PostApplyChecksum == pos.PostApplyChecksum, "c11.hot-journal-position", "rolling a dead transaction back changed the database's checksum: position %s -> %s", pos, db.Pos())
	r.State("hot-journal/%s/%s/%d/%v", h.jmode, kind, nReaders, r.Cfg["mutex_seam"])
}

// c11ModeChangeRace: the journal mode changes while LiteFS's internal writer
// waits for its write lock. An application connection takes a WAL database back
// to a rollback journal (the way OP_JournalMode does: close the log as the last
// connection, then a rollback-journal transaction that rewrites the header);
// other connections open, read page 1 and follow the protocol of the mode they
// find; internal writers (AcquireWriteLock with its retry loop, as recovery,
// checkpoints, imports and halt locks use it) keep asking. All of them are
// tasks of the seeded scheduler with every lock transition a scheduling point.
// Oracle: at the instant the internal write lock is granted no connection holds
// a lock that conflicts with it in the journal mode the database file is in at
// that instant (rollback: any database-file lock; WAL: any wal-index lock).
func c11ModeChangeRace(r *Run) {
	t := r.Tape
	n := newStaticPrimary(r, false, nil)
	if n == nil {
		return
	}
	h := &hist{r: r, n: n, name: "db"}
	h.pageSize = []uint32{512, 4096}[t.Next(2)]
	h.jmode = []string{ModeDelete, ModeTruncate, ModePersist}[t.Next(3)]
	h.maxPages = 8
	if !h.openConns(1) {
		return
	}
	for i := 0; i < 3 && h.ref.N() < 2; i++ {
		h.commit(t)
	}
	if r.Failed() || h.ref.N() == 0 || !h.toWAL() {
		return
	}
	h.commit(t)
	if r.Failed() {
		return
	}
	db := n.Store.DB(h.name)
	if db == nil {
		return
	}
	flipper := h.conns[0]
	h.conns = nil
	ref := h.ref
	s := r.NewSched()
	installLockSeam(r, n, db, nil)
	s.Stick = t.Range(20, 90)
	s.MaxTick = 2 * time.Millisecond
	r.MutexSeam = MutexYieldBuilt && t.Chance(1, 3)
	r.AtomicSeam = MutexYieldBuilt && t.Chance(1, 2)
	r.Cfg["mutex_seam"], r.Cfg["atomic_seam"], r.Cfg["page_size"], r.Cfg["jmode"] = r.MutexSeam, r.AtomicSeam, h.pageSize, h.jmode
	var wg sync.WaitGroup
	flipped := false
	wg.Add(1)
	s.Go("flipper", func() {
		defer wg.Done()
		for try := 0; try < 40 && !s.stopping.Load(); try++ {
			s.Yield(0, "op", "leave-wal")
			if flipper.wal != nil {
				if at, e := flipper.WalCloseLast(ref); e != 0 {
					r.Count("c11.mode-change.close-refused")
					time.Sleep(time.Millisecond)
					s.Yield(0, "op", "wake")
					continue
				} else if at == "not-last" {
					// other connections are open: come back as one of them
					if flipper.Open() != 0 || flipper.WalOpen() != 0 {
						return
					}
					time.Sleep(time.Millisecond)
					s.Yield(0, "op", "wake")
					continue
				}
			}
			flipper.UnlockAll()
			flipper.Mode = h.jmode
			res := flipper.WriteTx(TxProgram{NewSize: ref.N(), Outcome: OutCommit, SetWAL: 2}, ref)
			if res.Outcome == OutCommit {
				ref = res.After
				flipped = true
				r.Count("c11.mode-change.left-wal")
				return
			}
			r.Count("c11.mode-change.flip-" + res.Outcome)
			if res.Outcome == "error" && res.Errno != syscall.EAGAIN {
				return
			}
			time.Sleep(time.Millisecond)
			s.Yield(0, "op", "wake")
		}
	})
	// connections that open, look at page 1 and read under that mode's locks
	for i, k := 0, t.Range(1, 2); i < k; i++ {
		rounds := t.Range(4, 12)
		wg.Add(1)
		s.Go(fmt.Sprintf("conn%d", i), func() {
			defer wg.Done()
			for j := 0; j < rounds && !s.stopping.Load(); j++ {
				s.Yield(0, "op", "open")
				c := n.NewConn(h.name, h.jmode, h.pageSize)
				if c.Open() != 0 {
					continue
				}
				if c.LockShared() == 0 {
					hdr, ok, e := c.ReadHeader()
					switch {
					case e != 0 || !ok:
					case hdr.WAL:
						if c.WalOpen() == 0 {
							if _, e := c.WalBeginRead(); e == 0 {
								s.Yield(0, "op", "hold")
								c.WalEndRead()
							}
						}
					default:
						// a rollback-mode reader keeps SHARED for the length of its statement
						s.Yield(0, "op", "hold")
						time.Sleep(time.Duration(1+j%4) * time.Millisecond)
						s.Yield(0, "op", "wake")
					}
				}
				c.Close()
			}
		})
	}
	// the internal writer (one: two of them waking from their retry timers at
	// the same instant would race for the first lock before either reaches a
	// scheduling point, and no seed decides that race)
	grants := 0
	for i, k := 0, 1; i < k; i++ {
		rounds := t.Range(6, 16)
		wg.Add(1)
		s.Go(fmt.Sprintf("internal%d", i), func() {
			defer wg.Done()
			for j := 0; j < rounds && !s.stopping.Load(); j++ {
				s.Yield(0, "op", "acquire")
				ctx, cancel := context.WithTimeout(context.Background(), 10*time.Second)
				gs, err := db.AcquireWriteLock(ctx, nil)
				cancel()
				if err != nil || gs == nil {
					r.Count("c11.mode-change.acquire-failed")
					continue
				}
				// granted: no scheduling point between the grant and this look
				wal := rawWALMode(db.Path())
				if bad := conflictingClientLocks(wal, n.K.Locks.Held(h.name), n.K.Locks.Held(h.name+"-shm")); len(bad) > 0 {
					r.Failf("c11.write-lock-under-client-lock", "LiteFS's internal write lock was granted on a database that is in %s mode while %s (the journal mode changed while the internal writer was waiting: %v)", map[bool]string{true: "WAL", false: "rollback-journal"}[wal], strings.Join(bad, ", "), flipped)
					gs.Unlock()
					return
				}
				grants++
				r.Count("c11.mode-change.granted")
				s.Yield(0, "op", "held")
				gs.Unlock()
			}
		})
	}
	done := make(chan struct{})
	go func() { wg.Wait(); close(done) }()
	finished := func() bool {
		select {
		case <-done:
			return true
		default:
			return false
		}
	}
	for steps := 0; steps < 8000 && !r.Failed(); steps++ {
		s.Settle()
		if finished() {
			break
		}
		if !s.StepOnce(nil, true) {
			time.Sleep(time.Millisecond)
		}
	}
	s.Stop()
	r.MutexSeam, r.AtomicSeam = false, false
	for i := 0; i < 15000 && !finished(); i++ {
		time.Sleep(time.Millisecond)
		s.Settle()
	}
	if !r.Failed() && !finished() {
		r.Inconclusive("c11 mode change: tasks did not finish")
		return
	}
	r.State("mode-change/%v/%d", flipped, min(grants, 3))
}
