//go:build mutexyield

package verifsim

import "github.com/superfly/litefs"

// MutexYieldBuilt reports whether this binary was built from the copy of
// superfly/litefs in which every acquisition of a sync mutex is a scheduling
// point (tools/yieldinst).
const MutexYieldBuilt = true

// installMutexSeam makes mutex acquisitions of the run's goroutines yield to
// its scheduler (seam "mutex") whenever the goroutine holds no other
// instrumented mutex.
func installMutexSeam(r *Run) {
	litefs.VerifResetMutexes()
	litefs.VerifMutexYield = func(loc string) {
		if cur := curRun.Load(); cur != nil && cur.MutexSeam {
			if s := cur.Sched; s != nil {
				s.Yield(0, "mutex", loc)
			}
		}
	}
}
