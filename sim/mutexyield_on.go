//go:build mutexyield

package verifsim

import (
	"sync"

	"github.com/superfly/litefs"
)

// MutexYieldBuilt reports whether this binary was built from the copy of
// superfly/litefs in which every acquisition of a sync mutex is a scheduling
// point (tools/yieldinst).
const MutexYieldBuilt = true

// installMutexSeam makes mutex acquisitions of the run's goroutines yield to
// its scheduler (seam "mutex") whenever the goroutine holds no other
// instrumented mutex.
func installMutexSeam(r *Run) {
	litefs.VerifResetMutexes()
	var mu sync.Mutex
	count := map[uint64]int{}
	litefs.VerifMutexYield = func(loc string) {
		cur := curRun.Load()
		if cur == nil || !cur.MutexSeam {
			return
		}
		s := cur.Sched
		if s == nil {
			return
		}
		if every := cur.MutexEvery; every > 1 {
			// only every n-th acquisition of a goroutine is a scheduling point
			// (long multi-node runs would otherwise spend their step budget here)
			id := goid()
			mu.Lock()
			count[id]++
			c := count[id]
			mu.Unlock()
			if c%every != 0 {
				return
			}
		}
		s.Yield(0, "mutex", loc)
	}
	// statements with an atomic load, store or swap of a field (the halt lock,
	// the position, the journal mode, the lease): a scheduling point when the
	// run asks for it and the goroutine holds no sync mutex
	litefs.VerifAtomicYield = func(loc string) {
		cur := curRun.Load()
		if cur == nil || !cur.AtomicSeam {
			return
		}
		s := cur.Sched
		if s == nil || litefs.VerifHeldMutexes() != 0 {
			return
		}
		s.Yield(0, "atomic", loc)
	}
}
