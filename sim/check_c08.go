package verifsim

import (
	"context"
	"fmt"
	"os"
	"path/filepath"
	"strings"
	"time"

	"github.com/superfly/litefs"
)

func init() {
	register(&CheckDef{
		ID:    "C08",
		Level: "exploration",
		Rule:  "seeded scripts of lease-service behaviour against real Stores. (1) simulated TTL lease service (expiry exactly at TTL, lock delay after an invalidation): 2-4 nodes, candidates and non-candidates, real HTTP replication over the simulated network, a writer on whichever node is primary; a seeded scheduler interleaves lease calls with everything else and injects acquire errors, renew errors for any duration, acquire-took-effect-but-reply-lost, service unreachable per node, service-side session invalidation, manual demotion, handoff requests to connected / partitioned / unknown / own node ids, partitions and stream resets. After every scheduler step the monitor compares each node's IsPrimary() with the service's own call log: primary only with a successfully acquired (or handed-over) session, not later than 250 ms after a renewal answered 'gone', not later than TTL + lock delay + 250 ms after the last successful acquire/renew; never two primaries on different sessions for longer than 250 ms; when a node stops being primary a PrimaryCtx taken while it was primary is cancelled at once and a Close of its session reaches the service within 3 s unless the session was handed off; a non-candidate never sends Acquire; AcquireExisting succeeds only for the node named in the latest accepted handoff request of that session. (2) the same monitor with the real Consul leaser talking to an in-process fake Consul HTTP API (sessions with TTL and lock delay, KV acquire/release, behaviour=delete) installed as http.DefaultClient's transport. (3) cluster-id scripts with the static leaser and the simulated service: a node whose stored cluster id differs from the service's or the primary's never becomes primary, never applies a byte of the stream and creates no database; a node without an id adopts the primary's. evaluations = monitor evaluations; distinct = distinct (scenario, fault kinds fired, role changes, handoff outcome) tuples; non-trivial = run with >= 1 role change after the first election",
		Run:   runC08,
		NonTrivial: func(r *Run) bool {
			return r.Stats["c08.role-change"] > 1 || r.Stats["c08.clusterid.checked"] > 0
		},
		Assumptions: []string{"lease calls return promptly (an answer or an error); a call that hangs forever is not generated: LiteFS puts no deadline on Renew, so a hung call keeps a node primary indefinitely - described in DESIGN.md, outside the property's quantifier (succeeds / expired / errors)", "the bound after the last successful renewal is TTL + the configured lock delay, the margin the protocol itself relies on"},
		Real:        []string{"Store.monitorLease / monitorLeaseAsPrimary / monitorLeaseAsReplica, acquireLeaseOrPrimaryInfo, Demote, Handoff, processHandoff, PrimaryCtx, cluster-id checks, consul.Leaser + hashicorp/consul/api client in scenario 2"},
		Stub:        []string{"SimLease (TTL lease service)", "fake Consul HTTP API", "SimNet", "SimKernel", "PagerSim"},
	})
}

func runC08(r *Run) {
	switch r.Tape.Pick([]int{6, 3, 2, 1}) {
	case 3:
		r.Cfg["scenario"] = "handoff-sink"
		c08HandoffSink(r)
		return
	case 0:
		r.Cfg["scenario"] = "simlease"
		c08Cluster(r, false)
	case 1:
		r.Cfg["scenario"] = "consul"
		c08Cluster(r, true)
	default:
		r.Cfg["scenario"] = "cluster-id"
		c08ClusterID(r)
	}
}

// leaseTruth is the lease service's own record.
type leaseTruth interface {
	Events(from int) []LeaseEvent
	TTLDur() time.Duration
	Grace() time.Duration
}

func (s *SimLease) Events(from int) []LeaseEvent {
	s.mu.Lock()
	defer s.mu.Unlock()
	if from >= len(s.Log) {
		return nil
	}
	return append([]LeaseEvent(nil), s.Log[from:]...)
}
func (s *SimLease) TTLDur() time.Duration { return s.TTL }
func (s *SimLease) Grace() time.Duration  { return s.LockDelay }

type c08node struct {
	gen      int
	sess     string
	lastOK   time.Duration
	goneAt   time.Duration
	failed   int
	closed   map[string]bool
	ctx      context.Context
	ctxSess  string
	wasPrim  bool
	everPrim bool
}

type c08handoff struct {
	at     time.Duration
	sess   string
	target int // node id (0 = nobody valid)
	err    error
}

type c08obligation struct {
	node     int
	gen      int
	sess     string
	deadline time.Duration
}

type c08mon struct {
	r        *Run
	nodes    []*Node
	truth    leaseTruth
	seen     int
	st       map[int]*c08node
	handoffs []c08handoff
	handed   map[string]bool // sessions taken over through acquire-existing
	forced   map[string]bool // sessions the service invalidated before their TTL
	obl      []c08obligation
	dualAt   time.Duration
	eps      time.Duration
	nonCand  map[int]bool
}

func newC08Mon(r *Run, nodes []*Node, truth leaseTruth) *c08mon {
	m := &c08mon{r: r, nodes: nodes, truth: truth, st: map[int]*c08node{}, handed: map[string]bool{}, forced: map[string]bool{}, dualAt: -1, eps: 250 * time.Millisecond, nonCand: map[int]bool{}}
	for _, n := range nodes {
		m.st[n.ID] = &c08node{goneAt: -1, closed: map[string]bool{}, gen: n.Gen}
		if !n.Cfg.Candidate {
			m.nonCand[n.ID] = true
		}
	}
	return m
}

func (m *c08mon) check() {
	r := m.r
	now := r.SimNow()
	evs := m.truth.Events(m.seen)
	m.seen += len(evs)
	for _, e := range evs {
		if e.Call == "force-expire" {
			m.forced[e.Sess] = true
			r.Logf("lease: service drops session %s (at %v)", e.Sess, e.At)
			continue
		}
		st := m.st[e.Node]
		if st == nil {
			continue
		}
		if !(e.Call == "renew" && e.Result == "ok") {
			r.Logf("lease: n%d %s %s => %s (at %v)", e.Node, e.Call, e.Sess, e.Result, e.At)
		}
		switch e.Call {
		case "acquire":
			if m.nonCand[e.Node] {
				r.Failf("c08.noncandidate-acquire", "non-candidate n%d sent Acquire to the lease service at %v (result %s)", e.Node, e.At, e.Result)
			}
			if e.Result == "ok" {
				st.sess, st.lastOK, st.goneAt = e.Sess, e.At, -1
			}
		case "acquire-existing":
			if e.Result == "ok" {
				// only a node named in a handoff request of this session that was
				// not refused (requests may overlap)
				ok := false
				var asked []string
				for _, h := range m.handoffs {
					if h.sess == e.Sess && h.err == nil {
						asked = append(asked, fmt.Sprintf("n%d", h.target))
						if h.target == e.Node {
							ok = true
						}
					}
				}
				if !ok {
					r.Failf("c08.handoff-target", "n%d took over session %s at %v; the handoff requests accepted for it name %v", e.Node, e.Sess, e.At, asked)
				}
				st.sess, st.lastOK, st.goneAt = e.Sess, e.At, -1
				m.handed[e.Sess] = true
				r.Count("c08.handoff.completed")
			}
		case "renew":
			if e.Sess == st.sess {
				switch e.Result {
				case "ok":
					st.lastOK = e.At
					st.failed = 0
				case "expired":
					if st.goneAt < 0 {
						st.goneAt = e.At
					}
				default:
					st.failed++
				}
			}
		case "close":
			st.closed[e.Sess] = true
		}
	}
	ttl, grace := m.truth.TTLDur(), m.truth.Grace()
	nprim := 0
	var primSess []string
	for _, n := range m.nodes {
		st := m.st[n.ID]
		if n.Gen != st.gen {
			// a new process: it holds nothing
			st.gen, st.sess, st.ctx, st.wasPrim, st.goneAt = n.Gen, "", nil, false, -1
		}
		if !n.Up || n.Exited || n.Store == nil {
			st.ctx, st.wasPrim = nil, false
			continue
		}
		p := n.Store.IsPrimary()
		if p {
			// A session the service dropped early breaks the lease contract from
			// the service's side: its holder cannot know before its next renewal,
			// so it does not count for the mutual-exclusion check (the 'gone'
			// clause below still binds it).
			if !m.forced[st.sess] {
				nprim++
				primSess = append(primSess, st.sess)
			}
			r.Count("c08.primary-samples")
			if st.sess == "" {
				r.Failf("c08.primary-without-lease", "%s reports it is primary at %v but the lease service never granted it a session", n.Name, now)
				continue
			}
			if st.goneAt >= 0 && now > st.goneAt+m.eps {
				r.Failf("c08.primary-after-gone", "%s is still primary at %v; the service answered its renewal of %s with 'gone' at %v", n.Name, now, st.sess, st.goneAt)
			}
			if now > st.lastOK+ttl+grace+m.eps {
				r.Failf("c08.primary-after-ttl", "%s is still primary at %v; its last successful acquire/renew of %s was at %v (TTL %v, lock delay %v)", n.Name, now, st.sess, st.lastOK, ttl, grace)
			}
			if st.ctx == nil {
				st.ctx, st.ctxSess = n.Store.PrimaryCtx(context.Background()), st.sess
			}
			if !st.wasPrim {
				r.Count("c08.role-change")
				st.wasPrim, st.everPrim = true, true
			}
		} else {
			if st.wasPrim {
				r.Count("c08.role-change")
				st.wasPrim = false
				switch {
				case st.goneAt >= 0:
					r.Count("c08.stopped.renewal-said-gone")
				case st.failed > 0:
					r.Count("c08.stopped.renewals-failed")
				default:
					r.Count("c08.stopped.other")
				}
				st.failed = 0
				if st.ctx != nil {
					// Err() reads the primary channel itself; Done() is closed by a
					// forwarding goroutine a moment later
					if st.ctx.Err() == nil {
						r.Failf("c08.ctx-not-cancelled", "%s stopped being primary (session %s) but a primary-scoped context taken while it was primary is not cancelled", n.Name, st.ctxSess)
					}
					m.obl = append(m.obl, c08obligation{node: n.ID, gen: n.Gen, sess: st.ctxSess, deadline: now + 3*time.Second})
					st.ctx = nil
				}
			}
		}
	}
	// lease destruction obligations
	keep := m.obl[:0]
	for _, o := range m.obl {
		st := m.st[o.node]
		var n *Node
		for _, x := range m.nodes {
			if x.ID == o.node {
				n = x
			}
		}
		handoffAsked := false
		for _, h := range m.handoffs {
			if h.sess == o.sess && h.err == nil {
				handoffAsked = true
			}
		}
		switch {
		case st.closed[o.sess], m.handed[o.sess]:
			r.Count("c08.lease-destroyed")
		case handoffAsked:
			// the lease was given away (whether or not the target picked it up): the exception in the property
			r.Count("c08.lease-preserved-for-handoff")
		case n == nil || n.Gen != o.gen || !n.Up || n.Exited:
			// the process died: nothing more it could do
		case now > o.deadline:
			r.Failf("c08.lease-not-destroyed", "n%d stopped being primary but sent no Close for session %s within 3 s (and it was not handed off)", o.node, o.sess)
		default:
			keep = append(keep, o)
		}
	}
	m.obl = keep
	// two primaries
	if nprim >= 2 && !(len(primSess) == 2 && primSess[0] == primSess[1]) {
		if m.dualAt < 0 {
			m.dualAt = now
		} else if now-m.dualAt > m.eps {
			var names []string
			for _, n := range m.nodes {
				if n.Up && !n.Exited && n.Store != nil && n.Store.IsPrimary() {
					names = append(names, n.Name+"("+m.st[n.ID].sess+")")
				}
			}
			r.Failf("c08.two-primaries", "%v report they are primary at the same time since %v (now %v)", names, m.dualAt, now)
		}
	} else {
		m.dualAt = -1
	}
}

func c08Cluster(r *Run, consul bool) {
	t := r.Tape
	nn := 2 + t.Next(3)
	cs := newClusterSim(r, nn, "c08")
	cs.checkReaders = false
	// The timing clauses are about nodes that are not stalled: a time jump never
	// exceeds 20 ms, so a goroutine woken by a timer inside a jump is released
	// at most 20 ms late (the monitor allows 250 ms).
	cs.s.MaxTick = 20 * time.Millisecond
	cs.wantTx = t.Range(3, 8)
	lockDelay := []time.Duration{time.Second, 2 * time.Second}[t.Next(2)]
	cs.cl.Lease.LockDelay = lockDelay
	// Consul's minimum session TTL is 10 s and a handoff may legitimately block
	// the renewal loop for its own 5 s timeout, so shorter TTLs are not a
	// supported configuration.
	cs.cl.Lease.TTL = []time.Duration{10 * time.Second, 15 * time.Second}[t.Next(2)]
	r.Cfg["ttl"] = cs.cl.Lease.TTL.String()
	r.Cfg["lock_delay"] = lockDelay.String()
	// some nodes are not candidates (never the first one)
	var nonc []string
	for i, n := range cs.cl.Nodes {
		if i > 0 && t.Chance(1, 3) {
			n.Cfg.Candidate = false
			nonc = append(nonc, n.Name)
		}
	}
	r.Cfg["non_candidates"] = strings.Join(nonc, ",")
	var truth leaseTruth = cs.cl.Lease
	if consul {
		fc := newFakeConsul(r, lockDelay)
		truth = fc
		// stays installed: node teardown still closes leases through it, the
		// next consul run replaces it, nothing else uses http.DefaultClient
		_ = fc.install()
		for _, n := range cs.cl.Nodes {
			l, err := fc.leaserFor(n)
			if err != nil {
				r.Inconclusive("consul leaser: %v", err)
				return
			}
			n.Cfg.Leaser = l
		}
		r.Cfg["ttl"] = fc.ttl.String()
	}
	if !cs.openAll() {
		return
	}
	mon := newC08Mon(r, cs.cl.Nodes, truth)
	wt := t.Fork()
	cs.goActor("writer", func() { cs.writerLoop(wt) })
	faultW := []int{1, 3}[t.Next(2)]
	leaseFaults := t.Chance(3, 4)
	// what the run concentrates on: a mix, renewals that keep failing, or sessions the service drops
	focus := []string{"mixed", "renew-fail", "gone"}[t.Next(3)]
	r.Cfg["focus"] = focus
	minSim := r.SimNow() + 3*truth.TTLDur() + 4*time.Second
	var fired []string
	handoffN := 0
	for step := 0; step < 15000 && !r.Failed(); step++ {
		cs.handleExits()
		cs.mu.Lock()
		done := cs.commits >= cs.wantTx
		cs.mu.Unlock()
		if done && r.SimNow() > minSim {
			break
		}
		var acts []Action
		for _, a := range cs.faultActions(faultW) {
			if strings.HasPrefix(a.Name, "crash") || strings.HasPrefix(a.Name, "restart") || strings.HasPrefix(a.Name, "evict") {
				continue
			}
			if consul && a.Name == "lease-expire" {
				continue
			}
			if focus != "mixed" && strings.HasPrefix(a.Name, "demote") {
				continue
			}
			if focus == "gone" && a.Name == "lease-expire" {
				a.Weight = faultW * 2
			}
			acts = append(acts, a)
		}
		if leaseFaults {
			for _, a := range c08LeaseFaultActions(r, cs, consul, truth, faultW, &fired) {
				if focus == "renew-fail" && (a.Name == "lease-ok" || a.Name == "consul-ok") {
					a.Weight = 1 // outages last
				}
				acts = append(acts, a)
			}
		}
		// handoff requests
		handoffMax, handoffW := 6, faultW
		if focus == "renew-fail" {
			// handoff requests while renewals fail: each one runs the renewal
			// inside processHandoff and re-enters the renewal wait
			handoffMax, handoffW = 40, faultW*2
		}
		if p := cs.cl.Primary(); p != nil && handoffN < handoffMax {
			p := p
			acts = append(acts, Action{Name: "handoff", Weight: handoffW, Do: func() {
				handoffN++
				// target: any node, the primary itself, or an id nobody has
				var target *Node
				tid := uint64(999999)
				k := t.Next(len(cs.cl.Nodes) + 1)
				if focus == "renew-fail" && t.Chance(3, 4) {
					// mostly a real replica
					k = t.Next(len(cs.cl.Nodes))
					if cs.cl.Nodes[k] == p {
						k = (k + 1) % len(cs.cl.Nodes)
					}
				}
				if k < len(cs.cl.Nodes) {
					target = cs.cl.Nodes[k]
					if target.Store != nil {
						tid = target.Store.ID()
					}
				}
				sess := mon.st[p.ID].sess
				idx := len(mon.handoffs)
				h := c08handoff{at: r.SimNow(), sess: sess, target: 0, err: fmt.Errorf("pending")}
				if target != nil {
					h.target = target.ID
				}
				mon.handoffs = append(mon.handoffs, h)
				store := p.Store
				cs.goActor(fmt.Sprintf("handoff%d", handoffN), func() {
					ctx, cancel := context.WithTimeout(context.Background(), 6*time.Second)
					defer cancel()
					err := store.Handoff(ctx, tid)
					cs.mu.Lock()
					mon.handoffs[idx].err = err
					cs.mu.Unlock()
					if err == nil {
						r.Count("c08.handoff.accepted")
					} else {
						r.Count("c08.handoff.refused")
					}
				})
				// the request is registered as accepted-until-proven-otherwise so
				// that a takeover racing the return value is attributed to it
				cs.mu.Lock()
				mon.handoffs[idx].err = nil
				cs.mu.Unlock()
			}})
		}
		cs.s.StepOnce(acts, true)
		cs.mu.Lock()
		mon.check()
		cs.mu.Unlock()
	}
	if r.Failed() {
		return
	}
	// no faults any more: a candidate must be primary again within a bounded time
	cs.heal()
	if consul {
		truth.(*fakeConsul).healAll()
	}
	cs.mu.Lock()
	cs.stopWork = true
	cs.mu.Unlock()
	cs.s.Fair = true
	deadline := r.SimNow() + 4*truth.TTLDur() + 4*lockDelay + 30*time.Second
	elected := false
	for r.SimNow() < deadline && !r.Failed() {
		if !cs.s.StepOnce(nil, true) {
			time.Sleep(10 * time.Millisecond)
		}
		cs.mu.Lock()
		mon.check()
		cs.mu.Unlock()
		if cs.cl.Primary() != nil {
			elected = true
			break
		}
	}
	if !r.Failed() {
		r.Check(elected, "c08.no-primary", "no candidate became primary within %v after the lease service and the network were healed", 4*truth.TTLDur()+4*lockDelay+30*time.Second)
	}
	cs.quiesce()
	r.State("%v/n%d/nonc%d/%s/handoff%d", consul, nn, len(nonc), strings.Join(dedupe(fired), "+"), r.Stats["c08.handoff.completed"])
}

func dedupe(a []string) []string {
	seen := map[string]bool{}
	var out []string
	for _, s := range a {
		if !seen[s] {
			seen[s] = true
			out = append(out, s)
		}
	}
	return out
}

// c08LeaseFaultActions is the lease-service part of the fault menu.
func c08LeaseFaultActions(r *Run, cs *clusterSim, consul bool, truth leaseTruth, w int, fired *[]string) []Action {
	var acts []Action
	note := func(s string) { *fired = append(*fired, s) }
	if consul {
		fc := truth.(*fakeConsul)
		acts = append(acts,
			Action{Name: "consul-errors", Weight: w, Do: func() { fc.setErrRate(30); note("errors"); r.Count("fault.lease_errors_on") }},
			Action{Name: "consul-ok", Weight: w * 2, Do: func() { fc.setErrRate(0); fc.setDown(false) }},
			Action{Name: "consul-down", Weight: w, Do: func() { fc.setDown(true); note("down"); r.Count("fault.lease_down") }},
			Action{Name: "consul-invalidate", Weight: w, Do: func() {
				if fc.invalidateHolder() {
					note("invalidate")
					r.Count("fault.lease_force_expire")
				}
			}},
		)
		return acts
	}
	svc := cs.cl.Lease
	acts = append(acts,
		Action{Name: "lease-renew-errors", Weight: w, Do: func() { svc.mu.Lock(); svc.RenewErr = 60; svc.mu.Unlock(); note("renew-err") }},
		Action{Name: "lease-acquire-errors", Weight: w, Do: func() { svc.mu.Lock(); svc.AcquireErr = 40; svc.mu.Unlock(); note("acquire-err") }},
		Action{Name: "lease-lost-reply", Weight: w, Do: func() { svc.mu.Lock(); svc.LostReply = 50; svc.mu.Unlock(); note("lost-reply") }},
		Action{Name: "lease-ok", Weight: w * 3, Do: func() {
			svc.mu.Lock()
			svc.RenewErr, svc.AcquireErr, svc.LostReply = 0, 0, 0
			for k := range svc.Down {
				delete(svc.Down, k)
			}
			svc.mu.Unlock()
		}},
	)
	for _, n := range cs.cl.Nodes {
		n := n
		acts = append(acts, Action{Name: "lease-unreachable-" + n.Name, Weight: w, Do: func() {
			svc.mu.Lock()
			svc.Down[n.ID] = true
			svc.mu.Unlock()
			note("unreachable")
			r.Count("fault.lease_unreachable")
		}})
	}
	return acts
}

// c08ClusterID: scenario 3.
func c08ClusterID(r *Run) {
	t := r.Tape
	const idA, idB = "LFSCAAAAAAAAAAAAAAAA", "LFSCBBBBBBBBBBBBBBBB"
	writeID := func(n *Node, id string) {
		_ = os.MkdirAll(n.Dir, 0o777)
		_ = os.WriteFile(filepath.Join(n.Dir, "clusterid"), []byte(id+"\n"), 0o666)
	}
	via := []string{"static", "simlease"}[t.Next(2)]
	repID := []string{"", idA, idB}[t.Next(3)] // the primary's cluster is A
	r.Cfg["via"], r.Cfg["replica_id"] = via, repID
	var p, rep *Node
	var svc *SimLease
	net := NewSimNet(r)
	tune := func(s *litefs.Store) { s.ReconnectDelay = 50 * time.Millisecond }
	if via == "static" {
		p = r.NewNode(NodeCfg{Candidate: true, Tune: tune})
		p.Cfg.Leaser = litefs.NewStaticLeaser(true, p.Name, p.URL())
		rep = r.NewNode(NodeCfg{Candidate: false, Tune: tune})
		rep.Cfg.Leaser = litefs.NewStaticLeaser(false, p.Name, p.URL())
	} else {
		svc = NewSimLease(r, 2*time.Second, time.Second)
		p = r.NewNode(NodeCfg{Candidate: true, Tune: tune})
		p.Cfg.Leaser = svc.Leaser(p)
		rep = r.NewNode(NodeCfg{Candidate: t.Chance(1, 2), Tune: tune})
		rep.Cfg.Leaser = svc.Leaser(rep)
		r.Cfg["replica_candidate"] = rep.Cfg.Candidate
	}
	p.Cfg.Client, rep.Cfg.Client = net.Attach(p), net.Attach(rep)
	r.OnCleanup(func() {
		for _, c := range net.LiveConns() {
			c.reset("teardown")
		}
	})
	writeID(p, idA)
	if repID != "" {
		writeID(rep, repID)
	}
	if err := p.Open(); err != nil || !p.WaitPrimary(10*time.Second) {
		r.Inconclusive("primary: %v", err)
		return
	}
	r.Check(p.Store.ClusterID() == idA, "c08.clusterid", "primary reports cluster id %q, its file says %q", p.Store.ClusterID(), idA)
	h := &hist{r: r, n: p, name: "db", pageSize: 512, jmode: ModeDelete, maxPages: 10}
	if !h.openConns(1) {
		return
	}
	if !c06Commits(r, h, t, t.Range(1, 3), nil) {
		return
	}
	if err := rep.Open(); err != nil {
		r.Inconclusive("replica: %v", err)
		return
	}
	// the primary goes away for a while in some runs: the foreign node must not take over
	primaryLeaves := via == "simlease" && t.Chance(1, 2)
	r.Cfg["primary_leaves"] = primaryLeaves
	deadline := time.Now().Add(time.Duration(t.Range(3, 15)) * time.Second)
	left := false
	for time.Now().Before(deadline) && !r.Failed() {
		time.Sleep(50 * time.Millisecond)
		if primaryLeaves && !left && time.Until(deadline) < 8*time.Second {
			h.closeConns()
			p.Store.Demote()
			left = true
		}
		if repID == idB {
			r.Check(!rep.Store.IsPrimary(), "c08.foreign-primary", "a node whose stored cluster id is %s became primary of cluster %s", idB, idA)
			if db := rep.Store.DB(h.name); db != nil {
				r.Check(db.Pos().TXID == 0, "c08.foreign-replicated", "a node of cluster %s applied transactions of cluster %s (position %s)", idB, idA, db.Pos())
			}
			r.Check(rep.Store.ClusterID() == idB, "c08.clusterid", "the foreign node's cluster id changed to %q", rep.Store.ClusterID())
		}
	}
	if r.Failed() {
		return
	}
	r.Count("c08.clusterid.checked")
	switch repID {
	case idB:
		ents, _ := os.ReadDir(filepath.Join(rep.Dir, "dbs"))
		r.Check(len(ents) == 0, "c08.foreign-replicated", "a node of another cluster created %d database(s) from the stream", len(ents))
		b, _ := os.ReadFile(filepath.Join(rep.Dir, "clusterid"))
		r.Check(strings.TrimSpace(string(b)) == idB, "c08.clusterid", "the foreign node's clusterid file now says %q", strings.TrimSpace(string(b)))
	default:
		// same cluster or no id yet: follows the primary and ends with the primary's id
		if db := h.db(); !left && db != nil && db.Pos().TXID > 0 { // (a database without a transaction is not streamed at all)
			r.Check(waitPos(rep, h.name, db.Pos(), 10*time.Second), "c08.same-cluster-follow", "a node with cluster id %q did not follow the primary of cluster %s", repID, idA)
		}
		r.Check(rep.Store.ClusterID() == idA, "c08.clusterid", "a node that started with cluster id %q and joined cluster %s reports %q", repID, idA, rep.Store.ClusterID())
	}
	r.State("cluster-id/%s/%q/leaves%v", via, repID, primaryLeaves)
	h.closeConns()
}

// c08HandoffSink: the requested node is registered as a subscriber (connected)
// but nobody takes the lease id from its channel - its stream handler is busy
// or its connection is about to go away. A handoff may only complete by
// delivering the id, so the primary must either deliver it or stay primary; it
// must never step down with the lease preserved for a node that did not get it.
func c08HandoffSink(r *Run) {
	t := r.Tape
	svc := NewSimLease(r, 10*time.Second, time.Second)
	n := r.NewNode(NodeCfg{Candidate: true})
	n.Cfg.Leaser = svc.Leaser(n)
	n.Cfg.Tune = func(s *litefs.Store) { s.ReconnectDelay = 50 * time.Millisecond }
	if err := n.Open(); err != nil || !n.WaitPrimary(10*time.Second) {
		r.Inconclusive("open: %v", err)
		return
	}
	_, sess := svc.Holder()
	const target = uint64(0x2222)
	sub := n.Store.SubscribeChangeSet(target)
	closeAfter := time.Duration(t.Range(0, 3)) * time.Second // 0 = stays subscribed
	takes := t.Chance(1, 4)                                  // the subscriber does read its channel after a while
	r.Cfg["close_after"], r.Cfg["takes"] = closeAfter.String(), takes
	got := make(chan string, 1)
	if takes {
		go func() {
			time.Sleep(time.Duration(t.Range(100, 3000)) * time.Millisecond)
			select {
			case id := <-sub.HandoffCh():
				got <- id
			case <-time.After(10 * time.Second):
			}
		}()
	}
	if closeAfter > 0 && !takes {
		go func() { time.Sleep(closeAfter); _ = sub.Close() }()
	}
	ctx, cancel := context.WithTimeout(context.Background(), 8*time.Second)
	err := n.Store.Handoff(ctx, target)
	cancel()
	time.Sleep(7 * time.Second)
	delivered := ""
	select {
	case delivered = <-got:
	default:
	}
	prim := n.Store.IsPrimary()
	holderNode, holderSess := svc.Holder()
	r.Logf("handoff => %v; delivered %q; still primary %v; lease holder n%d %s", err, delivered, prim, holderNode, holderSess)
	r.Count("c08.clusterid.checked") // (counts as a non-trivial run)
	if delivered != "" {
		r.Check(delivered == sess, "c08.handoff-target", "the subscriber received lease id %q, the primary holds %q", delivered, sess)
		r.State("handoff-sink/delivered/primary%v", prim)
		return
	}
	// nobody took the id: the node must still be primary on its own lease
	if !r.Check(prim, "c08.handoff-lost", "the primary stepped down for a handoff (request answered %v) although the requested node never took the lease id; the lease %s is still held in the service by n%d/%s", err, sess, holderNode, holderSess) {
		return
	}
	r.Check(holderSess == sess && svc.SessionLive(sess), "c08.handoff-lost", "after an undelivered handoff the primary's lease %s is no longer the live holder (holder %s)", sess, holderSess)
	r.State("handoff-sink/undelivered/close%v", closeAfter > 0)
}
