package verifsim

import (
	"bytes"
	"fmt"
	"io"
	"os"
	"path/filepath"
	"runtime"
	"runtime/debug"
	"sort"
	"strconv"
	"strings"
	"sync"
	"sync/atomic"
	"syscall"
	"testing/synctest"
	"time"
)

// Violation is the first oracle failure of a run.
type Violation struct {
	Oracle string `json:"oracle"`
	Msg    string `json:"msg"`
	Step   int    `json:"step"`
}

// Run is one simulated execution: one seed, one tape, one bubble.
type Run struct {
	Prop string
	Tier string
	Seed int64
	Tape *Tape
	Dir  string // scratch directory (tmpfs)

	MutexEvery int // with MutexSeam: only every n-th acquisition of a goroutine yields (0/1 = all)

	AtomicSeam bool   // statements with atomic field operations are scheduling points (mutexyield build only)
	MutexSeam  bool   // sync-mutex acquisitions are scheduling points in this run (binary built with bin/build mutex)
	bodyDone   bool   // the check's Run function returned
	bigDir     string // disk-backed scratch directory, if UseDiskScratch was called
	SectorSize uint32 // journal sector size PagerSim connections report (0: 512)

	Cfg    map[string]any   // swarm configuration, recorded for evidence/replay
	Stats  map[string]int64 // fault/probe/step counters
	States map[string]struct{}

	mu     sync.Mutex
	trace  []string
	viol   *Violation
	Steps  int
	Sched  *Sched
	nodes  []*Node
	inconc string // inconclusive reason (harness trouble), never a violation

	driverID   uint64
	simStart   time.Time
	simElapsed time.Duration
	cleanups   []func()
	seqHash    uint64 // hash of scheduling decisions, for interleaving counts / determinism
	Sample     any    // a written-out sample case for evidence
}

var evlog *os.File // optional event log (SIM_EVLOG) for determinism debugging

var progress atomic.Int64 // bumped by drivers; watched by the real-time watchdog

func newRun(prop, tier string, seed int64, tape *Tape, dir string) *Run {
	return &Run{
		Prop: prop, Tier: tier, Seed: seed, Tape: tape, Dir: dir,
		Cfg: map[string]any{}, Stats: map[string]int64{}, States: map[string]struct{}{},
		seqHash: 1469598103934665603,
	}
}

// UseDiskScratch moves the run's scratch directory from tmpfs to a disk-backed
// directory; for the few runs whose files are gigabytes (the lock page at 1 GiB),
// so that sixteen workers doing it at once do not exhaust memory. Must be called
// before the first node is created. The directory is removed when the run ends.
func (r *Run) UseDiskScratch() {
	base := os.Getenv("SIM_BIG_SCRATCH_ROOT")
	if base == "" {
		base = filepath.Join("/var/tmp", fmt.Sprintf("verifsim-big-%d", os.Getpid()))
	}
	d := filepath.Join(base, filepath.Base(r.Dir))
	if err := os.MkdirAll(d, 0o777); err != nil {
		return
	}
	r.bigDir, r.Dir = d, d
	// such a run decodes transaction files of a gigabyte: the per-run memory
	// ceiling (runner.go) would turn into a collector that never stops
	debug.SetMemoryLimit(int64(envInt("SIM_BIG_MEM_LIMIT_MB", 8192)) << 20)
	// ... and several of them at once exhaust the machine (the workers of a
	// batch were killed by the kernel): one at a time, machine-wide. The wait
	// is a blocking system call on the real clock; the watchdog is told.
	if f, err := os.OpenFile("/var/tmp/verifsim-bigrun.lock", os.O_CREATE|os.O_RDWR, 0o666); err == nil {
		bigWait.Store(true)
		_ = syscall.Flock(int(f.Fd()), syscall.LOCK_EX)
		bigWait.Store(false)
		r.OnCleanup(func() { f.Close() })
	}
}

// bigWait is set while a run waits for its turn to be the one big run.
var bigWait atomic.Bool

// Thorough reports whether the run belongs to the thorough tier.
func (r *Run) Thorough() bool { return r.Tier == "thorough" }

// Count bumps a named counter.
func (r *Run) Count(name string) { r.Add(name, 1) }

// Add adds n to a named counter.
func (r *Run) Add(name string, n int64) {
	r.mu.Lock()
	r.Stats[name] += n
	r.mu.Unlock()
}

// State records an abstract state/case identifier for coverage counting.
func (r *Run) State(format string, args ...any) {
	s := fmt.Sprintf(format, args...)
	r.mu.Lock()
	r.States[s] = struct{}{}
	r.mu.Unlock()
}

// Logf appends a line to the run trace. It never draws from the tape or reads
// a real clock.
func (r *Run) Logf(format string, args ...any) {
	r.mu.Lock()
	if len(r.trace) < 6000 {
		r.trace = append(r.trace, fmt.Sprintf("%6d ", r.Steps)+fmt.Sprintf(format, args...))
	}
	r.mu.Unlock()
}

// KnownFinding is one entry of /verif/known-findings.txt handed to the worker:
// a violation with this oracle whose message contains Match is a recorded,
// genuine defect; it is counted and the run goes on, so that other
// violations of the same property are still found.
type KnownFinding struct {
	Oracle string `json:"oracle"`
	Match  string `json:"match"`
	Desc   string `json:"desc"`
}

var knownFindings []KnownFinding

// Failf records a violation (the first one wins).
func (r *Run) Failf(oracle, format string, args ...any) {
	msg := fmt.Sprintf(format, args...)
	for _, k := range knownFindings {
		if k.Oracle == oracle && (k.Match == "" || strings.Contains(msg, k.Match)) {
			r.Count("known-finding:" + k.Desc)
			return
		}
	}
	r.mu.Lock()
	if r.viol == nil {
		r.viol = &Violation{Oracle: oracle, Msg: fmt.Sprintf(format, args...), Step: r.Steps}
		r.trace = append(r.trace, fmt.Sprintf("%6d VIOLATION %s: %s", r.Steps, oracle, r.viol.Msg))
	}
	r.mu.Unlock()
}

// Check records a violation when cond is false and returns cond.
func (r *Run) Check(cond bool, oracle, format string, args ...any) bool {
	if !cond {
		r.Failf(oracle, format, args...)
	}
	return cond
}

// Failed reports whether a violation was recorded.
func (r *Run) Failed() bool {
	r.mu.Lock()
	defer r.mu.Unlock()
	return r.viol != nil || r.inconc != ""
}

// Inconclusive marks the run as harness trouble.
func (r *Run) Inconclusive(format string, args ...any) {
	r.mu.Lock()
	if r.inconc == "" {
		r.inconc = fmt.Sprintf(format, args...)
	}
	r.mu.Unlock()
}

// Step marks driver progress.
func (r *Run) Step() {
	r.Steps++
	progress.Add(1)
}

func (r *Run) mixHash(s string) {
	h := r.seqHash
	for i := 0; i < len(s); i++ {
		h ^= uint64(s[i])
		h *= 1099511628211
	}
	r.seqHash = h
}

// HandlePanic classifies a recovered panic: a node exit sentinel is ignored, a
// panic raised inside LiteFS (or a library it calls) is a violation of the
// running property ("the code panicked"), anything raised by the harness
// itself is harness trouble.
func (r *Run) HandlePanic(rec any, stack []byte) {
	if _, ok := rec.(nodeExit); ok {
		return
	}
	if panicFromSUT(stack) {
		st := string(stack)
		if len(st) > 3000 {
			st = st[:3000]
		}
		r.Failf(strings.ToLower(r.Prop)+".sut-panic", "LiteFS panicked: %v\n%s", rec, st)
		if onFatal != nil {
			onFatal(r) // does not return: locks may be held, the bubble cannot drain
		}
		return
	}
	r.Inconclusive("harness panic: %v\n%s", rec, stack)
}

// panicFromSUT reports whether the innermost non-runtime frame below the
// panic call belongs to code outside the harness.
func panicFromSUT(stack []byte) bool {
	lines := strings.Split(string(stack), "\n")
	seenPanic := false
	for _, l := range lines {
		if strings.HasPrefix(l, "panic(") {
			seenPanic = true
			continue
		}
		if !seenPanic || strings.HasPrefix(l, "\t") || l == "" {
			continue
		}
		if strings.HasPrefix(l, "runtime.") || strings.HasPrefix(l, "runtime/") {
			continue
		}
		return !strings.HasPrefix(l, "github.com/superfly/litefs/verifsim.")
	}
	return false
}

// SimNow returns simulated time since the start of the run.
func (r *Run) SimNow() time.Duration { return time.Since(r.simStart) }

// ---------------------------------------------------------------------------
// goroutine identity

func goid() uint64 {
	var buf [64]byte
	n := runtime.Stack(buf[:], false)
	// "goroutine 123 ["
	b := buf[:n]
	b = b[len("goroutine "):]
	i := bytes.IndexByte(b, ' ')
	id, _ := strconv.ParseUint(string(b[:i]), 10, 64)
	return id
}

// frames that must never be parked below because a sync.Mutex is held across
// seam calls there (DESIGN §3.1).
var noParkFuncs = []string{
	"litefs.(*Store).CreateDB",
	"litefs.(*Store).CreateDBIfNotExists",
	"litefs.(*Store).EnforceHaltLockExpiration",
	"litefs.(*Store).setLease",
	"litefs/fuse.(*RootNode).Create",
	"litefs.(*DB).updateSHM",
	"litefs/fuse.(*LockHandle).lockWaitHalt",
	"litefs/fuse.(*LockHandle).unlockHalt",
	"litefs.(*FileBackupClient).WriteTx",
	"litefs.(*FileBackupClient).PosMap",
	"litefs.(*FileBackupClient).FetchSnapshot",
}

// stackInfo walks the caller's stack once and returns whether a no-park frame
// is present and the name of the root function of the goroutine.
func stackInfo() (noPark bool, root string) {
	var pcs [96]uintptr
	n := runtime.Callers(2, pcs[:])
	fr := runtime.CallersFrames(pcs[:n])
	for {
		f, more := fr.Next()
		if f.Function != "" {
			for _, np := range noParkFuncs {
				if strings.HasSuffix(f.Function, np) {
					noPark = true
				}
			}
			if f.Function != "runtime.goexit" && !strings.HasPrefix(f.Function, "runtime.") {
				root = f.Function
			}
		}
		if !more {
			break
		}
	}
	return noPark, root
}

// ---------------------------------------------------------------------------
// scheduler

// G is a goroutine known to the scheduler.
type G struct {
	Name   string
	id     uint64
	ch     chan struct{}
	seam   string
	detail string
	parked bool
	until  time.Duration // stalled until this simulated time (fault)
	kill   bool          // if set when released, the seam reports "killed"
	inOp   int           // scheduling points passed since the goroutine's last "op" yield (how deep inside an operation it is)
}

// Action is a harness-provided event that can be chosen by the driver.
type Action struct {
	Name   string
	Weight int
	Do     func()
}

// Sched decides which parked goroutine moves next.
type Sched struct {
	r         *Run
	mu        sync.Mutex
	byID      map[uint64]*G
	nameCount map[string]int
	parked    map[*G]struct{}
	driver    uint64
	last      *G
	stopping  atomic.Bool
	Stick     int                    // percent chance of continuing the last goroutine
	Parks     func(seam string) bool // which seams are yield points (nil = all)
	Fair      bool
	MaxTick   time.Duration // cap for time jumps (0 = none); set when goroutines poll on short tickers
	rr        int
}

// NewSched creates the scheduler; must be called by the driver goroutine.
func (r *Run) NewSched() *Sched {
	s := &Sched{r: r, byID: map[uint64]*G{}, nameCount: map[string]int{}, parked: map[*G]struct{}{}, driver: goid(), Stick: 70}
	r.Sched = s
	return s
}

// Go starts a named harness goroutine inside the bubble.
func (s *Sched) Go(name string, fn func()) {
	g := &G{Name: name, ch: make(chan struct{})}
	started := make(chan struct{})
	go func() {
		g.id = goid()
		s.mu.Lock()
		s.byID[g.id] = g
		s.mu.Unlock()
		close(started)
		defer func() {
			s.mu.Lock()
			delete(s.byID, g.id)
			s.mu.Unlock()
			if rec := recover(); rec != nil {
				s.r.HandlePanic(rec, debug.Stack())
			}
		}()
		fn()
	}()
	<-started
}

// IsHarness reports whether the calling goroutine is the driver or was started
// with Go (and therefore recovers the exit sentinel).
func (s *Sched) IsHarness() bool {
	id := goid()
	if id == s.driver {
		return true
	}
	s.mu.Lock()
	g := s.byID[id]
	s.mu.Unlock()
	return g != nil && !strings.HasPrefix(g.Name, "~")
}

// Yield parks the calling goroutine at a seam until the driver releases it.
// Returns true if the goroutine was released with its kill flag set.
func (s *Sched) Yield(node int, seam, detail string) bool {
	if s == nil || s.stopping.Load() {
		return false
	}
	if s.Parks != nil && !s.Parks(seam) {
		return false
	}
	id := goid()
	if id == s.driver {
		return false
	}
	noPark, root := stackInfo()
	if noPark {
		s.r.Count("yield.nopark")
		return false
	}
	s.mu.Lock()
	g := s.byID[id]
	if g == nil {
		// A goroutine started by the system under test: name it by node and
		// root function, numbered in first-yield order.
		short := root
		if i := strings.LastIndex(short, "/"); i >= 0 {
			short = short[i+1:]
		}
		base := fmt.Sprintf("~n%d:%s", node, short)
		s.nameCount[base]++
		g = &G{Name: fmt.Sprintf("%s#%d", base, s.nameCount[base]), id: id, ch: make(chan struct{})}
		s.byID[id] = g
	}
	g.seam, g.detail, g.parked, g.kill = seam, detail, true, false
	if seam == "op" {
		g.inOp = 0
	} else {
		g.inOp++
	}
	s.parked[g] = struct{}{}
	s.mu.Unlock()
	<-g.ch
	return g.kill
}

// Parked returns the parked goroutines sorted by name.
func (s *Sched) Parked() []*G {
	s.mu.Lock()
	defer s.mu.Unlock()
	out := make([]*G, 0, len(s.parked))
	for g := range s.parked {
		out = append(out, g)
	}
	sort.Slice(out, func(i, j int) bool { return out[i].Name < out[j].Name })
	return out
}

func (s *Sched) release(g *G) {
	s.mu.Lock()
	delete(s.parked, g)
	g.parked = false
	s.mu.Unlock()
	s.last = g
	g.ch <- struct{}{}
}

// Settle waits until every other goroutine in the bubble is durably blocked.
func (s *Sched) Settle() { synctest.Wait() }

// StepOnce performs one driver step: wait for quiescence, gather the enabled
// events, take the next tape value and perform exactly one event. actions are
// harness events; tickOK allows advancing time. Returns false when nothing is
// enabled at all (no parked goroutine, no action, and tick not allowed).
func (s *Sched) StepOnce(actions []Action, tickOK bool) bool {
	r := s.r
	synctest.Wait()
	r.Step()
	now := r.SimNow()
	all := s.Parked()
	if evlog != nil {
		var sb strings.Builder
		fmt.Fprintf(&sb, "%d t=%d tape=%d [", r.Steps, now.Microseconds(), r.Tape.Pos())
		for _, g := range all {
			fmt.Fprintf(&sb, "%s@%s:%s ", g.Name, g.seam, g.detail)
		}
		sb.WriteString("]\n")
		evlog.WriteString(sb.String())
	}
	var enabled []*G
	var nextWake time.Duration
	for _, g := range all {
		if g.until > now {
			if nextWake == 0 || g.until < nextWake {
				nextWake = g.until
			}
			continue
		}
		enabled = append(enabled, g)
	}

	if s.Fair {
		// round-robin over parked goroutines, actions and small ticks
		n := len(enabled) + len(actions)
		if tickOK {
			n++
		}
		if n == 0 {
			return false
		}
		s.rr++
		i := s.rr % n
		switch {
		case i < len(enabled):
			g := enabled[i]
			r.mixHash(g.Name + "@" + g.seam)
			s.release(g)
		case i < len(enabled)+len(actions):
			a := actions[i-len(enabled)]
			r.mixHash("!" + a.Name)
			a.Do()
		default:
			d := 50 * time.Millisecond
			if len(enabled) > 0 {
				d = time.Millisecond
			}
			time.Sleep(d)
		}
		return true
	}

	// weighted choice; index 0 is "continue the goroutine that ran last".
	type opt struct {
		g *G
		a *Action
		d time.Duration
	}
	var opts []opt
	var weights []int
	if s.last != nil && s.last.parked && s.last.until <= now {
		opts = append(opts, opt{g: s.last})
		weights = append(weights, s.Stick*4)
	}
	for _, g := range enabled {
		opts = append(opts, opt{g: g})
		weights = append(weights, 100)
	}
	for i := range actions {
		opts = append(opts, opt{a: &actions[i]})
		weights = append(weights, actions[i].Weight)
	}
	if tickOK {
		if len(enabled) > 0 {
			opts = append(opts, opt{d: time.Millisecond})
			weights = append(weights, 25)
		} else {
			w := 100
			opts = append(opts, opt{d: -1})
			weights = append(weights, w)
		}
	}
	if len(opts) == 0 {
		return false
	}
	o := opts[r.Tape.Pick(weights)]
	if evlog != nil {
		var names []string
		for i, op := range opts {
			switch {
			case op.g != nil:
				names = append(names, fmt.Sprintf("%s/%d", op.g.Name, weights[i]))
			case op.a != nil:
				names = append(names, fmt.Sprintf("!%s/%d", op.a.Name, weights[i]))
			default:
				names = append(names, fmt.Sprintf("tick/%d", weights[i]))
			}
		}
		ch := "tick"
		if o.g != nil {
			ch = o.g.Name
		} else if o.a != nil {
			ch = "!" + o.a.Name
		}
		fmt.Fprintf(evlog, "   opts=%v -> %s\n", names, ch)
	}
	switch {
	case o.g != nil:
		r.mixHash(o.g.Name + "@" + o.g.seam)
		s.release(o.g)
	case o.a != nil:
		r.mixHash("!" + o.a.Name)
		r.Logf("action %s", o.a.Name)
		o.a.Do()
	default:
		d := o.d
		if d < 0 {
			// nothing runnable: jump. 0 = shortest useful jump.
			ds := []time.Duration{20 * time.Millisecond, time.Millisecond, 200 * time.Millisecond, time.Second, 5 * time.Second}
			d = ds[r.Tape.Next(len(ds))]
			if nextWake > now && nextWake-now < d {
				d = nextWake - now
			}
			if s.MaxTick > 0 && d > s.MaxTick {
				d = s.MaxTick
			}
		}
		r.mixHash("tick")
		time.Sleep(d)
	}
	return true
}

// Stop makes every later Yield a no-op and releases all parked goroutines so
// that the bubble can drain.
func (s *Sched) Stop() {
	s.stopping.Store(true)
	for {
		synctest.Wait()
		ps := s.Parked()
		if len(ps) == 0 {
			return
		}
		for _, g := range ps {
			s.release(g)
		}
	}
}

// ---------------------------------------------------------------------------
// files

// CopyTree copies a directory tree (regular files and directories only).
func CopyTree(src, dst string) error {
	return filepath.Walk(src, func(p string, fi os.FileInfo, err error) error {
		if err != nil {
			if os.IsNotExist(err) {
				return nil
			}
			return err
		}
		rel, _ := filepath.Rel(src, p)
		target := filepath.Join(dst, rel)
		if fi.IsDir() {
			return os.MkdirAll(target, 0o777)
		}
		if !fi.Mode().IsRegular() {
			return nil
		}
		if fi.Size() > 64<<20 {
			// a sparse file (LiteFS wrote a page far beyond the end): copy the data extents only
			if err := copySparse(p, target); err != nil {
				return err
			}
			return os.Chtimes(target, fi.ModTime(), fi.ModTime())
		}
		b, err := os.ReadFile(p)
		if err != nil {
			if os.IsNotExist(err) {
				return nil
			}
			return err
		}
		if err := os.WriteFile(target, b, 0o666); err != nil {
			return err
		}
		return os.Chtimes(target, fi.ModTime(), fi.ModTime())
	})
}

// copySparse copies a file extent by extent (SEEK_DATA / SEEK_HOLE).
func copySparse(src, dst string) error {
	in, err := os.Open(src)
	if err != nil {
		return err
	}
	defer in.Close()
	out, err := os.Create(dst)
	if err != nil {
		return err
	}
	defer out.Close()
	fi, err := in.Stat()
	if err != nil {
		return err
	}
	const seekData, seekHole = 3, 4
	off := int64(0)
	for off < fi.Size() {
		d, err := syscall.Seek(int(in.Fd()), off, seekData)
		if err != nil { // ENXIO: no more data
			break
		}
		h, err := syscall.Seek(int(in.Fd()), d, seekHole)
		if err != nil {
			h = fi.Size()
		}
		buf := make([]byte, h-d)
		if _, err := in.ReadAt(buf, d); err != nil && err != io.EOF {
			return err
		}
		if _, err := out.WriteAt(buf, d); err != nil {
			return err
		}
		off = h
	}
	return out.Truncate(fi.Size())
}
