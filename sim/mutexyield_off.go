//go:build !mutexyield

package verifsim

// MutexYieldBuilt: see mutexyield_on.go.
const MutexYieldBuilt = false

func installMutexSeam(r *Run) {}
