package verifsim

import (
	"bytes"
	"context"
	"encoding/binary"
	"fmt"
	"io"
	"os"
	"sort"
	"strings"
	"time"

	"github.com/superfly/litefs"
	lhttp "github.com/superfly/litefs/http"
	"github.com/superfly/ltx"
)

func init() {
	register(&CheckDef{
		ID:    "C20",
		Level: "exploration",
		Rule:  "seeded request generator over all API endpoints (/stream /tx /halt /handoff /promote /import /export /info /events plus unknown paths) x methods x parameters (missing, empty, unknown, malformed, own/foreign node id) x bodies (empty, truncated at any byte, garbage, hostile position map, valid) x HTTP/1.1 vs h2 shape x node role (primary, replica, node without a primary); each request is served by the node's real root handler in-process (a handler panic is what net/http turns into a dropped connection without a response). Oracle: every request ends with a status and no panic (long-lived /stream and /events are hung up on by a fake-clock timeout), afterwards /info answers and a commit on the primary still succeeds, and for requests that are malformed, refused for the role, or name a database/lock that must already exist the digest of databases, positions, LTX directories and lock states is unchanged. One run in forty is a well-formed GET /events whose client stops reading while more transactions are committed than the subscriber's buffer holds: every commit returns, /info answers, the request ends when the client goes away (a goroutine of the node waiting for a mutex with nothing else able to run is reported as a deadlock of the node). evaluations = requests; distinct = distinct (role, endpoint, method, parameter class, body class) tuples; non-trivial = run with >= 10 requests",
		Run:   runC20,
		NonTrivial: func(r *Run) bool {
			return r.Stats["c20.requests"] >= 10
		},
		Assumptions: []string{
			"handlers are invoked in-process through the real root handler (h2c wrapper included); the HTTP framing layer itself (net/http, x/net/http2) is not under test",
			"/promote on a replica that knows a primary is not exercised: the handler builds its own real network client",
		},
		Real: []string{"litefs/http Server.serveHTTP and all handlers", "litefs.Store / DB behind them", "litefs/fuse (for the not-wedged commit)"},
		Stub: []string{"in-process ResponseWriter", "ScriptClient (scripted primary for the replica role)", "SimLease (node without a primary)"},
	})
}

// digestDB summarises one database: position, logical image, log files, locks.
func digestDB(db *litefs.DB) string {
	var sb strings.Builder
	pos := db.Pos()
	fmt.Fprintf(&sb, "[%q pos=%s", db.Name(), pos)
	if im, err := ReadDiskImage(db.Path()); err == nil {
		fmt.Fprintf(&sb, " img=%d/%016x", im.N(), im.Checksum())
	} else {
		fmt.Fprintf(&sb, " img-err=%v", err)
	}
	files, _, _ := ListLTX(db.LTXDir())
	fmt.Fprintf(&sb, " ltx=%v", files)
	ls := db.VerifLockStates()
	var keys []int
	for k := range ls {
		keys = append(keys, int(k))
	}
	sort.Ints(keys)
	for _, k := range keys {
		fmt.Fprintf(&sb, " %d:%d", k, ls[litefs.LockType(k)])
	}
	if hl := db.VerifHaltLock(); hl != nil {
		fmt.Fprintf(&sb, " halt=%d", hl.ID)
	}
	if db.HasRemoteHaltLock() {
		sb.WriteString(" remote-halt")
	}
	sb.WriteString("]")
	return sb.String()
}

// digestNode summarises everything an invalid request must leave unchanged.
func digestNode(n *Node) string {
	var sb strings.Builder
	dbs := n.Store.DBs()
	sort.Slice(dbs, func(i, j int) bool { return dbs[i].Name() < dbs[j].Name() })
	fmt.Fprintf(&sb, "dbs=%d;", len(dbs))
	for _, db := range dbs {
		sb.WriteString(digestDB(db))
	}
	// who the node believes is connected to it as a replica (a request that was
	// refused must not leave its sender registered: handoffs go to that list)
	fmt.Fprintf(&sb, "subscribers=%d;", StreamSubscribers(n.Store))
	return sb.String()
}

type c20req struct {
	method, target string
	hdr            map[string]string
	body           []byte
	http1          bool
	mustNotChange  bool
	class          string
	haltAcquired   int64 // lock id to release afterwards
	preHalt        bool  // acquire the halt lock (id 5) before the request, release it afterwards
	haltDB         string
}

// stallSink lets the first n writes through and then blocks (a client that
// stops reading: the socket buffers are full) until released.
type stallSink struct {
	n       int
	release chan struct{}
	wrote   int
}

func (s *stallSink) Write(p []byte) (int, error) {
	s.wrote++
	if s.wrote > s.n {
		<-s.release
	}
	return len(p), nil
}

// c20StalledEvents: a well-formed GET /events whose client stops reading while
// the node goes on committing - more events than the subscriber's buffer holds.
// The node must not wedge: every commit returns, /info answers, and when the
// client finally goes away its request ends.
func c20StalledEvents(r *Run) {
	t := r.Tape
	const dbName = "db"
	p := newStaticPrimary(r, false, nil)
	if p == nil {
		return
	}
	h := &hist{r: r, n: p, name: dbName, pageSize: 512, jmode: ModeDelete, maxPages: 3}
	if !h.openConns(1) {
		return
	}
	h.commit(t)
	if r.Failed() || h.ref.N() == 0 {
		return
	}
	sink := &stallSink{n: t.Range(1, 3), release: make(chan struct{})}
	ctx, cancel := context.WithCancel(context.Background())
	defer cancel()
	done := make(chan HTTPResult, 1)
	go func() { done <- p.HTTPTo(ctx, "GET", "/events", sink) }()
	time.Sleep(10 * time.Millisecond)
	n := litefs.EventChannelBufferSize + t.Range(2, 40)
	c := h.conns[0]
	for i := 0; i < n && !r.Failed(); i++ {
		c.Mode = h.jmode
		res := c.WriteTx(TxProgram{NewSize: h.ref.N(), Outcome: OutCommit, Modify: []uint32{1}}, h.ref)
		if res.Outcome != OutCommit {
			r.Failf("c20.events-stall", "commit %d of %d while a /events client is stalled was refused at %s: %v", i, n, res.FailedAt, res.Errno)
			return
		}
		h.ref = res.After
		r.Step()
	}
	r.Count("c20.events.stalled-client")
	ictx, icancel := context.WithTimeout(context.Background(), 5*time.Second)
	info := p.HTTP(ictx, "GET", "/info", nil, nil, false)
	icancel()
	r.Check(info.Code == 200 && !info.Panicked, "c20.events-stall", "after %d commits with a stalled /events client GET /info answers %d %s", n, info.Code, info.PanicMsg)
	close(sink.release)
	cancel()
	select {
	case res := <-done:
		r.Check(!res.Panicked, "c20.panic", "GET /events panicked: %s", res.PanicMsg)
	case <-time.After(10 * time.Second):
		r.Failf("c20.events-stall", "the /events request of a client that went away has not ended after 10 s")
	}
	if res, _ := h.commit(t); res == "" {
		_ = res
	}
	checkNodeHealthy(r, p, "c20")
	r.State("events-stall/%d", sink.n)
}

func runC20(r *Run) {
	t := r.Tape
	if t.Chance(1, 40) {
		r.Cfg["role"] = "stalled-events-client"
		c20StalledEvents(r)
		return
	}
	role := []string{"primary", "replica", "orphan"}[t.Pick([]int{5, 3, 2})]
	r.Cfg["role"] = role
	pageSize := uint32(512)
	const dbName = "db"

	// a primary with some history is needed in every role (source of valid bodies)
	p := newStaticPrimary(r, false, nil)
	if p == nil {
		return
	}
	h := &hist{r: r, n: p, name: dbName, pageSize: pageSize, jmode: ModeDelete, maxPages: 30}
	if !h.openConns(1) {
		return
	}
	for i := 0; i < 3; i++ {
		h.commit(t)
	}
	if t.Chance(1, 3) && h.ref.N() > 0 {
		h.toWAL()
		h.commit(t)
	}
	if r.Failed() {
		return
	}
	target := p
	switch role {
	case "replica":
		sc := NewScriptClient(r, p.Store.ClusterID())
		rep := r.NewNode(NodeCfg{Candidate: t.Chance(1, 2), Client: sc})
		rep.Cfg.Leaser = litefs.NewStaticLeaser(false, "p", "http://p:20202")
		rep.Cfg.Tune = func(s *litefs.Store) { s.ReconnectDelay = 20 * time.Millisecond }
		if err := rep.Open(); err != nil {
			r.Inconclusive("open replica: %v", err)
			return
		}
		if st := sc.WaitStream(2 * time.Second); st != nil {
			if b, pos, err := SnapshotBytes(p.Store.DB(dbName)); err == nil {
				st.Push(EncodeLTXFrame(dbName, b))
				waitPos(rep, dbName, pos, 2*time.Second)
			}
		}
		target = rep
	case "orphan":
		lease := NewSimLease(r, 5*time.Second, 0)
		o := r.NewNode(NodeCfg{Candidate: false})
		o.Cfg.Leaser = lease.Leaser(o)
		o.Cfg.Client = NewScriptClient(r, "")
		o.Cfg.Tune = func(s *litefs.Store) { s.ReconnectDelay = 50 * time.Millisecond }
		// start from a copy of the primary's data so that it has a database
		_ = CopyTree(p.Dir, o.Dir)
		_ = os.Remove(o.Dir + "/clusterid")
		if err := o.Open(); err != nil {
			r.Inconclusive("open orphan: %v", err)
			return
		}
		target = o
	}
	ownID := litefs.FormatNodeID(target.Store.ID())
	foreignID := litefs.FormatNodeID(777)

	validLTX := func() []byte {
		// next transaction of the primary's database as an LTX file (valid for /tx on the primary)
		db := p.Store.DB(dbName)
		pos := db.Pos()
		hdr := ltx.Header{Version: 1, PageSize: pageSize, Commit: h.ref.N(), MinTXID: pos.TXID + 1, MaxTXID: pos.TXID + 1, Timestamp: 1, PreApplyChecksum: pos.PostApplyChecksum, NodeID: 777}
		pg := MakePage(pageSize, 99, 1, 2, 5, nil)
		newIm := h.ref.Clone()
		if newIm.N() < 2 {
			return nil
		}
		newIm.Pages[1] = pg
		b, err := BuildLTX(hdr, map[uint32][]byte{2: pg}, ltx.Checksum(newIm.Checksum()))
		if err != nil {
			return nil
		}
		return b
	}
	posMapBytes := func(m map[string]ltx.Pos) []byte {
		var b bytes.Buffer
		_ = lhttp.WritePosMapTo(&b, m)
		return b.Bytes()
	}

	gen := func() c20req {
		q := c20req{hdr: map[string]string{}}
		ep := []string{"/stream", "/tx", "/halt", "/handoff", "/promote", "/import", "/export", "/info", "/events", "/nosuch", "/debug/vars", "/halt/x"}[t.Pick([]int{12, 14, 16, 8, 5, 12, 8, 4, 4, 3, 1, 2})]
		methods := []string{"GET", "POST", "DELETE", "PUT", "HEAD", "PATCH"}
		q.method = methods[t.Pick([]int{25, 40, 15, 8, 6, 6})]
		names := []string{dbName, "", "nosuch", "../x", strings.Repeat("n", 300)}
		name := names[t.Pick([]int{50, 15, 20, 8, 7})]
		nameParam := "name=" + name
		switch t.Pick([]int{70, 12, 10, 8}) {
		case 1:
			nameParam = "" // missing
		case 2:
			nameParam = "name=" + name + "&name=other"
		case 3:
			nameParam = "Name=" + name // unknown parameter
		}
		idHdr := []string{"", foreignID, ownID, "zz", strings.Repeat("F", 17)}[t.Pick([]int{20, 45, 15, 10, 10})]
		if idHdr != "" {
			q.hdr[lhttp.HeaderNodeID] = idHdr
		}
		q.http1 = t.Chance(1, 4)
		q.class = "other"
		q.mustNotChange = true
		dbExists := target.Store.DB(name) != nil && strings.HasPrefix(nameParam, "name=")
		isPrimary := target.Store.IsPrimary()
		switch ep {
		case "/halt":
			ids := []string{"5", "", "abc", "-1", "0", "99999999999999999999"}
			id := ids[t.Pick([]int{50, 10, 15, 8, 8, 9})]
			q.target = "/halt?" + nameParam + "&id=" + id
			if t.Chance(1, 8) {
				q.target = "/halt"
			}
			valid := (id == "5" || id == "-1") && idHdr != ownID
			q.class = fmt.Sprintf("halt/%s/id=%v/db=%v", q.method, valid, dbExists)
			nameOK := strings.HasPrefix(nameParam, "name=") && name != ""
			if q.method == "POST" && valid && nameOK && isPrimary && !strings.Contains(q.target, "/halt?") == false {
				// a legitimate acquire on the primary; /halt creates the database
				// if needed (a replica may create a new database under a halt lock)
				q.mustNotChange = false
				q.haltAcquired, q.haltDB = 5, name
				if id == "-1" {
					q.haltAcquired = -1
				}
			}
		case "/tx":
			q.target = "/tx?" + nameParam + "&lockID=5"
			body := t.Pick([]int{15, 20, 20, 25, 20})
			switch body {
			case 0:
			case 1:
				q.body = make([]byte, t.Range(1, 300))
				t.Bytes(q.body)
			case 2:
				if b := validLTX(); b != nil {
					q.body = b[:t.Range(0, len(b)-1)] // truncated at any byte
				}
			case 3:
				q.body = validLTX()
			case 4:
				// a snapshot-shaped file (TXID range starting at 1) that is cut
				// short or corrupted: it must be refused without touching anything
				if sb, _, err := SnapshotBytes(p.Store.DB(dbName)); err == nil && len(sb) > 120 {
					if t.Chance(1, 2) {
						q.body = sb[:t.Range(100, len(sb)-1)]
					} else {
						q.body = append([]byte(nil), sb...)
						q.body[t.Range(100, len(sb)-1)] ^= 0x40
					}
				}
			}
			// half of the forwarded files on the primary come from a node that
			// really holds the database's halt lock (id 5)
			if q.method == "POST" && dbExists && target == p && idHdr == foreignID && strings.HasPrefix(nameParam, "name=") && name == dbName && t.Chance(1, 2) {
				q.preHalt = true
			}
			if q.preHalt && t.Chance(1, 4) {
				// a file that extends the position, verifies, but whose pages do
				// not produce the post-apply checksum it states
				if b := validLTX(); b != nil {
					if f, err := DecodeLTX(bytes.NewReader(b)); err == nil {
						if wb, err := BuildLTX(f.Header, f.Pages, f.Trailer.PostApplyChecksum^0x10); err == nil {
							q.body, body = wb, 5
						}
					}
				}
			}
			q.class = fmt.Sprintf("tx/%s/body%d/db=%v/halt=%v", q.method, body, dbExists, q.preHalt)
			if q.method == "POST" && body == 3 && q.body != nil && dbExists && target == p && idHdr != ownID {
				// well-formed file extending the primary's position: not in the
				// must-not-change class (whether it should be accepted without a
				// halt lock is C13's subject)
				q.mustNotChange = false
			}
		case "/import":
			q.target = "/import?" + nameParam
			body := t.Pick([]int{20, 30, 25, 25})
			im := MakeImage(pageSize, uint32(t.Range(1, 10)), false, 3)
			switch body {
			case 0:
			case 1:
				q.body = make([]byte, t.Range(1, 700))
				t.Bytes(q.body)
			case 2:
				b := im.Bytes()
				q.body = b[:t.Range(1, len(b)-1)]
			case 3:
				q.body = im.Bytes()
			}
			q.class = fmt.Sprintf("import/%s/body%d/primary=%v", q.method, body, isPrimary)
			if q.method == "POST" && body == 3 && isPrimary && strings.HasPrefix(nameParam, "name=") && name != "" {
				q.mustNotChange = false
			}
		case "/export":
			q.target = "/export?" + nameParam
			q.class = fmt.Sprintf("export/%s/db=%v", q.method, dbExists)
		case "/handoff":
			nid := []string{foreignID, "", "xyz", ownID}[t.Next(4)]
			q.target = "/handoff?nodeID=" + nid
			q.class = fmt.Sprintf("handoff/%s/%d", q.method, len(nid))
		case "/promote":
			q.target = "/promote"
			q.class = "promote/" + q.method
			if !isPrimary && target.Store.Candidate() {
				if _, info := target.Store.PrimaryInfo(); info != nil {
					q.method = "GET" // avoid the real network client (see assumptions)
				}
			}
		case "/stream":
			q.target = "/stream"
			if t.Chance(1, 3) {
				q.target += "?filter=" + name
			}
			body := t.Pick([]int{15, 25, 20, 20, 20})
			switch body {
			case 0:
			case 1:
				q.body = posMapBytes(map[string]ltx.Pos{dbName: {TXID: 1, PostApplyChecksum: 0x8000000000000001}})
			case 2:
				b := posMapBytes(map[string]ltx.Pos{dbName: {TXID: 1, PostApplyChecksum: 0x8000000000000001}, "x": {}})
				q.body = b[:t.Range(0, len(b)-1)]
			case 3:
				q.body = make([]byte, 4+t.Range(0, 20))
				t.Bytes(q.body)
				binary.BigEndian.PutUint32(q.body, []uint32{1 << 20, 1 << 26, 0xffffffff}[t.Next(3)])
			case 4:
				q.body = make([]byte, t.Range(1, 64))
				t.Bytes(q.body)
			}
			q.class = fmt.Sprintf("stream/%s/body%d/h1=%v/primary=%v", q.method, body, q.http1, isPrimary)
			// /stream never changes databases, positions, logs or locks of the server
		case "/info", "/events", "/nosuch", "/debug/vars", "/halt/x":
			q.target = ep
			q.class = ep + "/" + q.method
		}
		return q
	}

	var sample []string
	nreq := t.Range(10, 40)
	for i := 0; i < nreq && !r.Failed(); i++ {
		r.Step()
		q := gen()
		if q.preHalt {
			h.closeConns()
			hr := target.HTTP(context.Background(), "POST", fmt.Sprintf("/halt?name=%s&id=5", dbName), map[string]string{lhttp.HeaderNodeID: foreignID}, nil, false)
			if hr.Code != 200 {
				q.preHalt = false
			}
		}
		before := digestNode(target)
		dirBefore := map[string]bool{}
		if ents, err := os.ReadDir(target.Dir); err == nil {
			for _, e := range ents {
				dirBefore[e.Name()] = true
			}
		}
		ctx, cancel := context.WithTimeout(context.Background(), 3*time.Second)
		var body io.Reader
		if q.body != nil {
			body = bytes.NewReader(q.body)
		}
		res := target.HTTP(ctx, q.method, q.target, q.hdr, body, q.http1)
		cancel()
		r.Count("c20.requests")
		r.State("%s/%s", role, q.class)
		line := fmt.Sprintf("%s %s %s hdr=%v body=%d -> %d", role, q.method, q.target, q.hdr, len(q.body), res.Code)
		if len(sample) < 40 {
			sample = append(sample, line)
		}
		r.Logf("%s", line)
		if !r.Check(!res.Panicked, "c20.panic", "%s %s (role %s, node-id header %q, %d body bytes) panicked inside the handler: %s", q.method, q.target, role, q.hdr[lhttp.HeaderNodeID], len(q.body), res.PanicMsg) {
			break
		}
		if target.Exited {
			r.Failf("c20.exit", "%s %s (role %s) made the node exit(%d)", q.method, q.target, role, target.ExitCode)
			break // the node is gone (also when this is a recorded finding)
		}
		r.Check(res.Code >= 100 && res.Code < 600, "c20.status", "%s %s: status %d", q.method, q.target, res.Code)
		after := digestNode(target)
		// nothing may be created outside the dbs/ directory of the data directory
		if ents, err := os.ReadDir(target.Dir); err == nil {
			for _, e := range ents {
				if n := e.Name(); !dirBefore[n] && n != "dbs" && n != "clusterid" && n != "clusterid.tmp" && n != "id" {
					r.Failf("c20.path-escape", "%s %s (role %s) created %q in the data directory, outside dbs/", q.method, q.target, role, n)
				}
			}
		}
		if r.Failed() {
			break
		}
		if q.mustNotChange && after != before {
			if strings.HasPrefix(after, "dbs=") && onlyNewEmptyDB(target, before) {
				r.Failf("c20.changed.new-empty-db", "%s %s (role %s, %d body bytes, status %d) failed but left a new, empty database registered on the node", q.method, q.target, role, len(q.body), res.Code)
				break
			}
			r.Failf("c20.changed", "%s %s (role %s, node-id header %q, %d body bytes, status %d) is malformed / not allowed for the role / names something that must already exist, yet it changed the node:\n before: %s\n after:  %s", q.method, q.target, role, q.hdr[lhttp.HeaderNodeID], len(q.body), res.Code, before, after)
			break
		}
		if q.preHalt && !target.Exited {
			target.HTTP(context.Background(), "DELETE", fmt.Sprintf("/halt?name=%s&id=5", dbName), map[string]string{lhttp.HeaderNodeID: foreignID}, nil, false)
		}
		if len(h.conns) == 0 && !target.Exited && !r.Failed() {
			if im, err := ReadDiskImage(p.Store.DBPath(dbName)); err == nil && p.Store.DB(dbName) != nil {
				h.ref = im
			}
			h.openConns(1)
		}
		// undo legitimate state changes so that later requests start clean
		if q.haltAcquired != 0 && res.Code == 200 {
			rel := target.HTTP(context.Background(), "DELETE", fmt.Sprintf("/halt?name=%s&id=%d", q.haltDB, q.haltAcquired), map[string]string{lhttp.HeaderNodeID: foreignID}, nil, false)
			r.Check(!rel.Panicked && rel.Code == 200, "c20.release", "releasing a granted halt lock failed: %d %s", rel.Code, rel.PanicMsg)
		}
		if !q.mustNotChange && target == p && after != before {
			// a valid import or forwarded transaction changed the primary: refresh the reference
			if im, err := ReadDiskImage(p.Store.DBPath(dbName)); err == nil {
				h.ref = im
			}
			h.openConns(1)
		}
		// not wedged: /info answers and the primary still commits
		info := target.HTTP(context.Background(), "GET", "/info", nil, nil, false)
		if !r.Check(!info.Panicked && info.Code == 200, "c20.wedged", "GET /info after %s %s: %d %s", q.method, q.target, info.Code, info.PanicMsg) {
			break
		}
		if target == p && i%4 == 3 {
			empty := h.ref.N() == 0 // (a rolled-back first transaction of a database that does not exist yet is answered with an error: DESIGN section 16)
			if desc, ok := h.commit(t); !ok && !r.Failed() && !empty {
				if strings.Contains(desc, "busy") || strings.Contains(desc, "error") {
					r.Failf("c20.wedged", "after %s %s the primary no longer commits (%s): a lock or halt was leaked", q.method, q.target, desc)
				}
			}
		}
	}
	h.closeConns()
	r.Sample = map[string]any{"requests": sample}
}

// onlyNewEmptyDB reports whether the only difference to the digest taken
// before is one or more additional databases at position zero.
func onlyNewEmptyDB(n *Node, before string) bool {
	var sb strings.Builder
	dbs := n.Store.DBs()
	sort.Slice(dbs, func(i, j int) bool { return dbs[i].Name() < dbs[j].Name() })
	var keep []*litefs.DB
	for _, db := range dbs {
		if db.Pos().TXID == 0 && db.Name() != "" && !strings.Contains(before, fmt.Sprintf("[%q ", db.Name())) {
			continue // (a database without a name is not "the database the request named")
		}
		keep = append(keep, db)
	}
	if len(keep) == len(dbs) {
		return false
	}
	fmt.Fprintf(&sb, "dbs=%d;", len(keep))
	for _, db := range keep {
		sb.WriteString(digestDB(db))
	}
	fmt.Fprintf(&sb, "subscribers=%d;", StreamSubscribers(n.Store))
	return sb.String() == before
}
