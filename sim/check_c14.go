package verifsim

import (
	"bytes"
	"context"
	"encoding/json"
	"fmt"
	"io"
	"net/http"
	"net/url"
	"os"
	"path/filepath"
	"sort"
	"strings"
	"sync"
	"sync/atomic"
	"syscall"
	"time"

	"github.com/superfly/litefs"
	"github.com/superfly/litefs/lfsc"
	"github.com/superfly/ltx"
)

func init() {
	register(&CheckDef{
		ID:    "C14",
		Level: "exploration",
		Rule: "seeded histories on a real primary with a backup service, through both real backup clients: the file-based client on a directory, and the LiteFS Cloud client talking to an in-process server that implements the protocol (GET /pos, POST /db/tx with the contiguity rule, EPOSMISMATCH errors and the Litefs-Hwm header, GET /db/snapshot). Steps between syncs: commits in rollback and WAL mode (also more than the 256-file compaction limit), drop and recreate, retention sweeps that remove local files the service does not have yet, uploads that fail before, in the middle of, or after the body (the service may or may not have taken the file), and manipulations of the service: position behind / equal / ahead on the same history / forked (same TXID, other checksum; other history altogether) / database missing. Oracles after every sync that reports success: the service holds a contiguous, verifying chain; if no restore happened its position is a position of the primary's history (a prefix) and, when the sync moved everything, equals the primary's position and restores (all files compacted and applied) to exactly the primary's image; when the service was ahead, forked or could not be extended the primary ends up with exactly the service's image and position and the service's files are untouched; the published high-water mark never exceeds the highest TXID the service acknowledged; after a failed upload the service chain is still contiguous and the next sync succeeds. Background-stream runs (nobody but the primary touches the service): at every observation the primary has not moved to a position outside or earlier in its own history, the service chain is contiguous and a prefix of that history, the high-water mark is behind the acknowledgements, and once the service stays reachable the backlog drains within 8 rounds of (commit, wait). evaluations = syncs; distinct = distinct (client, relation before the sync, fault, outcome) tuples; non-trivial = run with >= 1 incremental upload and >= 1 restore or fault",
		Run:   runC14,
		NonTrivial: func(r *Run) bool {
			return r.Stats["c14.sync.checked"] > 0 || (r.Stats["c14.race.checked"] > 0 && r.Stats["c14.race.commit"] > 0)
		},
		Assumptions: []string{"the LiteFS Cloud server is a model written from the client's protocol (same contiguity rule as the file client); two thirds of the runs issue syncs explicitly (Store.SyncBackup); one third runs the background stream (monitorPrimaryBackup with its cached position map, retry ticker, batching delay and full-sync interval) on the fake clock with service outages, without manipulating the service"},
		Real:        []string{"Store.streamBackup / streamBackupDB / streamBackupDBSnapshot / restoreDBFromBackup, ltx.Compactor, litefs.FileBackupClient, lfsc.BackupClient, retention with HWM"},
		Stub:        []string{"LiteFS Cloud server model (scenario lfsc)", "SimKernel", "PagerSim"},
	})
}

// c14svc is the harness's view of the backup service for one database.
type c14svc interface {
	files(name string) (names []string, data [][]byte) // sorted
	put(name string, fname string, data []byte)        // manipulate
	wipe(name string)
	client() litefs.BackupClient
	kind() string
}

// file based ---------------------------------------------------------------

type c14file struct {
	dir string
	c   *litefs.FileBackupClient
}

func (s *c14file) kind() string                { return "file" }
func (s *c14file) client() litefs.BackupClient { return s.c }
func (s *c14file) files(name string) ([]string, [][]byte) {
	ents, _ := os.ReadDir(filepath.Join(s.dir, name))
	var names []string
	for _, e := range ents {
		if strings.HasSuffix(e.Name(), ".ltx") {
			names = append(names, e.Name())
		}
	}
	sort.Strings(names)
	var data [][]byte
	for _, n := range names {
		b, _ := os.ReadFile(filepath.Join(s.dir, name, n))
		data = append(data, b)
	}
	return names, data
}
func (s *c14file) put(name, fname string, data []byte) {
	_ = os.MkdirAll(filepath.Join(s.dir, name), 0o777)
	_ = os.WriteFile(filepath.Join(s.dir, name, fname), data, 0o666)
}
func (s *c14file) wipe(name string) { _ = os.RemoveAll(filepath.Join(s.dir, name)) }

// LiteFS Cloud model ---------------------------------------------------------

type c14cloud struct {
	mu    sync.Mutex
	dbs   map[string]map[string][]byte // db -> filename -> bytes
	c     *lfsc.BackupClient
	store func() *litefs.Store
}

func (s *c14cloud) kind() string                { return "lfsc" }
func (s *c14cloud) client() litefs.BackupClient { return s.c }
func (s *c14cloud) files(name string) ([]string, [][]byte) {
	s.mu.Lock()
	defer s.mu.Unlock()
	var names []string
	for n := range s.dbs[name] {
		names = append(names, n)
	}
	sort.Strings(names)
	var data [][]byte
	for _, n := range names {
		data = append(data, s.dbs[name][n])
	}
	return names, data
}
func (s *c14cloud) put(name, fname string, data []byte) {
	s.mu.Lock()
	defer s.mu.Unlock()
	if s.dbs[name] == nil {
		s.dbs[name] = map[string][]byte{}
	}
	s.dbs[name][fname] = data
}
func (s *c14cloud) wipe(name string) { s.mu.Lock(); delete(s.dbs, name); s.mu.Unlock() }

func (s *c14cloud) pos(name string) ltx.Pos {
	names, data := s.files(name)
	if len(names) == 0 {
		return ltx.Pos{}
	}
	f, err := DecodeLTX(bytes.NewReader(data[len(data)-1]))
	if err != nil {
		return ltx.Pos{}
	}
	return ltx.Pos{TXID: f.Header.MaxTXID, PostApplyChecksum: f.Trailer.PostApplyChecksum}
}

func (s *c14cloud) RoundTrip(req *http.Request) (*http.Response, error) {
	resp := func(code int, body string, hdr map[string]string) (*http.Response, error) {
		h := http.Header{}
		for k, v := range hdr {
			h.Set(k, v)
		}
		h.Set("Lfsc-Instance-Id", "inst1")
		return &http.Response{StatusCode: code, Status: fmt.Sprint(code), Header: h, Body: io.NopCloser(strings.NewReader(body)), Request: req, Proto: "HTTP/1.1", ProtoMajor: 1, ProtoMinor: 1}, nil
	}
	name := req.URL.Query().Get("db")
	switch {
	case req.Method == "GET" && req.URL.Path == "/pos":
		s.mu.Lock()
		var names []string
		for n := range s.dbs {
			names = append(names, n)
		}
		s.mu.Unlock()
		m := map[string]ltx.Pos{}
		for _, n := range names {
			m[n] = s.pos(n)
		}
		b, _ := json.Marshal(m)
		return resp(200, string(b), nil)
	case req.Method == "POST" && req.URL.Path == "/db/tx":
		body, err := io.ReadAll(req.Body)
		req.Body.Close()
		if err != nil {
			return resp(400, `{"code":"EBADREQ","error":"short body"}`, nil)
		}
		f, err := DecodeLTX(bytes.NewReader(body))
		if err != nil {
			return resp(400, fmt.Sprintf(`{"code":"EINVALID","error":%q}`, err.Error()), nil)
		}
		cur := s.pos(name)
		if cur.TXID+1 != f.Header.MinTXID || cur.PostApplyChecksum != f.Header.PreApplyChecksum {
			b, _ := json.Marshal(map[string]any{"code": "EPOSMISMATCH", "error": "position mismatch", "pos": cur})
			return resp(409, string(b), nil)
		}
		s.put(name, ltx.FormatFilename(f.Header.MinTXID, f.Header.MaxTXID), body)
		return resp(200, "", map[string]string{"Litefs-Hwm": f.Header.MaxTXID.String()})
	case req.Method == "GET" && req.URL.Path == "/db/snapshot":
		_, data := s.files(name)
		if len(data) == 0 {
			return resp(404, `{"code":"ENOTFOUND","error":"no such database"}`, nil)
		}
		var rdrs []io.Reader
		for _, d := range data {
			rdrs = append(rdrs, bytes.NewReader(d))
		}
		var out bytes.Buffer
		c := ltx.NewCompactor(&out, rdrs)
		c.HeaderFlags = ltx.HeaderFlagCompressLZ4
		if err := c.Compact(req.Context()); err != nil {
			return resp(500, fmt.Sprintf(`{"code":"EINTERNAL","error":%q}`, err.Error()), nil)
		}
		return resp(200, out.String(), nil)
	}
	return resp(404, `{"code":"ENOTFOUND","error":"no such endpoint"}`, nil)
}

// faulty upload wrapper ---------------------------------------------------------

type c14faulty struct {
	litefs.BackupClient
	r    *Run
	mode string // "", "before", "middle", "after"
	acks ltx.TXID
	mu   sync.Mutex
}

func (f *c14faulty) WriteTx(ctx context.Context, name string, rd io.Reader) (ltx.TXID, error) {
	f.mu.Lock()
	mode := f.mode
	if mode != "snapshot-cut" {
		f.mode = ""
	}
	f.mu.Unlock()
	switch mode {
	case "before":
		f.r.Count("fault.upload_before")
		_, _ = io.Copy(io.Discard, rd)
		return 0, fmt.Errorf("injected: upload refused")
	case "middle":
		f.r.Count("fault.upload_middle")
		b, _ := io.ReadAll(rd)
		if len(b) > 10 {
			b = b[:len(b)/2]
		}
		_, err := f.BackupClient.WriteTx(ctx, name, bytes.NewReader(b))
		if err == nil {
			return 0, fmt.Errorf("injected: connection lost (service accepted a cut-off body!)")
		}
		return 0, fmt.Errorf("injected: connection lost: %w", err)
	case "after":
		// the service takes the file, the answer is lost
		f.r.Count("fault.upload_reply_lost")
		if hwm, err := f.BackupClient.WriteTx(ctx, name, rd); err == nil {
			f.mu.Lock()
			if hwm > f.acks {
				f.acks = hwm
			}
			f.mu.Unlock()
		}
		return 0, fmt.Errorf("injected: reply lost")
	}
	hwm, err := f.BackupClient.WriteTx(ctx, name, rd)
	if err == nil {
		f.mu.Lock()
		if hwm > f.acks {
			f.acks = hwm
		}
		f.mu.Unlock()
	}
	return hwm, err
}

// FetchSnapshot: with mode "snapshot-cut" the download ends with a connection
// error half way through the body.
func (f *c14faulty) FetchSnapshot(ctx context.Context, name string) (io.ReadCloser, error) {
	rc, err := f.BackupClient.FetchSnapshot(ctx, name)
	if err != nil {
		return rc, err
	}
	f.mu.Lock()
	mode := f.mode
	if mode == "snapshot-cut" {
		f.mode = ""
	}
	f.mu.Unlock()
	if mode != "snapshot-cut" {
		return rc, nil
	}
	f.r.Count("fault.snapshot_cut")
	b, _ := io.ReadAll(rc)
	rc.Close()
	return io.NopCloser(io.MultiReader(bytes.NewReader(b[:len(b)/2]), c14errReader{})), nil
}

type c14errReader struct{}

func (c14errReader) Read([]byte) (int, error) { return 0, syscall.ECONNRESET }

// helpers ------------------------------------------------------------------------

// c14chain decodes the service's files and checks contiguity; returns the
// position and the restored image.
func c14chain(names []string, data [][]byte) (pos ltx.Pos, im *Image, msg string) {
	var prev *LTXFile
	for i, d := range data {
		f, err := DecodeLTX(bytes.NewReader(d))
		if err != nil {
			return pos, nil, fmt.Sprintf("%s does not verify: %v", names[i], err)
		}
		if want := ltx.FormatFilename(f.Header.MinTXID, f.Header.MaxTXID); want != names[i] {
			return pos, nil, fmt.Sprintf("%s holds transactions %s", names[i], want)
		}
		if prev == nil {
			if f.Header.MinTXID != 1 {
				return pos, nil, fmt.Sprintf("chain starts at %s", names[i])
			}
		} else {
			if f.Header.MinTXID != prev.Header.MaxTXID+1 {
				return pos, nil, fmt.Sprintf("gap/overlap: %s follows %s", names[i], names[i-1])
			}
			if f.Header.PreApplyChecksum != prev.Trailer.PostApplyChecksum {
				return pos, nil, fmt.Sprintf("checksum link broken between %s and %s", names[i-1], names[i])
			}
		}
		im = f.Apply(im)
		prev = f
	}
	if prev != nil {
		pos = ltx.Pos{TXID: prev.Header.MaxTXID, PostApplyChecksum: prev.Trailer.PostApplyChecksum}
	}
	return pos, im, ""
}

// c14outage makes the whole service unreachable while down is set.
type c14outage struct {
	litefs.BackupClient
	r    *Run
	mu   sync.Mutex
	down bool
}

func (o *c14outage) isDown() bool { o.mu.Lock(); defer o.mu.Unlock(); return o.down }
func (o *c14outage) set(v bool)   { o.mu.Lock(); o.down = v; o.mu.Unlock() }
func (o *c14outage) PosMap(ctx context.Context) (map[string]ltx.Pos, error) {
	if o.isDown() {
		o.r.Count("fault.service_unreachable")
		return nil, fmt.Errorf("injected: service unreachable")
	}
	return o.BackupClient.PosMap(ctx)
}
func (o *c14outage) WriteTx(ctx context.Context, name string, rd io.Reader) (ltx.TXID, error) {
	if o.isDown() {
		o.r.Count("fault.service_unreachable")
		_, _ = io.Copy(io.Discard, rd)
		return 0, fmt.Errorf("injected: service unreachable")
	}
	return o.BackupClient.WriteTx(ctx, name, rd)
}
func (o *c14outage) FetchSnapshot(ctx context.Context, name string) (io.ReadCloser, error) {
	if o.isDown() {
		o.r.Count("fault.service_unreachable")
		return nil, fmt.Errorf("injected: service unreachable")
	}
	return o.BackupClient.FetchSnapshot(ctx, name)
}

// c14Continuous runs the primary's background backup stream (the loop that keeps
// a cached position map between rounds) on the fake clock. Nobody touches the
// service but the primary, so the service is a prefix of the primary's history
// at every instant: the primary must never be rolled back, the service chain
// stays contiguous and a prefix, the high-water mark stays behind what the
// service acknowledged, and once the service is reachable again the backlog
// drains (a batch of at most 256 files per commit notification).
func c14Continuous(r *Run, h *hist, svc c14svc, kind string, compress bool, retention time.Duration) {
	t := r.Tape
	delay := []time.Duration{10 * time.Millisecond, 100 * time.Millisecond, time.Second}[t.Next(3)]
	full := []time.Duration{0, 2 * time.Second, 10 * time.Second}[t.Next(3)]
	r.Cfg["stream"], r.Cfg["backup_delay"], r.Cfg["full_sync"] = true, delay.String(), full.String()
	var fb *c14faulty
	var out *c14outage
	h.n.PreOpen = func(n *Node) {
		if cl, ok := svc.(*c14cloud); ok {
			u, _ := url.Parse("http://lfsc.local:443")
			cl.c = lfsc.NewBackupClient(n.Store, *u)
			cl.c.Cluster = "c1"
			cl.c.HTTPClient = &http.Client{Transport: cl}
		}
		out = &c14outage{BackupClient: svc.client(), r: r}
		fb = &c14faulty{BackupClient: out, r: r}
		n.Store.BackupClient = fb
	}
	h.n.Cfg.Tune = func(s *litefs.Store) {
		s.Retention = retention
		s.RetentionMonitorInterval = 0
		s.BackupDelay = delay
		s.BackupFullSyncInterval = full
	}
	if err := h.n.Open(); err != nil {
		r.Inconclusive("open: %v", err)
		return
	}
	h.n.WaitPrimary(5 * time.Second)
	if !h.openConns(1) {
		return
	}
	var order []ltx.Pos // the primary's history, in order
	index := map[ltx.Pos]int{}
	last := -1
	// observe checks what must hold at every instant
	observe := func(when string) bool {
		db := h.db()
		if db == nil {
			return true
		}
		if !r.Check(!h.n.Exited, "c14.exit", "the primary stopped (Exit %d) %s", h.n.ExitCode, when) {
			return false
		}
		pos := db.Pos()
		if pos.TXID > 0 {
			i, ok := index[pos]
			if !ok {
				if len(order) > 0 && pos.TXID <= order[len(order)-1].TXID {
					r.Failf("c14.unwarranted-restore", "%s: the primary is at %s, a position it never committed (its history ends at %s); the service only ever held a prefix of that history", when, pos, order[len(order)-1])
					return false
				}
				index[pos] = len(order)
				order = append(order, pos)
				i = len(order) - 1
			}
			if !r.Check(i >= last, "c14.unwarranted-restore", "%s: the primary went back from %s to %s although the service only ever held a prefix of its history", when, order[maxInt(last, 0)], pos) {
				return false
			}
			last = i
		}
		names, data := svc.files(h.name)
		spos, _, msg := c14chain(names, data)
		if !r.Check(msg == "", "c14.service-chain", "%s: the service chain is broken: %s", when, msg) {
			return false
		}
		if !spos.IsZero() {
			if _, ok := index[spos]; !r.Check(ok, "c14.not-a-prefix", "%s: the service ends at %s, which the primary never was at", when, spos) {
				return false
			}
		}
		fb.mu.Lock()
		acks := fb.acks
		fb.mu.Unlock()
		if hwm := db.HWM(); hwm > acks && hwm > spos.TXID {
			r.Failf("c14.hwm", "%s: high-water mark %s exceeds what the service holds (%s) and ever acknowledged (%s)", when, hwm, spos.TXID, acks)
			return false
		}
		return true
	}
	commits := func(n int) bool {
		for i := 0; i < n && !r.Failed(); i++ {
			h.commit(t)
			if !observe("after a commit") {
				return false
			}
		}
		return !r.Failed()
	}
	if !commits(t.Range(1, 4)) || h.ref.N() == 0 {
		return
	}
	wait := func(d time.Duration) bool {
		time.Sleep(d)
		return observe(fmt.Sprintf("after waiting %s", d))
	}
	if !wait(delay + 1500*time.Millisecond) {
		return
	}
	nsteps := t.Range(4, 12)
	long := 0
	for i := 0; i < nsteps && !r.Failed(); i++ {
		r.Step()
		event := []string{"commits", "many-commits", "outage", "restore-service", "wait", "wait-long", "retention", "to-wal", "lose-reply"}[t.Pick([]int{8, 2, 3, 4, 5, 2, 2, 1, 4})]
		if event == "many-commits" && long >= 2 {
			event = "commits"
		}
		switch event {
		case "commits":
			commits(t.Range(1, 6))
		case "many-commits":
			long++
			saved := h.maxPages
			h.maxPages = 4
			commits(250 + t.Range(0, 30))
			h.maxPages = saved
			r.Count("c14.stream.long-backlog")
		case "lose-reply":
			// the service stores the next upload, its answer is lost; a
			// transaction or two are committed before the stream tries again
			fb.mu.Lock()
			fb.mode = "after"
			fb.mu.Unlock()
			commits(t.Range(1, 2))
			wait(delay + time.Duration(t.Range(0, 300))*time.Millisecond)
			commits(t.Range(1, 3))
			wait(delay + time.Duration(t.Range(200, 2500))*time.Millisecond)
		case "outage":
			out.set(true)
		case "restore-service":
			out.set(false)
		case "wait":
			wait(delay + time.Duration(t.Range(0, 1500))*time.Millisecond)
		case "wait-long":
			wait(12 * time.Second)
		case "retention":
			time.Sleep(50 * time.Millisecond)
			_ = h.n.Store.EnforceRetention(context.Background())
			observe("after a retention sweep")
		case "to-wal":
			if !h.wal && h.ref.N() > 0 {
				if !h.toWAL() {
					return
				}
				observe("after the switch to WAL")
			}
		}
		r.State("stream/%s/%s/down=%v/%s", kind, event, out.isDown(), delay)
	}
	if r.Failed() {
		return
	}
	// faults stop: the backlog drains, one batch per commit notification
	out.set(false)
	if !wait(delay + 2500*time.Millisecond) {
		return
	}
	db := h.db()
	if db == nil {
		return
	}
	for round := 0; round < 8; round++ {
		names, data := svc.files(h.name)
		spos, sIm, _ := c14chain(names, data)
		if spos == db.Pos() {
			if d := DiffImages(sIm, h.ref); d != "" && h.ref.N() > 0 {
				r.Failf("c14.restore-image", "the service's chain restores to something else than the primary's image at %s: %s", spos, d)
				return
			}
			r.Count("c14.stream.drained")
			r.Count("c14.sync.checked")
			h.closeConns()
			return
		}
		if !commits(1) || !wait(delay+2500*time.Millisecond) {
			return
		}
	}
	names, data := svc.files(h.name)
	spos, _, _ := c14chain(names, data)
	r.Failf("c14.stream-stalled", "the service has been reachable for 8 rounds of (commit, wait %s) and is still at %s while the primary is at %s", delay+2500*time.Millisecond, spos, db.Pos())
}

func runC14(r *Run) {
	t := r.Tape
	if pick := t.Chance(1, 8); (pick && os.Getenv("SIM_C14_SCENARIO") != "0") || os.Getenv("SIM_C14_SCENARIO") == "1" { // (developer override)
		c14RestoreRace(r)
		return
	}
	h := &hist{r: r, name: "db"}
	h.pageSize = []uint32{512, 1024, 4096}[t.Next(3)]
	h.jmode = []string{ModeDelete, ModeTruncate, ModePersist}[t.Next(3)]
	h.maxPages = 20
	compress := t.Chance(1, 2)
	kind := []string{"file", "lfsc"}[t.Next(2)]
	retention := []time.Duration{time.Millisecond, time.Hour}[t.Next(2)]
	r.Cfg["client"], r.Cfg["page_size"], r.Cfg["jmode"], r.Cfg["retention"] = kind, h.pageSize, h.jmode, retention.String()
	h.n = r.NewNode(NodeCfg{Candidate: true, Compress: compress})
	h.n.Cfg.Leaser = litefs.NewStaticLeaser(true, h.n.Name, h.n.URL())
	var svc c14svc
	if kind == "file" {
		dir := filepath.Join(r.Dir, "backup")
		c := litefs.NewFileBackupClient(dir)
		if err := c.Open(); err != nil {
			r.Inconclusive("backup open: %v", err)
			return
		}
		svc = &c14file{dir: dir, c: c}
	} else {
		cl := &c14cloud{dbs: map[string]map[string][]byte{}}
		svc = cl
	}
	if t.Chance(1, 3) {
		c14Continuous(r, h, svc, kind, compress, retention)
		return
	}
	var fb *c14faulty
	h.n.PreOpen = func(n *Node) {
		if cl, ok := svc.(*c14cloud); ok {
			u, _ := url.Parse("http://lfsc.local:443")
			cl.c = lfsc.NewBackupClient(n.Store, *u)
			cl.c.Cluster = "c1"
			cl.c.HTTPClient = &http.Client{Transport: cl}
		}
		fb = &c14faulty{BackupClient: svc.client(), r: r}
		n.Store.BackupClient = fb
	}
	h.n.Cfg.Tune = func(s *litefs.Store) {
		s.Retention = retention
		s.RetentionMonitorInterval = 0
		s.BackupDelay = 0 // no background loop: syncs are explicit
	}
	if err := h.n.Open(); err != nil {
		r.Inconclusive("open: %v", err)
		return
	}
	h.n.WaitPrimary(5 * time.Second)
	if !h.openConns(1) {
		return
	}
	// every position the primary ever had (its history)
	history := map[ltx.Pos]bool{}
	note := func() {
		if db := h.db(); db != nil && db.Pos().TXID > 0 {
			history[db.Pos()] = true
		}
	}
	commits := func(n int) bool {
		for i := 0; i < n && !r.Failed(); i++ {
			h.commit(t)
			note()
		}
		return !r.Failed()
	}
	if !commits(t.Range(1, 4)) || h.ref.N() == 0 {
		return
	}
	// a donor with another history of the same database (for forks / ahead)
	mkDonorFiles := func(extra int, fork bool) ([]string, [][]byte, bool) {
		return c14DonorFiles(r, t, h, compress, extra, fork)
	}

	nsteps := t.Range(4, 14)
	restores := 0
	for i := 0; i < nsteps && !r.Failed(); i++ {
		r.Step()
		// something happens on the primary or to the service ...
		event := []string{"commits", "commits", "many-commits", "drop-recreate", "retention", "svc-ahead", "svc-fork", "svc-missing", "to-wal", "nothing"}[t.Pick([]int{6, 6, 1, 1, 3, 2, 2, 1, 1, 2})]
		if !r.Thorough() && event == "many-commits" && t.Chance(2, 3) {
			event = "commits"
		}
		switch event {
		case "commits":
			commits(t.Range(1, 6))
		case "many-commits":
			saved := h.maxPages
			h.maxPages = 4
			commits(260 + t.Range(0, 20))
			h.maxPages = saved
		case "drop-recreate":
			h.closeConns()
			if e := h.n.K.Unlink(h.name); e != 0 {
				r.Failf("c14.setup", "drop: %v", e)
				return
			}
			h.ref, h.wal = nil, false
			note()
			if !h.openConns(1) {
				return
			}
			if t.Chance(2, 3) {
				commits(t.Range(1, 3))
			}
		case "retention":
			time.Sleep(50 * time.Millisecond)
			_ = h.n.Store.EnforceRetention(context.Background())
		case "svc-ahead", "svc-fork":
			names, data, ok := mkDonorFiles(t.Range(0, 3), event == "svc-fork")
			if ok {
				svc.wipe(h.name)
				for k := range names {
					svc.put(h.name, names[k], data[k])
				}
			} else {
				event = "nothing"
			}
		case "svc-missing":
			svc.wipe(h.name)
		}
		if strings.HasPrefix(event, "svc-") {
			// a new service state: what an earlier one acknowledged does not count
			fb.mu.Lock()
			fb.acks = 0
			fb.mu.Unlock()
		}
		switch event {
		case "to-wal":
			if !h.wal && h.ref.N() > 0 {
				if !h.toWAL() {
					return
				}
				note()
			}
		}
		if r.Failed() {
			return
		}
		db := h.db()
		if db == nil {
			continue
		}
		// ... then a sync, possibly with a failing upload
		fault := []string{"", "", "", "before", "middle", "after", "os-error", "snapshot-cut"}[t.Pick([]int{2, 2, 2, 2, 2, 2, 4, 3})]
		fb.mu.Lock()
		if fault != "os-error" {
			fb.mode = fault
		}
		fb.mu.Unlock()
		lposBefore := db.Pos()
		sNames, sData := svc.files(h.name)
		sposBefore, sImBefore, smsg := c14chain(sNames, sData)
		if smsg != "" {
			r.Failf("c14.service-chain", "before the sync the service chain is broken: %s", smsg)
			return
		}
		rel := "behind"
		switch {
		case sposBefore.IsZero():
			rel = "empty"
		case sposBefore == lposBefore:
			rel = "equal"
		case sposBefore.TXID > lposBefore.TXID:
			rel = "ahead"
		case sposBefore.TXID == lposBefore.TXID:
			rel = "forked"
		case !history[sposBefore]:
			rel = "behind-forked"
		}
		h.closeConns()
		// can the service's chain be extended from the primary's log? (every
		// transaction after the service's position is in a file on disk)
		extendable := (rel == "behind" || rel == "empty" || rel == "equal") && c14LogCovers(db, sposBefore.TXID+1, lposBefore.TXID)
		if fault == "os-error" {
			// a transient error of one file-system call during the sync (too many
			// open files, an I/O error, a permission problem)
			atomic.StoreInt64(&h.n.OS.fired, 0)
			h.n.OS.FiredAt = ""
			h.n.OS.FailErr = []error{syscall.EIO, syscall.EMFILE, syscall.EACCES}[t.Next(3)]
			h.n.OS.FailMatch = nil
			h.n.OS.FailNth = int64(t.Range(1, 10))
		}
		ctx, cancel := context.WithTimeout(context.Background(), 30*time.Second)
		err := h.n.Store.SyncBackup(ctx)
		cancel()
		fb.mu.Lock()
		fired := fb.mode == "" && fault != ""
		if fault == "os-error" {
			fired = h.n.OS.FiredAt != ""
			h.n.OS.FailNth = 0
		}
		fb.mode = ""
		acks := fb.acks
		fb.mu.Unlock()
		if !fired {
			fault = ""
		}
		r.Logf("step %d: %s; service %s (%s) vs primary %s; fault %q => sync: %v", i, event, sposBefore, rel, lposBefore, fault, err)
		if !r.Check(!h.n.Exited, "c14.exit", "the primary stopped (Exit %d) during a backup sync (%s, fault %q)", h.n.ExitCode, rel, fault) {
			return
		}
		names, data := svc.files(h.name)
		spos, sIm, msg := c14chain(names, data)
		if !r.Check(msg == "", "c14.service-chain", "after the sync (%s, fault %q, result %v) the service chain is broken: %s", rel, fault, err, msg) {
			return
		}
		// whatever the sync did or failed to do - uploads refused, cut or
		// unacknowledged, a snapshot download that breaks off - the primary's own
		// log is still one chain that ends at the position it reports. (Not
		// asked after an injected local file-system error: the restore removes
		// the old files, renames the snapshot in and applies it, and an I/O
		// error between those steps leaves the log empty or ahead of the
		// position on the unchanged tree too - DESIGN section 16.)
		if lp := db.Pos(); lp.TXID > 0 && fault != "os-error" {
			if cm := CheckChain(db.Path(), lp); cm != "" {
				r.Failf("c14.local-log", "after the sync (%s, fault %q at %s, result %v) the primary's own transaction log no longer matches its position %s: %s", rel, fault, h.n.OS.FiredAt, err, lp, cm)
				return
			}
		}
		lpos := db.Pos()
		// HWM
		if hwm := db.HWM(); err == nil && hwm > spos.TXID && hwm > acks {
			r.Failf("c14.hwm", "high-water mark %s exceeds what the service holds (%s) and ever acknowledged (%s)", hwm, spos.TXID, acks)
			return
		}
		outcome := "error"
		if err == nil {
			outcome = "synced"
			restored := false
			switch rel {
			case "ahead", "forked", "behind-forked":
				restored = true
			}
			if lpos != lposBefore && lpos == sposBefore && !history[lpos] {
				restored = true
			}
			if restored || (lpos == sposBefore && lpos != lposBefore) {
				// the primary adopted the service's state
				outcome = "restored"
				restores++
				r.Count("c14.restore." + rel)
				// ... which it may do only when the service is ahead, on another
				// history, or cannot be extended from the primary's log
				if !r.Check(!extendable, "c14.restore-without-cause", "the service was %s (at %s) on the primary's own history and every transaction up to the primary's position %s was in its log, yet the sync (fault %q at %s) made the primary adopt the service's snapshot: committed transactions %s..%s were discarded", rel, sposBefore, lposBefore, fault, h.n.OS.FiredAt, sposBefore.TXID+1, lposBefore.TXID) {
					return
				}
				if !r.Check(spos == sposBefore && fmt.Sprint(names) == fmt.Sprint(sNames), "c14.service-overwritten", "the service was %s (at %s) relative to the primary (at %s); after the sync its files changed: %v -> %v", rel, sposBefore, lposBefore, sNames, names) {
					return
				}
				if !r.Check(lpos == sposBefore, "c14.restore-position", "the service was %s at %s; after the sync the primary is at %s", rel, sposBefore, lpos) {
					return
				}
				disk, derr := ReadDiskImage(db.Path())
				if r.Check(derr == nil, "c14.read", "%v", derr) {
					if d := DiffImages(disk, sImBefore); d != "" {
						r.Failf("c14.restore-image", "after restoring from the service (%s) the primary's database differs from the service's image: %s", rel, d)
						return
					}
				}
				h.ref = sImBefore
				h.wal = false
				if sImBefore.N() > 0 {
					hh, _, _ := decodeDBHeader(sImBefore.Pages[0])
					h.wal = hh.WAL
				}
				history[lpos] = true
			} else {
				// uploaded (or nothing to do): prefix, and complete unless the batch limit cut it short
				if !spos.IsZero() && !r.Check(history[spos], "c14.not-a-prefix", "the service ends at %s, which the primary never was at (relation before: %s)", spos, rel) {
					return
				}
				if lpos.TXID-sposBefore.TXID <= 256 || sposBefore.IsZero() {
					if !r.Check(spos == lpos, "c14.incomplete", "the sync reported success (%s, fault %q) but the service is at %s, the primary at %s", rel, fault, spos, lpos) {
						return
					}
					if d := DiffImages(sIm, h.ref); d != "" && lpos.TXID > 0 && h.ref.N() > 0 {
						r.Failf("c14.restore-image", "the service's chain restores to something else than the primary's image at %s: %s", lpos, d)
						return
					}
				} else {
					r.Check(spos.TXID >= sposBefore.TXID+256 || spos == lpos, "c14.incomplete", "a long batch moved the service only from %s to %s", sposBefore, spos)
					r.Count("c14.long-batch")
				}
				if spos != sposBefore {
					r.Count("c14.uploaded")
				}
			}
			r.Count("c14.sync.checked")
		} else {
			r.Count("c14.sync.error")
			if fault == "" {
				r.Failf("c14.sync-failed", "a sync without an injected fault failed (%s; service %s, primary %s): %v", rel, sposBefore, lposBefore, err)
				return
			}
			// a failed upload: a second sync without a fault must succeed and be checked next round
			ctx, cancel := context.WithTimeout(context.Background(), 30*time.Second)
			err2 := h.n.Store.SyncBackup(ctx)
			cancel()
			if !r.Check(err2 == nil, "c14.sync-after-fault", "after an upload that failed (%q) the next sync fails too: %v", fault, err2) {
				return
			}
			n2, d2 := svc.files(h.name)
			sp2, si2, m2 := c14chain(n2, d2)
			if !r.Check(m2 == "", "c14.service-chain", "after a failed upload (%q) and a retry the service chain is broken: %s", fault, m2) {
				return
			}
			lp2 := db.Pos()
			if lp2 == lposBefore && history[sp2] {
				r.Check(sp2 == lp2, "c14.incomplete", "after a failed upload (%q) and a retry the service is at %s, the primary at %s", fault, sp2, lp2)
				if d := DiffImages(si2, h.ref); d != "" && h.ref.N() > 0 {
					r.Failf("c14.restore-image", "after a failed upload (%q) and a retry the service restores to something else: %s", fault, d)
					return
				}
			} else if lp2 != lposBefore {
				if !r.Check(!extendable || fault != "os-error", "c14.restore-without-cause", "the service was %s (at %s) on the primary's own history and every transaction up to the primary's position %s was in its log; after a sync that failed with a file-system error (%s) and a retry the primary is at %s: committed transactions were discarded", rel, sposBefore, lposBefore, h.n.OS.FiredAt, lp2) {
					return
				}
				// the retry ended in a restore (e.g. the lost reply made the service 'equal'): adopt
				disk, _ := ReadDiskImage(db.Path())
				if disk != nil {
					h.ref = disk
					hh, _, _ := decodeDBHeader(disk.Pages[0])
					h.wal = hh.WAL
				}
				history[lp2] = true
			}
			if hwm := db.HWM(); hwm > sp2.TXID {
				r.Failf("c14.hwm", "after a failed upload (%q) the high-water mark %s exceeds the service's position %s", fault, hwm, sp2.TXID)
				return
			}
		}
		r.State("%s/%s/%s/%s/%s", kind, event, rel, fault, outcome)
		if !h.openConns(1) {
			return
		}
	}
	h.closeConns()
}

// c14DonorFiles builds another history of h's database on a scratch node (a fork
// from nothing, or a continuation of the primary's current image that the
// primary does not have) and returns it as the files of a backup service.
func c14DonorFiles(r *Run, t *Tape, h *hist, compress bool, extra int, fork bool) ([]string, [][]byte, bool) {
	img, err := h.n.Image(fmt.Sprintf("donor%d", r.Steps))
	if err != nil {
		return nil, nil, false
	}
	var dn *Node
	if fork {
		dn = r.NewNode(NodeCfg{Candidate: true, Compress: compress})
		dn.Cfg.Leaser = litefs.NewStaticLeaser(true, dn.Name, dn.URL())
		if dn.Open() != nil {
			return nil, nil, false
		}
	} else {
		if dn, err = c17Open(r, img); err != nil {
			return nil, nil, false
		}
	}
	defer func() { dn.Fence(); dn.Close() }()
	dn.WaitPrimary(5 * time.Second)
	hd := &hist{r: r, n: dn, name: h.name, pageSize: h.pageSize, jmode: h.jmode, maxPages: h.maxPages}
	if !fork {
		hd.ref, hd.wal = h.ref, h.wal
	}
	if !hd.openConns(1) {
		return nil, nil, false
	}
	for i := 0; i < extra+3 && !r.Failed(); i++ {
		hd.commit(t)
	}
	hd.closeConns()
	ddb := dn.Store.DB(h.name)
	if ddb == nil || ddb.Pos().TXID == 0 {
		return nil, nil, false
	}
	b, _, err := SnapshotBytes(ddb)
	if err != nil {
		return nil, nil, false
	}
	return []string{ltx.FormatFilename(1, ddb.Pos().TXID)}, [][]byte{b}, true
}

// c14LogCovers reports whether the database's ltx directory holds files that
// cover the transaction ids from..to without a gap.
func c14LogCovers(db *litefs.DB, from, to ltx.TXID) bool {
	if from > to {
		return true
	}
	ents, err := os.ReadDir(db.LTXDir())
	if err != nil {
		return false
	}
	next := from
	type span struct{ min, max ltx.TXID }
	var spans []span
	for _, e := range ents {
		if min, max, err := ltx.ParseFilename(e.Name()); err == nil {
			spans = append(spans, span{min, max})
		}
	}
	sort.Slice(spans, func(i, j int) bool { return spans[i].min < spans[j].min })
	for _, sp := range spans {
		if sp.min == next {
			next = sp.max + 1
		}
	}
	return next > to
}

func maxInt(a, b int) int {
	if a > b {
		return a
	}
	return b
}

// c14RestoreRace: the sync that has to restore from the service runs while an
// application keeps committing on the primary (WAL mode: writers only need the
// write lock, which the restore takes and releases like everybody else). The
// sync and the application are tasks of the seeded scheduler with every OS
// call, FUSE operation and lock transition a scheduling point. Whatever the
// order: the node stays up, the primary ends on the service's history (the
// service's position, or transactions committed on top of it after the
// restore), its own log is one chain ending at its position, and the position's
// checksum is the from-scratch checksum of the files.
func c14RestoreRace(r *Run) {
	t := r.Tape
	h := &hist{r: r, name: "db"}
	h.pageSize = []uint32{512, 4096}[t.Next(2)]
	h.jmode = ModeDelete
	h.maxPages = 10
	compress := t.Chance(1, 2)
	r.Cfg["scenario"], r.Cfg["page_size"] = "restore-race", h.pageSize
	h.n = r.NewNode(NodeCfg{Candidate: true, Compress: compress})
	h.n.Cfg.Leaser = litefs.NewStaticLeaser(true, h.n.Name, h.n.URL())
	dir := filepath.Join(r.Dir, "backup")
	bc := litefs.NewFileBackupClient(dir)
	if err := bc.Open(); err != nil {
		r.Inconclusive("backup open: %v", err)
		return
	}
	svc := &c14file{dir: dir, c: bc}
	h.n.PreOpen = func(n *Node) { n.Store.BackupClient = bc }
	h.n.Cfg.Tune = func(s *litefs.Store) {
		s.RetentionMonitorInterval = 0
		s.BackupDelay = 0
	}
	if err := h.n.Open(); err != nil {
		r.Inconclusive("open: %v", err)
		return
	}
	h.n.WaitPrimary(5 * time.Second)
	if !h.openConns(1) {
		return
	}
	for i := 0; i < 3 && h.ref.N() == 0; i++ {
		h.commit(t)
	}
	if r.Failed() || h.ref.N() == 0 || !h.toWAL() {
		return
	}
	h.commit(t)
	ctx := context.Background()
	h.closeConns()
	if t.Chance(1, 2) {
		if err := h.n.Store.SyncBackup(ctx); err != nil {
			r.Inconclusive("first sync: %v", err)
			return
		}
	}
	// the service gets another history (ahead of the primary, or a fork)
	names, data, ok := c14DonorFiles(r, t, h, compress, t.Range(0, 3), t.Chance(1, 2))
	if !ok || r.Failed() {
		r.Count("c14.race.no-donor")
		return
	}
	svc.wipe(h.name)
	for k := range names {
		svc.put(h.name, names[k], data[k])
	}
	spos, _, msg := c14chain(names, data)
	if msg != "" {
		r.Inconclusive("donor chain: %s", msg)
		return
	}
	db := h.db()
	if db == nil {
		return
	}
	before := db.Pos()
	s := r.NewSched()
	installLockSeam(r, h.n, db, nil)
	s.Stick = t.Range(20, 90)
	s.MaxTick = 2 * time.Millisecond
	var wg sync.WaitGroup
	var syncErr error
	wg.Add(1)
	s.Go("sync", func() {
		defer wg.Done()
		s.Yield(0, "op", "sync")
		c, cancel := context.WithTimeout(ctx, 30*time.Second)
		syncErr = h.n.Store.SyncBackup(c)
		cancel()
	})
	commits := 0
	rounds := t.Range(2, 8)
	wg.Add(1)
	s.Go("app", func() {
		defer wg.Done()
		c := h.n.NewConn(h.name, h.jmode, h.pageSize)
		if c.Open() != 0 {
			return
		}
		defer c.Close()
		for i := 0; i < rounds && !s.stopping.Load() && !h.n.Exited; i++ {
			s.Yield(0, "op", "app")
			// what SQLite sees now (the restore may have replaced everything)
			if e := c.LockShared(); e != 0 {
				continue
			}
			hdr, okh, e := c.ReadHeader()
			if e != 0 || !okh || !hdr.WAL {
				c.UnlockAll()
				return // the service's database is not a WAL database: the application stops
			}
			if c.wal == nil && c.WalOpen() != 0 {
				c.UnlockAll()
				continue
			}
			im, e := c.WalReadTx()
			if e != 0 || im == nil || im.N() == 0 {
				continue
			}
			// The transaction rewrites every page (like a VACUUM): the image read
			// above may be stale by the time the write lock is taken - the restore
			// may have replaced the database with a smaller one in between, where
			// real SQLite would start from what it finds then - and a program that
			// touches only some pages of a database that has shrunk under it would
			// leave holes no SQLite transaction leaves.
			prog := WalTxProgram{NewSize: im.N() + uint32(t.Range(0, 2)), Outcome: OutCommit}
			for pg := uint32(1); pg <= im.N(); pg++ {
				prog.Modify = append(prog.Modify, pg)
			}
			if res := c.WalWriteTx(prog, im); res.Outcome == OutCommit {
				commits++
				r.Count("c14.race.commit")
			} else {
				r.Count("c14.race.tx-" + res.Outcome)
			}
		}
	})
	done := make(chan struct{})
	go func() { wg.Wait(); close(done) }()
	finished := func() bool {
		select {
		case <-done:
			return true
		default:
			return false
		}
	}
	for st := 0; st < 12000 && !r.Failed(); st++ {
		s.Settle()
		if finished() {
			break
		}
		if !s.StepOnce(nil, true) {
			time.Sleep(time.Millisecond)
		}
	}
	s.Stop()
	for i := 0; i < 10000 && !finished(); i++ {
		time.Sleep(time.Millisecond)
		s.Settle()
	}
	if r.Failed() {
		return
	}
	if !finished() {
		r.Inconclusive("c14 restore race: tasks did not finish")
		return
	}
	if !r.Check(!h.n.Exited, "c14.exit", "the primary stopped (Exit %d) during a backup sync that had to restore from the service (at %s, primary at %s) while an application kept committing (%d commits); the sync returned %v", h.n.ExitCode, spos, before, commits, syncErr) {
		return
	}
	lp := db.Pos()
	if cm := CheckChain(db.Path(), lp); cm != "" && lp.TXID > 0 {
		r.Failf("c14.local-log", "after a restore that raced with application commits (sync: %v) the primary's own log does not match its position %s: %s", syncErr, lp, cm)
		return
	}
	disk, err := ReadDiskImage(h.n.Store.DBPath(h.name))
	if r.Check(err == nil, "c14.read", "%v", err) && lp.TXID > 0 {
		r.Check(uint64(lp.PostApplyChecksum) == disk.Checksum(), "c14.restore-image", "after a restore that raced with application commits the primary reports %s but the from-scratch checksum of its files is %016x", lp, disk.Checksum())
	}
	if syncErr == nil {
		r.Check(lp.TXID >= spos.TXID, "c14.restore-position", "the sync succeeded with the service at %s; the primary is at %s", spos, lp)
		r.Count("c14.race.checked")
	} else {
		r.Count("c14.race.sync-error")
	}
	r.State("restore-race/%v/%d", syncErr == nil, min(commits, 3))
}
