package verifsim

import (
	"bytes"
	"context"
	"encoding/json"
	"fmt"
	"os"
	"strings"
	"syscall"
	"time"

	"bazil.org/fuse"
	"github.com/superfly/litefs"
	"github.com/superfly/ltx"
)

func init() {
	register(&CheckDef{
		ID:    "C13",
		Level: "exploration",
		Rule:  "seeded histories on a real primary P, a real replica R that takes P's halt lock through the <db>-lock file (real fuse lock node, real HTTP client and /halt, /tx handlers over the simulated network) and a second real replica R2, in rollback and WAL mode. Steps are drawn from: acquire, forwarded transactions on R (every PagerSim shape), local transactions and checkpoints attempted on P, release, expiry of the TTL without release (with R partitioned away or silent), a repeated POST /halt with the same id (after the grant, and as a call plus its retry that both wait behind a local writer on P), POST /tx without a lock / with a wrong id / after release or expiry, lost acquire and release replies, and a change of primary while the lock is held. Oracles: at grant R's position equals the lock's position equals P's position; while the lock is held every local transaction on P is refused and P's position, raw image, WAL size and ltx listing change only through forwarded files; when a forwarded commit returns success on R, P already reports the same TXID and checksum and holds the same image, and R2 reaches it; a failed forwarded commit changes neither node; a repeated acquire returns the same lock, also when both requests were queued behind a writer, and a released lock does not come back; /tx from anybody but the current holder is refused and changes nothing; after release or expiry P commits again and the former holder's writes are refused. evaluations = steps; distinct = distinct (mode, step kind, lock state, outcome) tuples; non-trivial = run with >= 1 forwarded commit checked on P",
		Run:   runC13,
		NonTrivial: func(r *Run) bool {
			return r.Stats["c13.forwarded.checked"] > 0
		},
		Assumptions: []string{"steps run one at a time on the fake clock (sequential harness): the schedule dimension is the order of steps and the timing of expiry, partitions and lost replies, not instruction interleaving"},
		Real:        []string{"fuse LockNode/LockHandle, DB.AcquireRemoteHaltLock/ReleaseRemoteHaltLock/AcquireHaltLock/ReleaseHaltLock/EnforceHaltLockExpiration, forwarding inside CommitJournal/CommitWAL, http client and handlers for /halt and /tx, stream to R2"},
		Stub:        []string{"SimNet", "SimKernel", "PagerSim"},
	})
}

type c13sim struct {
	r         *Run
	net       *SimNet
	p, rep    *Node
	r2        *Node
	name      string
	ref       *Image // the committed image cluster-wide
	wal       bool
	jmode     string
	pageSize  uint32
	lockF     *File // R's open <db>-lock descriptor while it (believes it) holds the lock
	held      bool  // R believes it holds the lock
	pHeld     bool  // harness's view: P's lock is held and not expired
	grantedAt time.Time
	ttl       time.Duration
	staleDone, skipThird, newPrimaryFirst bool
	dynamic   bool
	svc       *SimLease
}

// changePrimary: the primary is demoted (or cut off from the lease service)
// and the other candidate takes over; the harness follows the role.
func (cs *c13sim) changePrimary(t *Tape) {
	r := cs.r
	old, other := cs.p, cs.r2
	how := t.Next(2)
	if how == 0 {
		old.Store.Demote()
	} else {
		cs.svc.mu.Lock()
		cs.svc.Down[old.ID] = true
		cs.svc.mu.Unlock()
	}
	ok := false
	for dl := time.Now().Add(20 * time.Second); time.Now().Before(dl); time.Sleep(20 * time.Millisecond) {
		if other.Store.IsPrimary() && !old.Store.IsPrimary() {
			ok = true
			break
		}
		if how == 0 && old.Store.IsPrimary() && !other.Store.IsPrimary() && time.Until(dl) < 10*time.Second {
			break // the demoted node won the election again: no change
		}
	}
	cs.svc.mu.Lock()
	delete(cs.svc.Down, old.ID)
	cs.svc.mu.Unlock()
	r.Logf("change of primary (%d) => %v", how, ok)
	if !ok {
		r.Count("c13.primary-change.none")
		if !old.Store.IsPrimary() {
			old.WaitPrimary(20 * time.Second)
		}
		return
	}
	// whatever the old primary had granted is gone with its role
	cs.p, cs.r2 = other, old
	cs.pHeld = false
	r.Count("c13.primary-change")
	// the new primary must be at the last committed image before anybody writes
	if !r.Check(waitPos(cs.p, cs.name, posOf(cs.p, cs.name), time.Second), "c13.follow", "new primary has no position") {
		return
	}
	im, err := ReadDiskImage(cs.pdb().Path())
	if err == nil {
		if d := DiffImages(im.LogicalCut(), cs.ref); d != "" {
			// the old primary had transactions the new one never received: from
			// here on the new primary's history is the history
			r.Count("c13.primary-change.lost-tail")
			cs.ref = im.LogicalCut()
		}
	}
}

var _ = func() {}

func (cs *c13sim) pdb() *litefs.DB { return cs.p.Store.DB(cs.name) }
func (cs *c13sim) rdb() *litefs.DB { return cs.rep.Store.DB(cs.name) }

// pDigest is what may change on the primary only through forwarded files.
func (cs *c13sim) pDigest() string {
	db := cs.pdb()
	var sb strings.Builder
	fmt.Fprintf(&sb, "pos=%s", db.Pos())
	if im, err := ReadDiskImage(db.Path()); err == nil {
		fmt.Fprintf(&sb, " img=%d/%016x", im.N(), im.Checksum())
	}
	files, _, _ := ListLTX(db.LTXDir())
	fmt.Fprintf(&sb, " ltx=%d", len(files))
	if fi, err := os.Stat(db.WALPath()); err == nil && fi.Size() > 0 {
		// (an empty log is what opening a WAL connection creates)
		fmt.Fprintf(&sb, " wal=%d", fi.Size())
	}
	return sb.String()
}

// tx runs one PagerSim write transaction on node n against the cluster-wide image.
func (cs *c13sim) tx(n *Node, t *Tape) (TxResult, string) {
	return cs.txOn(n, t, cs.ref)
}

// txOn runs the transaction against the given base image (what the node's
// SQLite currently sees).
func (cs *c13sim) txOn(n *Node, t *Tape, base *Image) (TxResult, string) {
	saved := cs.ref
	cs.ref = base
	defer func() { cs.ref = saved }()
	c := n.NewConn(cs.name, cs.jmode, cs.pageSize)
	if e := c.Open(); e != 0 {
		return TxResult{Outcome: "error", Errno: e, FailedAt: "open"}, "open"
	}
	defer c.Close()
	if cs.wal {
		if e := c.WalOpen(); e != 0 {
			return TxResult{Outcome: "error", Errno: e, FailedAt: "wal-open"}, "wal-open"
		}
		prog := GenWalProgram(t, cs.ref.N(), 25)
		prog.Outcome = OutCommit
		if t.Chance(1, 3) {
			// while this connection has published its commit and still holds the
			// write lock (no transaction file exists yet), another connection on
			// the same node asks for the checkpoint lock: it must be refused, on
			// the primary and on a replica that writes under the halt lock alike
			c.BeforeWalUnlock = func() {
				b := n.NewConn(cs.name, cs.jmode, cs.pageSize)
				if b.Open() != 0 {
					return
				}
				defer b.Close()
				if b.LockShared() != 0 || b.WalOpen() != 0 {
					return
				}
				if e := b.shmLock(fuse.LockWrite, walCkptLock, 1); e == 0 {
					b.shmLock(fuse.LockUnlock, walCkptLock, 1)
					cs.r.Failf("c13.ckpt-lock-during-write", "%s: a second connection was granted the exclusive checkpoint lock while another connection holds the write lock with a committed transaction that has not been captured yet", n.Name)
				} else {
					cs.r.Count("c13.ckpt-lock-refused-during-write")
				}
			}
		}
		return c.WalWriteTx(prog, cs.ref), fmt.Sprintf("wal %d->%d", cs.ref.N(), prog.NewSize)
	}
	prog := GenProgram(t, cs.ref.N(), 25, LockPgno(cs.pageSize))
	prog.Outcome = OutCommit
	return c.WriteTx(prog, cs.ref), fmt.Sprintf("journal %d->%d", cs.ref.N(), prog.NewSize)
}

func runC13(r *Run) {
	t := r.Tape
	cs := &c13sim{r: r, net: NewSimNet(r), name: "db"}
	cs.pageSize = []uint32{512, 4096}[t.Next(2)]
	cs.jmode = []string{ModeDelete, ModeTruncate, ModePersist}[t.Next(3)]
	cs.wal = t.Chance(1, 2)
	cs.ttl = []time.Duration{2 * time.Second, 5 * time.Second}[t.Next(2)]
	r.Cfg["page_size"], r.Cfg["jmode"], r.Cfg["wal"], r.Cfg["halt_ttl"] = cs.pageSize, cs.jmode, cs.wal, cs.ttl.String()
	tune := func(s *litefs.Store) {
		s.ReconnectDelay = 20 * time.Millisecond
		s.HaltLockTTL = cs.ttl
		s.HaltLockMonitorInterval = 100 * time.Millisecond
		s.HaltAcquireTimeout = time.Second
	}
	compress := t.Chance(1, 2)
	mk := func(primary bool) *Node {
		n := r.NewNode(NodeCfg{Candidate: primary, Compress: compress, Tune: tune})
		n.Cfg.Client = cs.net.Attach(n)
		return n
	}
	// one run in three uses the simulated lease service with two candidates so
	// that the primary can change while a halt lock is held
	cs.dynamic = t.Chance(1, 3)
	r.Cfg["dynamic_lease"] = cs.dynamic
	if cs.dynamic {
		cs.svc = NewSimLease(r, 2*time.Second, 500*time.Millisecond)
		cs.p, cs.rep, cs.r2 = mk(true), mk(false), mk(true)
		for _, n := range []*Node{cs.p, cs.rep, cs.r2} {
			n.Cfg.Leaser = cs.svc.Leaser(n)
		}
	} else {
		cs.p, cs.rep, cs.r2 = mk(true), mk(false), mk(false)
		cs.p.Cfg.Leaser = litefs.NewStaticLeaser(true, cs.p.Name, cs.p.URL())
		cs.rep.Cfg.Leaser = litefs.NewStaticLeaser(false, cs.p.Name, cs.p.URL())
		cs.r2.Cfg.Leaser = litefs.NewStaticLeaser(false, cs.p.Name, cs.p.URL())
	}
	r.OnCleanup(func() {
		for _, c := range cs.net.LiveConns() {
			c.reset("teardown")
		}
	})
	// the replicas join after the primary has its history: a snapshot being
	// streamed holds read locks and would make SQLite on the primary wait (BUSY)
	if err := cs.p.Open(); err != nil {
		r.Inconclusive("open %s: %v", cs.p.Name, err)
		return
	}
	if !cs.p.WaitPrimary(5 * time.Second) {
		r.Inconclusive("no primary")
		return
	}
	// some history on P
	h := &hist{r: r, n: cs.p, name: cs.name, pageSize: cs.pageSize, jmode: cs.jmode, maxPages: 25}
	if !h.openConns(1) {
		return
	}
	if !c06Commits(r, h, t, t.Range(1, 3), nil) || h.ref.N() == 0 {
		return
	}
	if cs.wal {
		if !h.toWAL() {
			return
		}
		c06Commits(r, h, t, t.Range(0, 2), nil)
	}
	h.closeConns()
	if r.Failed() {
		return
	}
	cs.ref = h.ref
	for _, n := range []*Node{cs.rep, cs.r2} {
		if err := n.Open(); err != nil {
			r.Inconclusive("open %s: %v", n.Name, err)
			return
		}
	}
	follow := func(n *Node, d time.Duration, why string) bool {
		pos := cs.pdb().Pos()
		return r.Check(waitPos(n, cs.name, pos, d), "c13.follow", "%s did not reach the primary's position %s %s (it is at %s)", n.Name, pos, why, posOf(n, cs.name))
	}
	if !follow(cs.rep, 10*time.Second, "before the first halt") || !follow(cs.r2, 10*time.Second, "before the first halt") {
		return
	}

	steps := t.Range(5, 16)
	for i := 0; i < steps && !r.Failed(); i++ {
		r.Step()
		// expiry is a matter of the clock
		if cs.pHeld && time.Since(cs.grantedAt) > cs.ttl+300*time.Millisecond {
			cs.pHeld = false
		}
		if cs.dynamic && !cs.held && !cs.pHeld && !cs.staleDone && t.Chance(1, 6) {
			cs.staleLockBehindPrimary(t)
			r.State("%v/stale-lock-behind-primary", cs.wal)
			if !r.Check(!cs.p.Exited && !cs.rep.Exited && !cs.r2.Exited, "c13.exit", "a node stopped (p=%v r=%v r2=%v)", cs.p.Exited, cs.rep.Exited, cs.r2.Exited) {
				return
			}
			continue
		}
		kinds := []int{3, 6, 4, 3, 2, 3, 2, 2, 0, 0} // acquire, forwarded tx, local tx on P, release, let it expire, /tx by a stranger, repeated /halt, checkpoint on P, change of primary, acquire and its retry behind a local writer
		if cs.held {
			kinds[0] = 0
		} else {
			kinds[1], kinds[3], kinds[4], kinds[6] = 1, 0, 0, 0
			if !cs.pHeld {
				kinds[9] = 2
			}
		}
		if cs.dynamic {
			kinds[8] = 3
		}
		k := t.Pick(kinds)
		state := "free"
		if cs.held {
			state = "held"
		}
		switch k {
		case 0:
			cs.acquire(t)
		case 1:
			cs.forwarded(t)
		case 2:
			cs.localTx(t)
		case 3:
			cs.release(t)
		case 4:
			cs.expire(t)
		case 5:
			cs.stranger(t)
		case 6:
			cs.repeatAcquire(t)
		case 7:
			cs.checkpointOnP(t)
		case 8:
			cs.changePrimary(t)
		case 9:
			cs.contendedAcquire(t)
		}
		r.State("%v/%s/%d", cs.wal, state, k)
		if !r.Check(!cs.p.Exited && !cs.rep.Exited && !cs.r2.Exited, "c13.exit", "a node stopped (p=%v r=%v r2=%v)", cs.p.Exited, cs.rep.Exited, cs.r2.Exited) {
			return
		}
	}
	if r.Failed() {
		return
	}
	// wind down: release, everybody converges, P writes again
	if cs.held {
		cs.release(t)
	}
	cs.net.HealAll()
	time.Sleep(cs.ttl + time.Second)
	cs.pHeld = false
	res, desc := cs.tx(cs.p, t)
	if r.Check(res.Outcome == OutCommit, "c13.primary-stuck", "with no halt lock outstanding the primary cannot commit (%s): %s at %s (%v)", desc, res.Outcome, res.FailedAt, res.Errno) {
		cs.ref = res.After
	}
	follow(cs.rep, 15*time.Second, "at the end")
	follow(cs.r2, 15*time.Second, "at the end")
	for _, n := range []*Node{cs.p, cs.rep, cs.r2} {
		im, err := ReadDiskImage(n.Store.DBPath(cs.name))
		if r.Check(err == nil, "c13.read", "%v", err) {
			if d := DiffImages(im.LogicalCut(), cs.ref); d != "" {
				r.Failf("c13.identical", "%s at the end: %s", n.Name, d)
			}
		}
	}
}

// acquire: R takes the halt lock through its <db>-lock file.
func (cs *c13sim) acquire(t *Tape) {
	r := cs.r
	f, e := cs.rep.K.Open(cs.name+"-lock", os.O_RDWR, cs.rep.NewOwner())
	if e != 0 {
		r.Failf("c13.lockfile", "opening %s-lock on the replica: %v", cs.name, e)
		return
	}
	// a replica that does not know a primary yet (just restarted, reconnecting)
	// cannot ask anybody: wait until it does
	for dl := time.Now().Add(5 * time.Second); time.Now().Before(dl); time.Sleep(10 * time.Millisecond) {
		if _, info := cs.rep.Store.PrimaryInfo(); info != nil {
			break
		}
	}
	before := cs.pdb().Pos()
	// a replica that is ahead of (or on another history than) the primary it
	// follows now cannot catch up to the lock's position until it has been
	// resnapshotted: its acquire may fail, that is not the property's subject
	inSync := cs.rdb() != nil && cs.rdb().Pos() == before
	lockWait := func() syscall.Errno {
		ctx, cancel := context.WithTimeout(context.Background(), 3*time.Second)
		defer cancel()
		return f.LockWait(ctx, fuse.LockWrite, uint64(litefs.LockTypeHalt), uint64(litefs.LockTypeHalt))
	}
	if !cs.pHeld && t.Chance(1, 5) {
		// the grant takes effect on the primary but its answer is lost; the
		// application retries on the same descriptor (same lock id)
		cs.net.DropResponses(cs.p.ID, 1)
		e = lockWait()
		cs.net.ClearDropResponses()
		r.Logf("acquire with a lost reply => %v", e)
		if e != 0 {
			r.Count("c13.acquire.lost-reply")
			granted := cs.pdb().VerifHaltLock()
			if granted != nil {
				cs.pHeld, cs.grantedAt = true, time.Now()
			}
			r.Check(!cs.rdb().HasRemoteHaltLock(), "c13.acquire", "the acquire failed on the replica but it holds a remote halt lock")
			e = lockWait()
			r.Logf("retried acquire => %v", e)
			if granted != nil && e == 0 {
				now := cs.pdb().VerifHaltLock()
				r.Check(now != nil && now.ID == granted.ID && now.Pos == granted.Pos, "c13.repeat-acquire", "the retried acquire got lock %v, the first request had been granted %v", now, granted)
				r.Count("c13.repeat-acquire.checked")
			}
		}
	} else {
		e = lockWait()
	}
	r.Logf("acquire => %v", e)
	if e != 0 {
		f.Close()
		if cs.pHeld {
			r.Count("c13.acquire.refused-while-held")
			return // an expired-on-R / still-held-on-P lock from an earlier step blocks it: legal
		}
		if !inSync {
			r.Count("c13.acquire.refused-not-in-sync")
			time.Sleep(2 * time.Second) // the lock the primary granted for nothing runs out
			return
		}
		r.Failf("c13.acquire", "the replica cannot take the halt lock although nobody holds it: %v", e)
		return
	}
	cs.lockF, cs.held, cs.pHeld, cs.grantedAt = f, true, true, time.Now()
	hl := cs.pdb().VerifHaltLock()
	if !r.Check(hl != nil, "c13.acquire", "the replica's acquire returned success but the primary holds no halt lock") {
		return
	}
	rl := cs.rdb().RemoteHaltLock()
	if !r.Check(rl != nil && rl.ID == hl.ID, "c13.acquire", "the replica holds lock %v, the primary granted %d", rl, hl.ID) {
		return
	}
	ppos, rpos := cs.pdb().Pos(), cs.rdb().Pos()
	r.Check(hl.Pos == ppos && ppos == before, "c13.grant-position", "lock position %s, primary position %s (before the grant %s)", hl.Pos, ppos, before)
	r.Check(rpos == hl.Pos, "c13.start-position", "the replica starts writing at %s, the primary granted the lock at %s", rpos, hl.Pos)
	r.Count("c13.acquired")
}

// forwarded: a write transaction on R under the halt lock.
func (cs *c13sim) forwarded(t *Tape) {
	r := cs.r
	pBefore, rBefore := cs.pDigest(), cs.rdb().Pos()
	ppos := cs.pdb().Pos()
	// the primary's own record decides whether the lock is live; a lock that
	// runs out during the transaction may be refused or not
	clearlyLive, mayBeLive := false, false
	if lock, rl := cs.pdb().VerifHaltLock(), cs.rdb().RemoteHaltLock(); lock != nil && rl != nil && lock.ID == rl.ID && lock.Expires != nil {
		mayBeLive = lock.Expires.After(time.Now())
		clearlyLive = lock.Expires.After(time.Now().Add(500 * time.Millisecond))
	}
	cs.pHeld = clearlyLive
	// a replica that lags behind (stale lock, primary moved on) works on its own image
	base := cs.ref
	if cs.rdb().Pos() != ppos {
		if im, err := ReadDiskImage(cs.rdb().Path()); err == nil && im.N() > 0 {
			base = im.LogicalCut()
		}
	}
	rBase := base
	res, desc := cs.txOn(cs.rep, t, base)
	r.Logf("forwarded %s => %s at %q (%v); held=%v pHeld=%v", desc, res.Outcome, res.FailedAt, res.Errno, cs.held, cs.pHeld)
	pAfter := cs.pdb().Pos()
	if cs.rep.Exited {
		// CommitWAL cannot make SQLite roll back, so a WAL commit the primary
		// refuses stops the replica's process by design (restart recovery drops
		// the frames). Legal only if the lock was no longer live.
		if !r.Check(cs.wal && cs.rep.ExitCode == 99 && !(cs.held && cs.pHeld), "c13.exit", "the replica stopped (Exit %d) in forwarded transaction %s although it holds a live halt lock (wal %v)", cs.rep.ExitCode, desc, cs.wal) {
			return
		}
		r.Count("c13.forwarded.refused-wal-exit")
		r.Check(cs.pDigest() == pBefore, "c13.refused-changed", "the refused WAL commit of a former holder changed the primary:\n before %s\n after  %s", pBefore, cs.pDigest())
		if cs.lockF != nil {
			cs.lockF = nil // the process is gone
		}
		cs.held = false
		cs.rep.Close()
		if err := cs.rep.RestartFrom(cs.rep.ExitImage); err != nil {
			r.Failf("c13.restart", "the replica cannot restart after the refused WAL commit: %v", err)
			return
		}
		r.Check(waitPos(cs.rep, cs.name, cs.pdb().Pos(), 15*time.Second), "c13.follow", "after the restart the replica does not reach the primary's position %s (it is at %s)", cs.pdb().Pos(), posOf(cs.rep, cs.name))
		return
	}
	if res.Outcome == OutCommit {
		if !r.Check(cs.held, "c13.former-holder-published", "a replica that holds no halt lock committed %s", desc) {
			return
		}
		rpos := cs.rdb().Pos()
		if !r.Check(pAfter == rpos && pAfter.TXID == ppos.TXID+1, "c13.ack", "the forwarded commit %s returned success on the replica at %s but the primary is at %s (was %s)", desc, rpos, pAfter, ppos) {
			return
		}
		cs.ref = res.After
		pim, err := ReadDiskImage(cs.pdb().Path())
		if r.Check(err == nil, "c13.read", "%v", err) {
			if d := DiffImages(pim.LogicalCut(), cs.ref); d != "" {
				r.Failf("c13.ack", "after the forwarded commit %s the primary's database differs from the replica's: %s", desc, d)
				return
			}
		}
		r.Check(uint64(pAfter.PostApplyChecksum) == cs.ref.Checksum(), "c13.ack", "primary position checksum %s, image %016x", pAfter.PostApplyChecksum, cs.ref.Checksum())
		if mayBeLive {
			r.Count("c13.forwarded.checked")
		} else {
			// R still believed in a lock that P had already dropped (expiry)
			r.Failf("c13.former-holder-published", "the primary accepted %s from a replica whose halt lock was no longer granted when the transaction began", desc)
			return
		}
		if cs.skipThird {
			return // the other replica is cut off on purpose
		}
		if r.Check(waitPos(cs.r2, cs.name, pAfter, 10*time.Second), "c13.third-replica", "the other replica did not reach the forwarded transaction %s", pAfter) {
			im, _ := ReadDiskImage(cs.r2.Store.DBPath(cs.name))
			if d := DiffImages(im, cs.ref); d != "" {
				r.Failf("c13.third-replica", "the other replica differs at %s: %s", pAfter, d)
			}
		}
		return
	}
	// refused: neither node may have moved
	r.Count("c13.forwarded.refused")
	if !cs.held {
		r.Check(res.Errno != 0 || res.Outcome == "busy", "c13.former-holder-published", "write on a replica without the halt lock ended with %s", res.Outcome)
	}
	r.Check(cs.pDigest() == pBefore, "c13.refused-changed", "a refused transaction on the replica (%s at %s) changed the primary:\n before %s\n after  %s", res.Outcome, res.FailedAt, pBefore, cs.pDigest())
	if cs.held && cs.pHeld && res.Outcome == "error" {
		// nothing was wrong: the holder of a live lock must be able to commit
		r.Failf("c13.holder-refused", "the holder of a live halt lock could not commit %s: %s at %s (%v)", desc, res.Outcome, res.FailedAt, res.Errno)
		return
	}
	// A refused rollback-journal commit leaves a hot journal behind. SQLite
	// would play it back before anything else and LiteFS does so itself when
	// the halt lock goes away; the application here gives the lock up.
	if jb, err := os.ReadFile(cs.rdb().JournalPath()); err == nil && len(jb) >= 8 && bytes.Equal(jb[:8], journalMagic) && cs.held {
		r.Count("c13.forwarded.refused-hot-journal")
		if !cs.pHeld && cs.dynamic && (cs.newPrimaryFirst || t.Chance(1, 2)) {
			// The lock went with the primary that granted it. Before the
			// application gives it up, the new primary's stream reaches the
			// replica (a snapshot, if the new primary is behind): it must not be
			// applied around the interrupted transaction's journal.
			if waitPos(cs.rep, cs.name, cs.pdb().Pos(), 3*time.Second) {
				r.Count("c13.forwarded.refused-hot-journal.new-primary-first")
			}
		}
		cs.release(t)
		jb, _ = os.ReadFile(cs.rdb().JournalPath())
		r.Check(len(jb) < 8 || !bytes.Equal(jb[:8], journalMagic), "c13.refused-changed", "after the refused commit and the release of the halt lock the replica still has a hot journal")
		im, err := ReadDiskImage(cs.rdb().Path())
		if err == nil {
			if d := DiffImages(im.LogicalCut(), rBase); d != "" && cs.rdb().Pos() == rBefore {
				r.Failf("c13.refused-changed", "after the refused commit and the release the replica's database is not the committed image at %s: %s", rBefore, d)
			}
		}
	}
	// give LiteFS a moment, then the replica is back at a committed position
	time.Sleep(100 * time.Millisecond)
	rp := cs.rdb().Pos()
	r.Check(rp == rBefore || rp == cs.pdb().Pos(), "c13.refused-changed", "after a refused transaction the replica is at %s (before: %s, primary: %s)", rp, rBefore, cs.pdb().Pos())
}

// localTx: a local writer on the primary.
func (cs *c13sim) localTx(t *Tape) {
	r := cs.r
	before := cs.pDigest()
	res, desc := cs.tx(cs.p, t)
	r.Logf("local %s on the primary => %s at %q (%v); pHeld=%v", desc, res.Outcome, res.FailedAt, res.Errno, cs.pHeld)
	lock := cs.pdb().VerifHaltLock()
	live := lock != nil && lock.Expires != nil && lock.Expires.After(time.Now())
	if res.Outcome == OutCommit {
		if !r.Check(!live, "c13.local-commit-while-halted", "the primary committed a local transaction (%s) while halt lock %v is granted and not expired", desc, lock) {
			return
		}
		cs.ref = res.After
		if cs.held {
			// the primary moved on: R's lock is void from now on (expired on P)
			cs.pHeld = false
		}
		r.Count("c13.local.committed")
		return
	}
	r.Count("c13.local.refused")
	r.Check(cs.pDigest() == before, "c13.local-refused-changed", "a refused local transaction changed the primary:\n before %s\n after  %s", before, cs.pDigest())
	if !live && !cs.pHeld {
		r.Failf("c13.primary-stuck", "no halt lock is outstanding but the primary's local transaction %s was refused: %s at %s (%v)", desc, res.Outcome, res.FailedAt, res.Errno)
	}
}

func (cs *c13sim) checkpointOnP(t *Tape) {
	r := cs.r
	before := cs.pDigest()
	lock := cs.pdb().VerifHaltLock()
	live := lock != nil && lock.Expires != nil && lock.Expires.After(time.Now())
	ctx, cancel := context.WithTimeout(context.Background(), 50*time.Millisecond)
	err := cs.pdb().Checkpoint(ctx)
	cancel()
	r.Logf("checkpoint on the primary => %v (halt live %v)", err, live)
	if live {
		r.Check(err != nil, "c13.checkpoint-while-halted", "the primary ran a checkpoint while halt lock %d is granted", lock.ID)
		r.Check(cs.pDigest() == before, "c13.checkpoint-while-halted", "a checkpoint attempt under a halt lock changed the primary: %s -> %s", before, cs.pDigest())
	}
}

func (cs *c13sim) release(t *Tape) {
	r := cs.r
	if cs.lockF == nil {
		return
	}
	lostReply := t.Chance(1, 5)
	if lostReply {
		// the release reaches the primary but its answer is lost
		cs.net.DropResponses(cs.p.ID, 1)
	}
	// Sometimes another connection on the replica is in a read transaction while
	// the lock is given back: the recovery that goes with the release (journal
	// rollback, checkpoint) has to wait for it like any writer would.
	var reader *Conn
	if t.Chance(1, 3) {
		rc := cs.rep.NewConn(cs.name, cs.jmode, cs.pageSize)
		if rc.Open() == 0 {
			ok := rc.LockShared() == 0
			if ok && cs.wal {
				ok = rc.WalOpen() == 0
				if ok {
					_, e := rc.WalBeginRead()
					ok = e == 0
				}
			}
			if ok {
				reader = rc
				installInternalWriteMonitor(r, cs.rep, "c13", func(*litefs.DB) (bool, bool) { return cs.wal, true })
				r.Count("c13.release.with-reader")
			} else {
				rc.Close()
			}
		}
	}
	// the unlock is a plain system call for the application: it has no way to time out
	done := make(chan syscall.Errno, 1)
	lf := cs.lockF
	go func() { done <- lf.Lock(fuse.LockUnlock, uint64(litefs.LockTypeHalt), uint64(litefs.LockTypeHalt)) }()
	var e syscall.Errno
	if reader != nil {
		// let the release run into the reader's locks, then end the read transaction
		select {
		case e = <-done:
			done <- e
		case <-time.After(300 * time.Millisecond):
		}
		if cs.wal {
			reader.WalEndRead()
		}
		reader.UnlockAll()
		reader.Close()
		cs.rep.SetPageOpHook(nil)
		cs.rep.K.OnCall = nil
		if r.Failed() {
			return
		}
	}
	select {
	case e = <-done:
	case <-time.After(30 * time.Second):
		r.Failf("c13.release-hang", "releasing the halt lock on the replica has not returned after 30 s (primary at %s, replica at %s)", cs.pdb().Pos(), cs.rdb().Pos())
		cs.lockF, cs.held = nil, false
		return
	}
	cs.net.ClearDropResponses()
	cs.lockF.Close()
	cs.lockF, cs.held = nil, false
	r.Logf("release => %v (lost reply %v)", e, lostReply)
	time.Sleep(50 * time.Millisecond)
	if cs.pHeld {
		lock := cs.pdb().VerifHaltLock()
		if !r.Check(lock == nil, "c13.release", "after the release (answer %v) the primary still holds halt lock %v", e, lock) {
			return
		}
	}
	cs.pHeld = false
	r.Check(!cs.rdb().HasRemoteHaltLock(), "c13.release", "the replica still holds a remote halt lock after releasing it")
	r.Count("c13.released")
}

// expire: R goes silent (optionally partitioned) until the TTL is over.
func (cs *c13sim) expire(t *Tape) {
	r := cs.r
	part := t.Chance(1, 2)
	if part {
		cs.net.Partition(cs.p.ID, cs.rep.ID, true)
	}
	time.Sleep(cs.ttl + time.Duration(t.Range(200, 1500))*time.Millisecond)
	lock := cs.pdb().VerifHaltLock()
	r.Check(lock == nil, "c13.expiry", "%v after the grant (TTL %v) the primary still holds halt lock %v", time.Since(cs.grantedAt), cs.ttl, lock)
	cs.pHeld = false
	if part {
		cs.net.HealAll()
	}
	r.Count("c13.expired")
	// R may or may not have noticed; cs.held stays as R believes
	if !cs.rdb().HasRemoteHaltLock() {
		if cs.lockF != nil {
			cs.lockF.Close()
			cs.lockF = nil
		}
		cs.held = false
	}
}

// stranger: POST /tx by somebody who does not hold the lock.
func (cs *c13sim) stranger(t *Tape) {
	r := cs.r
	// a well-formed next file, built on a donor copy of the primary
	img, err := cs.p.Image(fmt.Sprintf("donor%d", r.Steps))
	if err != nil {
		r.Inconclusive("image: %v", err)
		return
	}
	donor, err := c17Open(r, img)
	if err != nil {
		r.Count("c13.stranger.no-donor")
		return
	}
	defer func() { donor.Fence(); donor.Close() }()
	donor.WaitPrimary(5 * time.Second)
	hd := &hist{r: r, n: donor, name: cs.name, pageSize: cs.pageSize, jmode: cs.jmode, maxPages: 25, ref: cs.ref, wal: cs.wal}
	if !hd.openConns(1) {
		return
	}
	ok := c06Commits(r, hd, t, 1, nil)
	hd.closeConns()
	cur := cs.pdb().Pos()
	ddb := donor.Store.DB(cs.name)
	if !ok || ddb == nil || ddb.Pos().TXID != cur.TXID+1 {
		return
	}
	good, err := os.ReadFile(ddb.LTXPath(cur.TXID+1, cur.TXID+1))
	if err != nil {
		return
	}
	lock := cs.pdb().VerifHaltLock()
	live := lock != nil && lock.Expires != nil && lock.Expires.After(time.Now())
	var lockID int64
	who := ""
	switch t.Next(3) {
	case 0:
		lockID, who = 0, "no lock id"
	case 1:
		lockID, who = 424242, "an unknown lock id"
	default:
		if live {
			lockID, who = lock.ID+1, "a wrong lock id"
		} else {
			lockID, who = 777, "a lock id although nothing is granted"
		}
	}
	before := cs.pDigest()
	res := cs.p.HTTP(context.Background(), "POST", fmt.Sprintf("/tx?name=%s&lockID=%d", cs.name, lockID), map[string]string{"Litefs-Id": "00000000000F4240"}, bytes.NewReader(good), false)
	r.Logf("stranger /tx with %s => %d (halt live %v)", who, res.Code, live)
	if !r.Check(!res.Panicked, "c13.panic", "/tx panicked: %s", res.PanicMsg) {
		return
	}
	r.Check(res.Code != 200, "c13.stranger-accepted", "POST /tx with %s was accepted (halt lock granted: %v): position %s -> %s", who, live, cur, cs.pdb().Pos())
	r.Check(cs.pDigest() == before, "c13.stranger-accepted", "POST /tx with %s changed the primary:\n before %s\n after  %s", who, before, cs.pDigest())
	if cs.pdb().Pos() != cur {
		// keep the reference in step so that later checks speak about the real state
		cs.ref = hd.ref
		cs.pHeld = cs.pHeld && false
	}
	r.Count("c13.stranger.checked")
}

// staleLockBehindPrimary: the replica holds the lock and has forwarded a
// transaction the other replica never received (it is cut off); then the
// primary goes and the other replica - one transaction behind - takes over. The
// holder's next transaction is refused by the new primary and leaves its
// journal; the new primary's snapshot of the earlier position reaches the
// holder before the application gives the lock up. Everybody must end on the
// new primary's history, nobody stops.
func (cs *c13sim) staleLockBehindPrimary(t *Tape) {
	r := cs.r
	cs.staleDone = true
	cs.acquire(t)
	if r.Failed() || !cs.held {
		return
	}
	cs.net.Partition(cs.p.ID, cs.r2.ID, true)
	cs.net.Partition(cs.rep.ID, cs.r2.ID, true)
	for i := 0; i < 4 && !r.Failed(); i++ {
		before := cs.pdb().Pos()
		cs.skipThird = true
		cs.forwarded(t)
		cs.skipThird = false
		if cs.pdb().Pos() != before {
			break
		}
		if !cs.held {
			break
		}
	}
	if r.Failed() || !cs.held {
		cs.net.HealAll()
		return
	}
	cs.changePrimary(t)
	cs.net.HealAll()
	if r.Failed() {
		return
	}
	r.Count("c13.stale-lock.primary-changed")
	cs.newPrimaryFirst = true
	cs.forwarded(t) // refused by the new primary; the hot-journal branch releases
	cs.newPrimaryFirst = false
	if r.Failed() {
		return
	}
	if cs.held {
		cs.release(t)
	}
	cs.localTx(t)
	if r.Failed() {
		return
	}
	for _, n := range []*Node{cs.rep, cs.r2} {
		if !r.Check(!n.Exited, "c13.exit", "%s stopped (Exit %d) after the primary it held a halt lock from was replaced by one that was behind", n.Name, n.ExitCode) {
			return
		}
		if !r.Check(waitPos(n, cs.name, cs.pdb().Pos(), 15*time.Second), "c13.follow", "%s did not reach the new primary's position %s (it is at %s)", n.Name, cs.pdb().Pos(), posOf(n, cs.name)) {
			return
		}
		im, err := ReadDiskImage(n.Store.DBPath(cs.name))
		if err == nil {
			if d := DiffImages(im.LogicalCut(), cs.ref); d != "" {
				r.Failf("c13.identical", "%s after the change to a primary that was behind: %s", n.Name, d)
				return
			}
		}
	}
	r.Count("c13.stale-lock.checked")
}

// contendedAcquire: a /halt request and its retry (same id: an interrupted call
// that the client repeats) both arrive while a local writer on the primary holds
// the write lock; then the writer finishes. Both must be answered with the same
// lock, and after its release no lock with that id may come back.
func (cs *c13sim) contendedAcquire(t *Tape) {
	r := cs.r
	if cs.held || cs.pHeld || cs.pdb() == nil || cs.pdb().VerifHaltLock() != nil {
		return
	}
	if t.Chance(1, 2) {
		cs.acquireBehindCommit(t)
		return
	}
	pc := cs.p.NewConn(cs.name, cs.jmode, cs.pageSize)
	if pc.Open() != 0 {
		return
	}
	defer pc.Close()
	ok := pc.LockShared() == 0
	if ok && cs.wal {
		ok = pc.WalOpen() == 0
		if ok {
			_, e := pc.WalBeginRead()
			ok = e == 0
		}
		if ok {
			_, e := pc.WalBeginWrite()
			ok = e == 0
		}
	} else if ok {
		ok = pc.LockReserved() == 0
	}
	endWriter := func() {
		if cs.wal {
			pc.WalEndWrite()
			pc.WalEndRead()
		}
		pc.UnlockAll()
	}
	if !ok {
		endWriter()
		return
	}
	before := cs.pdb().Pos()
	lockID := int64(t.Range(1000, 1<<30))
	hdr := map[string]string{"Litefs-Id": litefs.FormatNodeID(cs.rep.Store.ID())}
	target := fmt.Sprintf("/halt?name=%s&id=%d", cs.name, lockID)
	ch := make(chan HTTPResult, 2)
	post := func() {
		ctx, cancel := context.WithTimeout(context.Background(), 10*time.Second)
		defer cancel()
		ch <- cs.p.HTTP(ctx, "POST", target, hdr, nil, false)
	}
	go post()
	time.Sleep(time.Duration(t.Range(5, 150)) * time.Millisecond)
	go post()
	time.Sleep(time.Duration(t.Range(5, 250)) * time.Millisecond)
	endWriter()
	var locks []litefs.HaltLock
	for i := 0; i < 2; i++ {
		var res HTTPResult
		select {
		case res = <-ch:
		case <-time.After(20 * time.Second):
			r.Failf("c13.repeat-acquire", "a /halt request that waited behind a local writer has not been answered 20 s after the writer finished")
			return
		}
		if !r.Check(res.Code == 200 && !res.Panicked, "c13.repeat-acquire", "of two /halt requests with id %d that waited behind a local writer (which finished well inside the acquire time-out) one answered %d %s", lockID, res.Code, strings.TrimSpace(string(res.Body))) {
			return
		}
		var got litefs.HaltLock
		if err := json.Unmarshal(res.Body, &got); err != nil {
			r.Failf("c13.repeat-acquire", "decode: %v", err)
			return
		}
		locks = append(locks, got)
	}
	now := cs.pdb().VerifHaltLock()
	if !r.Check(now != nil && now.ID == lockID, "c13.repeat-acquire", "both /halt requests with id %d were answered 200, the primary's granted lock is %v", lockID, now) {
		return
	}
	r.Check(locks[0].ID == lockID && locks[1].ID == lockID && locks[0].Pos == locks[1].Pos && locks[0].Pos == now.Pos && now.Pos == before, "c13.repeat-acquire", "the call and its retry got locks %d @%s and %d @%s; granted is %d @%s, the primary was at %s", locks[0].ID, locks[0].Pos, locks[1].ID, locks[1].Pos, now.ID, now.Pos, before)
	// while it is held a local transaction is refused ...
	if res, desc := cs.txOn(cs.p, t, cs.ref); res.Outcome == OutCommit {
		r.Failf("c13.exclusive", "a local transaction on the primary committed while halt lock %d was held (%s)", lockID, desc)
		return
	}
	// ... the holder gives it back ...
	ctx, cancel := context.WithTimeout(context.Background(), 10*time.Second)
	res := cs.p.HTTP(ctx, "DELETE", target, hdr, nil, false)
	cancel()
	if !r.Check(res.Code == 200 && !res.Panicked, "c13.release", "DELETE /halt for the granted lock %d answered %d %s", lockID, res.Code, strings.TrimSpace(string(res.Body))) {
		return
	}
	// ... and it stays released: nothing that was still queued may grant it again
	time.Sleep(1500 * time.Millisecond)
	again := cs.pdb().VerifHaltLock()
	if !r.Check(again == nil, "c13.release", "halt lock %d was released by its holder; 1.5 s later the primary holds halt lock %v again", lockID, again) {
		return
	}
	tr, desc := cs.tx(cs.p, t)
	if r.Check(tr.Outcome == OutCommit, "c13.primary-stuck", "after halt lock %d was released the primary cannot commit (%s): %s at %s (%v)", lockID, desc, tr.Outcome, tr.FailedAt, tr.Errno) {
		cs.ref = tr.After
	}
	r.Count("c13.contended-acquire.checked")
}

// acquireBehindCommit: the /halt request (and its retry) arrive while a local
// transaction of the primary is inside its commit (LiteFS is held up at one of
// the file operations of CommitJournal / CommitWAL, the write lock is held). The
// transaction commits, then the lock is granted: its position has to be the
// primary's position at the grant, i.e. the one that includes that transaction.
func (cs *c13sim) acquireBehindCommit(t *Tape) {
	r := cs.r
	lockID := int64(t.Range(1000, 1<<30))
	stall := time.Duration(t.Range(40, 400)) * time.Millisecond
	d1 := time.Duration(t.Range(1, 30)) * time.Millisecond
	d2 := time.Duration(t.Range(1, 30)) * time.Millisecond
	nth := t.Range(1, 4)
	before := cs.pdb().Pos()
	started := make(chan struct{})
	var seen int
	var fired bool
	prev := cs.p.OS.Hook
	cs.p.OS.Hook = func(phase, call, op, path string) {
		if prev != nil {
			prev(phase, call, op, path)
		}
		if phase == "pre" && !fired && (strings.HasPrefix(op, "COMMITJOURNAL") || strings.HasPrefix(op, "COMMITWAL")) {
			if seen++; seen == nth {
				fired = true
				close(started)
				time.Sleep(stall)
			}
		}
	}
	type txr struct {
		res  TxResult
		desc string
	}
	done := make(chan txr, 1)
	go func() {
		res, desc := cs.txOn(cs.p, t, cs.ref)
		done <- txr{res, desc}
	}()
	var tr txr
	select {
	case <-started:
	case tr = <-done:
		// the commit has fewer file operations than asked for: nothing was held up
		cs.p.OS.Hook = prev
		if tr.res.Outcome == OutCommit {
			cs.ref = tr.res.After
		}
		return
	}
	hdr := map[string]string{"Litefs-Id": litefs.FormatNodeID(cs.rep.Store.ID())}
	target := fmt.Sprintf("/halt?name=%s&id=%d", cs.name, lockID)
	ch := make(chan HTTPResult, 2)
	post := func() {
		ctx, cancel := context.WithTimeout(context.Background(), 10*time.Second)
		defer cancel()
		ch <- cs.p.HTTP(ctx, "POST", target, hdr, nil, false)
	}
	go post()
	time.Sleep(d1)
	go post()
	time.Sleep(d2)
	tr = <-done
	cs.p.OS.Hook = prev
	if !r.Check(tr.res.Outcome == OutCommit, "c13.primary-stuck", "a local transaction of the primary (%s) that was inside its commit when /halt arrived ended %s at %s (%v)", tr.desc, tr.res.Outcome, tr.res.FailedAt, tr.res.Errno) {
		return
	}
	cs.ref = tr.res.After
	after := cs.pdb().Pos()
	for i := 0; i < 2; i++ {
		var res HTTPResult
		select {
		case res = <-ch:
		case <-time.After(20 * time.Second):
			r.Failf("c13.repeat-acquire", "a /halt request that waited behind a committing local transaction has not been answered 20 s after it finished")
			return
		}
		if !r.Check(res.Code == 200 && !res.Panicked, "c13.repeat-acquire", "of two /halt requests with id %d that waited behind a committing local transaction one answered %d %s", lockID, res.Code, strings.TrimSpace(string(res.Body))) {
			return
		}
		var got litefs.HaltLock
		if err := json.Unmarshal(res.Body, &got); err != nil {
			r.Failf("c13.repeat-acquire", "decode: %v", err)
			return
		}
		if !r.Check(got.ID == lockID && got.Pos == after, "c13.grant-position", "halt lock %d was requested while a local transaction of the primary was committing (%s -> %s); it was granted after that commit with position %s: the holder would start writing from a position that is not the primary's", lockID, before, after, got.Pos) {
			return
		}
	}
	now := cs.pdb().VerifHaltLock()
	if !r.Check(now != nil && now.ID == lockID && now.Pos == after, "c13.grant-position", "the primary is at %s; its granted halt lock is %v", after, now) {
		return
	}
	ctx, cancel := context.WithTimeout(context.Background(), 10*time.Second)
	res := cs.p.HTTP(ctx, "DELETE", target, hdr, nil, false)
	cancel()
	if !r.Check(res.Code == 200 && !res.Panicked, "c13.release", "DELETE /halt for the granted lock %d answered %d %s", lockID, res.Code, strings.TrimSpace(string(res.Body))) {
		return
	}
	// the replica follows to the new position
	if !waitPos(cs.rep, cs.name, after, 20*time.Second) {
		r.Failf("c13.follow", "the replica did not reach %s after the halt lock was given back (it is at %s)", after, posOf(cs.rep, cs.name))
		return
	}
	r.Count("c13.acquire-behind-commit.checked")
}

// repeatAcquire: the same /halt request again (a retried call).
func (cs *c13sim) repeatAcquire(t *Tape) {
	r := cs.r
	lock := cs.pdb().VerifHaltLock()
	if lock == nil {
		return
	}
	id := litefs.FormatNodeID(cs.rep.Store.ID())
	res := cs.p.HTTP(context.Background(), "POST", fmt.Sprintf("/halt?name=%s&id=%d", cs.name, lock.ID), map[string]string{"Litefs-Id": id}, nil, false)
	if !r.Check(res.Code == 200 && !res.Panicked, "c13.repeat-acquire", "a repeated /halt with the id of the granted lock answered %d %s", res.Code, strings.TrimSpace(string(res.Body))) {
		return
	}
	var got litefs.HaltLock
	if err := json.Unmarshal(res.Body, &got); err != nil {
		r.Failf("c13.repeat-acquire", "decode: %v", err)
		return
	}
	r.Check(got.ID == lock.ID && got.Pos == lock.Pos, "c13.repeat-acquire", "a repeated /halt returned lock %d @%s, the granted lock is %d @%s", got.ID, got.Pos, lock.ID, lock.Pos)
	now := cs.pdb().VerifHaltLock()
	r.Check(now != nil && now.ID == lock.ID, "c13.repeat-acquire", "after a repeated /halt the granted lock is %v", now)
	r.Count("c13.repeat-acquire.checked")
}

var _ = syscall.EAGAIN
var _ = ltx.Pos{}
