package verifsim

import (
	"context"
	"fmt"
	"syscall"

	"github.com/superfly/litefs"
	"github.com/superfly/ltx"
)

func init() {
	register(&CheckDef{
		ID:    "C03",
		Level: "exploration",
		Rule:  "seeded generation of SQLite WAL programs on a primary: write transactions of any number of frames with repeated pages, split frame-header writes, rolled-back frames later overwritten, log restarts with new salts after application checkpoints (PASSIVE/FULL/RESTART/TRUNCATE) and LiteFS's own checkpoints, growth and shrink incl. across 256-page blocks, both checksum byte orders, all page sizes, several connections taking turns, connection close/reopen and last-connection close, death of the writing process between publishing a commit and releasing the write lock (descriptors closed in opening order); after every release of the WAL write lock the position, the new LTX file (pages, size, WAL offset/size/salts) and the image are compared with the simulated SQLite side; a case is one executed operation; distinct = distinct (pagesize, operation, outcome, grow/shrink/same, repeat, new-log, byte order, cross-256) tuple; non-trivial = run with at least one captured WAL commit",
		Run:   runC03,
		NonTrivial: func(r *Run) bool {
			return r.Stats["c03.commit.checked"] > 0
		},
		Assumptions: []string{
			"PagerSim's WAL protocol model (wal.c shapes per DESIGN §4.2 strace ground truth); wal-index hash tables are not modelled",
			"the -shm file is modelled as a shared mapping with lazy write-back; LiteFS does not read the parts SQLite writes except the first header copy",
		},
		Real: []string{"litefs.DB (CommitWAL, WriteWALAt, buildTxFrameOffsets, checksum cache, CheckpointNoLock, updateSHM, TryLocks CKPT rule)", "litefs/fuse WAL/SHM/database handles", "superfly/ltx"},
		Stub: []string{"SimKernel", "PagerSim (WAL mode)"},
	})
}

// walSetup creates a WAL-mode database on node n through connection c the way
// SQLite does: an initial rollback-journal transaction that creates page 1
// with read/write version 2, then the WAL is opened.
func walSetup(r *Run, c *Conn, initPages uint32) (*Image, bool) {
	if e := c.Open(); e != 0 {
		r.Failf("wal.setup", "create database: %v", e)
		return nil, false
	}
	c.Mode = ModeDelete
	res := c.WriteTx(TxProgram{NewSize: initPages, Outcome: OutCommit, SetWAL: 1}, nil)
	if res.Outcome != OutCommit {
		r.Failf("wal.setup", "initial journal-mode transaction (switch to WAL) refused at %s: %v", res.FailedAt, res.Errno)
		return nil, false
	}
	if e := c.WalOpen(); e != 0 {
		r.Failf("wal.setup", "opening WAL/SHM failed: %v", e)
		return nil, false
	}
	return res.After, true
}

func runC03(r *Run) {
	t := r.Tape
	pageSize := pickPageSize(t)
	compress := t.Chance(1, 2)
	nops := t.Range(4, 30)
	if r.Thorough() {
		nops = t.Range(6, 60)
	}
	maxPages := uint32(60)
	if pageSize <= 1024 {
		maxPages = 700
	}
	nconn := t.Range(1, 3)
	r.Cfg["page_size"], r.Cfg["lz4"], r.Cfg["ops"], r.Cfg["conns"] = pageSize, compress, nops, nconn
	n := newStaticPrimary(r, compress, nil)
	if n == nil {
		return
	}
	const dbName = "db"
	conns := make([]*Conn, nconn)
	for i := range conns {
		conns[i] = n.NewConn(dbName, ModeWAL, pageSize)
		conns[i].wal = nil
	}
	initPages := uint32(t.Range(1, 4))
	if maxPages >= 700 && t.Chance(1, 3) {
		initPages = BigSize(t, maxPages)
	}
	r.Cfg["init_pages"] = initPages
	ref, ok := walSetup(r, conns[0], initPages)
	if !ok {
		return
	}
	conns[0].wal.bigEnd = t.Chance(1, 4)
	for _, c := range conns[1:] {
		if e := c.Open(); e != 0 {
			r.Failf("c03.open", "open: %v", e)
			return
		}
		if e := c.WalOpen(); e != 0 {
			r.Failf("c03.open", "wal open: %v", e)
			return
		}
		c.wal.bigEnd = t.Chance(1, 4)
	}
	db := n.Store.DB(dbName)
	r.Check(db.Mode() == litefs.DBModeWAL, "c03.mode", "database not in WAL mode after the header switch")
	sub := n.Store.SubscribeEvents()
	defer sub.Stop()
	drainTxEvents(sub, dbName)
	// the position at the instant the WAL write lock becomes free: a committed
	// transaction is captured when the lock is released, not some time after
	// (between the two another connection could already take the lock)
	var posAtUnlock ltx.Pos
	var unlocks int
	db.VerifSetLockHook(func(lt litefs.LockType, prev, next litefs.RWMutexState) {
		if lt == litefs.LockTypeWrite && prev == litefs.RWMutexStateExclusive && next == litefs.RWMutexStateUnlocked {
			posAtUnlock = db.Pos()
			unlocks++
		}
	})

	var ops []string
	reopen := func(c *Conn) bool {
		c.Close()
		if e := c.Open(); e != 0 {
			r.Failf("c03.open", "reopen: %v", e)
			return false
		}
		if e := c.WalOpen(); e != 0 {
			r.Failf("c03.open", "wal reopen: %v", e)
			return false
		}
		c.wal.bigEnd = t.Chance(1, 4)
		return true
	}

	for i := 0; i < nops && !r.Failed(); i++ {
		r.Step()
		c := conns[t.Next(nconn)]
		prev := db.Pos()
		unlocks = 0
		kind := t.Pick([]int{60, 10, 14, 4, 4, 4, 4})
		var desc string
		expectAdvance := false
		var want = ref
		var res TxResult
		switch kind {
		case 0: // write transaction
			prog := GenWalProgram(t, ref.N(), maxPages)
			// now and then the writing process is killed between publishing its
			// commit and releasing the write lock: the close of its descriptors
			// releases the lock, and that release has to capture the transaction
			died := prog.Outcome == OutCommit && t.Chance(1, 12)
			prog.DieBeforeUnlock = died
			res = c.WalWriteTx(prog, ref)
			if died {
				r.Count("c03.writer-died-before-unlock")
				if e := c.Open(); e != 0 {
					r.Failf("c03.open", "reopen after the writer's death: %v", e)
					return
				}
				if e := c.WalOpen(); e != 0 {
					r.Failf("c03.open", "wal reopen after the writer's death: %v", e)
					return
				}
				c.wal.bigEnd = t.Chance(1, 4)
			}
			cur := ref.N()
			shape := "same"
			if prog.NewSize > cur {
				shape = "grow"
			} else if prog.NewSize < cur {
				shape = "shrink"
			}
			cross := cur > 0 && (cur-1)/256 != (prog.NewSize-1)/256
			desc = fmt.Sprintf("write %s size %d->%d mod=%d repeat=%d split=%v => %s", prog.Outcome, cur, prog.NewSize, len(prog.Modify), len(prog.Repeat), prog.SplitHdr, res.Outcome)
			r.State("%d/write/%s/%s/rep%v/cross%v/big%v", pageSize, res.Outcome, shape, len(prog.Repeat) > 0, cross, c.wal != nil && c.wal.hdr.bigEnd)
			if res.Outcome == "error" || res.Outcome == "busy" {
				checkNodeHealthy(r, n, "c03")
				if prog.Outcome == OutCommit {
					r.Failf("c03.commit-refused", "a legal WAL commit was refused at %s: errno %d (%v)", res.FailedAt, int(res.Errno), res.Errno)
				} else {
					r.Count("c03.refused." + res.FailedAt)
				}
				break
			}
			if res.Outcome == OutCommit {
				expectAdvance = true
				want = res.After
			}
		case 1: // read transaction
			got, e := c.WalReadTx()
			desc = fmt.Sprintf("read => %v", e)
			if r.Check(e == 0, "c03.read", "read transaction failed: %v", e) {
				if d := DiffImages(got, ref); d != "" {
					r.Failf("c03.read", "WAL-mode reader sees a different image: %s", d)
				}
			}
			r.State("%d/read", pageSize)
		case 2: // application checkpoint
			mode := []string{CkptPassive, CkptFull, CkptRestart, CkptTruncate}[t.Next(4)]
			at, e := c.WalCheckpoint(mode)
			desc = fmt.Sprintf("checkpoint %s => %s %v", mode, at, e)
			if e != 0 && e != syscall.EAGAIN {
				r.Failf("c03.ckpt-refused", "application checkpoint %s refused at %s: errno %d (%v)", mode, at, int(e), e)
			}
			r.State("%d/ckpt/%s/%v", pageSize, mode, e == 0)
		case 3: // LiteFS's own checkpoint (as on role change / halt)
			err := db.Checkpoint(context.Background())
			desc = fmt.Sprintf("litefs-checkpoint => %v", err)
			r.Check(err == nil, "c03.litefs-ckpt", "LiteFS checkpoint failed: %v", err)
			r.Count("c03.litefs-ckpt")
			r.State("%d/litefs-ckpt", pageSize)
		case 4: // close and reopen one connection
			desc = "reopen"
			if !reopen(c) {
				return
			}
			r.State("%d/reopen", pageSize)
		case 5: // lazy write-back of the shared mapping
			desc = "shm-writeback"
			c.wal.shmf.ShmWriteback()
		case 6: // every connection closes (last one checkpoints and unlinks), then all reopen
			desc = "close-all"
			for j, cc := range conns {
				if j < len(conns)-1 {
					cc.Close()
				}
			}
			last := conns[len(conns)-1]
			at, e := last.WalCloseLast(ref)
			if e != 0 {
				r.Failf("c03.close-refused", "last-connection close refused at %s: %v", at, e)
				break
			}
			last.Close()
			for _, cc := range conns {
				if e := cc.Open(); e != 0 {
					r.Failf("c03.open", "reopen after close-all: %v", e)
					return
				}
				if e := cc.WalOpen(); e != 0 {
					r.Failf("c03.open", "wal reopen after close-all: %v", e)
					return
				}
				cc.wal.bigEnd = t.Chance(1, 4)
			}
			r.Count("c03.close-all")
			r.State("%d/close-all", pageSize)
		}
		if r.Failed() {
			break
		}
		now := db.Pos()
		ops = append(ops, desc)
		r.Logf("op %d: %s pos %s -> %s", i, desc, prev, now)
		checkNodeHealthy(r, n, "c03")
		evs := drainTxEvents(sub, dbName)
		if expectAdvance {
			if !r.Check(now.TXID == prev.TXID+1, "c03.capture", "a committed WAL transaction released the write lock but the position went %s -> %s", prev, now) {
				break
			}
			if unlocks > 0 && !r.Check(posAtUnlock == now, "c03.capture-after-unlock", "at the instant the WAL write lock became free the position was still %s; the committed transaction (%s) was captured only afterwards", posAtUnlock, now) {
				break
			}
			f := checkLTXForCommit(r, n, dbName, prev, now, ref, want, "c03")
			if f != nil {
				wantOff := int64(32) + int64(res.WalFirstFrame-1)*(24+int64(pageSize))
				wantSize := int64(res.WalFrames) * (24 + int64(pageSize))
				r.Check(f.Header.WALOffset == wantOff && f.Header.WALSize == wantSize, "c03.wal-range", "LTX header says WAL bytes @%d+%d, SQLite wrote the transaction @%d+%d", f.Header.WALOffset, f.Header.WALSize, wantOff, wantSize)
				r.Check(f.Header.WALSalt1 == res.WalSalt[0] && f.Header.WALSalt2 == res.WalSalt[1], "c03.wal-salt", "LTX header salts %08x/%08x, log salts %08x/%08x", f.Header.WALSalt1, f.Header.WALSalt2, res.WalSalt[0], res.WalSalt[1])
			}
			if r.Check(len(evs) == 1, "c03.event", "%d tx events for one commit", len(evs)) {
				r.Check(evs[0].TXID == now.TXID && evs[0].PostApplyChecksum == now.PostApplyChecksum, "c03.event", "tx event %s/%s but position %s", evs[0].TXID, evs[0].PostApplyChecksum, now)
			}
			r.Count("c03.commit.checked")
		} else {
			r.Check(now == prev, "c03.spurious", "position changed %s -> %s although no committed transaction was appended (%s)", prev, now, desc)
			r.Check(len(evs) == 0, "c03.event", "tx event without a commit (%s)", desc)
		}
		ref = want
		r.Check(uint64(now.PostApplyChecksum) == ref.Checksum(), "c03.pos-vs-image", "position checksum %s, from-scratch checksum of SQLite's image %016x (after %s)", now.PostApplyChecksum, ref.Checksum(), desc)
		disk, err := ReadDiskImage(n.Store.DBPath(dbName))
		if r.Check(err == nil, "c03.disk", "reading raw files: %v", err) {
			if d := DiffImages(disk, ref); d != "" {
				r.Failf("c03.disk", "database file overlaid with the committed WAL frames differs from SQLite's image after %s: %s", desc, d)
			}
		}
		if msg := CheckChain(n.Store.DBPath(dbName), now); msg != "" {
			r.Failf("c03.chain", "transaction log: %s", msg)
		}
	}
	for _, c := range conns {
		c.Close()
	}
	r.Sample = map[string]any{"ops": ops}
}
