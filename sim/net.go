package verifsim

import (
	"context"
	"errors"
	"fmt"
	"io"
	"net/http"
	"runtime/debug"
	"sync"
	"time"

	lhttp "github.com/superfly/litefs/http"
)

// SimNet is the wire between nodes: an http.RoundTripper installed in each
// node's real litefs/http.Client that resolves the URL host to a node, runs
// the target's real API handler in a named goroutine, and hands status, header
// and body bytes over under scheduler control. It injects connection resets,
// stalls, partitions, lost responses and back-pressure.
type SimNet struct {
	r     *Run
	mu    sync.Mutex
	nodes map[string]*Node
	conns []*simConn
	seq   int

	// Cut[a][b] = true means a cannot reach b (directional).
	Cut map[int]map[int]bool
	// BufCap bounds the bytes a handler may have written but the client not
	// yet read (back-pressure). 0 = unbounded.
	BufCap int
	// HandlerPanics records panics in API handlers.
	HandlerPanics []string
	// dropResp[node] = number of upcoming non-stream requests to that node
	// whose handler runs to completion but whose answer is lost.
	dropResp map[int]int
}

// DropResponses makes the next n non-stream requests to a node take effect
// there while the caller only sees a broken connection.
func (sn *SimNet) DropResponses(node, n int) {
	sn.mu.Lock()
	if sn.dropResp == nil {
		sn.dropResp = map[int]int{}
	}
	sn.dropResp[node] += n
	sn.mu.Unlock()
}

var errConnReset = errors.New("simnet: connection reset by peer")
var errConnRefused = errors.New("simnet: connection refused")

func NewSimNet(r *Run) *SimNet {
	return &SimNet{r: r, nodes: map[string]*Node{}, Cut: map[int]map[int]bool{}}
}

// Attach registers a node and returns the litefs.Client it should use.
func (sn *SimNet) Attach(n *Node) *lhttp.Client {
	sn.mu.Lock()
	sn.nodes[n.Name+":20202"] = n
	sn.mu.Unlock()
	c := lhttp.NewClient()
	c.HTTPClient = &http.Client{Transport: &simTransport{net: sn, from: n}}
	return c
}

// ClearDropResponses forgets pending lost-reply injections.
func (sn *SimNet) ClearDropResponses() {
	sn.mu.Lock()
	sn.dropResp = nil
	sn.mu.Unlock()
}

// Partition cuts (or heals) the link between two nodes in both directions.
func (sn *SimNet) Partition(a, b int, cut bool) {
	sn.mu.Lock()
	for _, p := range [][2]int{{a, b}, {b, a}} {
		if sn.Cut[p[0]] == nil {
			sn.Cut[p[0]] = map[int]bool{}
		}
		sn.Cut[p[0]][p[1]] = cut
	}
	var victims []*simConn
	if cut {
		for _, c := range sn.conns {
			if !c.dead && ((c.from == a && c.to == b) || (c.from == b && c.to == a)) {
				victims = append(victims, c)
			}
		}
	}
	sn.mu.Unlock()
	for _, c := range victims {
		c.reset("partition")
	}
}

// HealAll removes every partition.
func (sn *SimNet) HealAll() {
	sn.mu.Lock()
	sn.Cut = map[int]map[int]bool{}
	sn.mu.Unlock()
}

// ResetNode resets every connection from or to a node (process death).
func (sn *SimNet) ResetNode(id int) {
	sn.mu.Lock()
	var victims []*simConn
	for _, c := range sn.conns {
		if !c.dead && (c.from == id || c.to == id) {
			victims = append(victims, c)
		}
	}
	sn.mu.Unlock()
	for _, c := range victims {
		c.reset("node-death")
	}
}

// LiveConns returns the live connections (for fault targeting).
func (sn *SimNet) LiveConns() []*simConn {
	sn.mu.Lock()
	defer sn.mu.Unlock()
	var out []*simConn
	for _, c := range sn.conns {
		if !c.dead {
			out = append(out, c)
		}
	}
	return out
}

type simTransport struct {
	net  *SimNet
	from *Node
}

// simConn is one request/response exchange (one HTTP/2 stream).
type simConn struct {
	net      *SimNet
	id       int
	from, to int
	path     string

	mu           sync.Mutex
	hdr          http.Header
	code         int
	hdrReady     bool
	hdrCh        chan struct{}
	buf          []byte
	done         bool // handler returned
	dead         bool // reset
	halfDead     bool // the client's side is gone; the server learns of it at its next write
	wake         chan struct{}
	space        chan struct{}
	cancel       context.CancelFunc
	bytesOut     int64
	clientClosed bool
	t            *Tape
}

func (c *simConn) String() string {
	return fmt.Sprintf("conn%d(n%d->n%d %s)", c.id, c.from, c.to, c.path)
}

func (c *simConn) poke(ch chan struct{}) {
	select {
	case ch <- struct{}{}:
	default:
	}
}

// reset breaks the connection: the client's reads fail, the server's context
// is cancelled and its writes fail.
func (c *simConn) reset(why string) {
	c.mu.Lock()
	if c.dead {
		c.mu.Unlock()
		return
	}
	c.dead = true
	c.mu.Unlock()
	c.net.r.Logf("net: %s reset (%s)", c, why)
	c.cancel()
	c.markHeader()
	c.poke(c.wake)
	c.poke(c.space)
}

// resetClientSide breaks the connection as the client sees it (its reads
// fail now); the server side keeps its context and learns of the loss only
// when it next writes to the connection - a half-open connection, as after a
// client that restarted or a path that dropped the FIN/RST.
func (c *simConn) resetClientSide(why string) {
	c.mu.Lock()
	if c.dead || c.halfDead {
		c.mu.Unlock()
		return
	}
	c.halfDead = true
	c.mu.Unlock()
	c.net.r.Logf("net: %s reset on the client's side only (%s)", c, why)
	c.markHeader()
	c.poke(c.wake)
}

func (c *simConn) markHeader() {
	c.mu.Lock()
	if !c.hdrReady {
		c.hdrReady = true
		close(c.hdrCh)
	}
	c.mu.Unlock()
}

// respWriter is the server side of a simConn.
type respWriter struct {
	c    *simConn
	hdr  http.Header
	sent bool
}

func (w *respWriter) Header() http.Header { return w.hdr }

func (w *respWriter) send(code int) {
	if w.sent {
		return
	}
	w.sent = true
	c := w.c
	c.mu.Lock()
	c.code = code
	c.hdr = w.hdr.Clone()
	c.mu.Unlock()
}

func (w *respWriter) WriteHeader(code int) { w.send(code) }

func (w *respWriter) Write(p []byte) (int, error) {
	w.send(200)
	c := w.c
	if s := c.net.r.Sched; s != nil {
		s.Yield(c.to, "net", "resp-write "+c.path)
	}
	for {
		c.mu.Lock()
		if c.halfDead && !c.dead {
			c.mu.Unlock()
			c.reset("write on a half-open connection")
			return 0, errConnReset
		}
		if c.dead {
			c.mu.Unlock()
			return 0, errConnReset
		}
		if c.net.BufCap <= 0 || len(c.buf) < c.net.BufCap || len(c.buf) == 0 {
			c.buf = append(c.buf, p...)
			c.bytesOut += int64(len(p))
			full := len(c.buf) >= 4096
			c.mu.Unlock()
			if full {
				c.markHeader() // net/http flushes the header once its buffer fills
			}
			c.poke(c.wake)
			return len(p), nil
		}
		c.mu.Unlock()
		c.net.r.Count("net.backpressure")
		<-c.space
	}
}

func (w *respWriter) Flush() {
	w.send(200)
	w.c.markHeader()
}

// body is the client side of a simConn.
type respBody struct{ c *simConn }

func (b *respBody) Read(p []byte) (int, error) {
	c := b.c
	if s := c.net.r.Sched; s != nil {
		s.Yield(c.from, "net", "body-read "+c.path)
	}
	for {
		c.mu.Lock()
		if len(c.buf) > 0 {
			n := len(c.buf)
			if n > len(p) {
				n = len(p)
			}
			// the network may hand over any prefix of what is in flight
			if n > 1 {
				switch c.t.Pick([]int{60, 15, 15, 10}) {
				case 1:
					n = 1
				case 2:
					n = 1 + c.t.Next(n)
				case 3:
					if n > 7 {
						n = 7
					}
				}
			}
			copy(p, c.buf[:n])
			c.buf = c.buf[n:]
			c.mu.Unlock()
			c.poke(c.space)
			return n, nil
		}
		if c.dead || c.halfDead {
			c.mu.Unlock()
			return 0, errConnReset
		}
		if c.done {
			c.mu.Unlock()
			return 0, io.EOF
		}
		c.mu.Unlock()
		<-c.wake
	}
}

func (b *respBody) Close() error {
	c := b.c
	c.mu.Lock()
	c.clientClosed = true
	// (on a half-open connection the client's close does not reach the server either)
	already := c.dead || c.done || c.halfDead
	c.mu.Unlock()
	if !already {
		c.reset("client-close")
	}
	return nil
}

func (t *simTransport) RoundTrip(req *http.Request) (*http.Response, error) {
	sn := t.net
	r := sn.r
	if s := r.Sched; s != nil {
		s.Yield(t.from.ID, "net", "request "+req.URL.Path)
	}
	ctape := r.Tape.Fork() // drawn right after the release: this goroutine is the only one running
	sn.mu.Lock()
	target := sn.nodes[req.URL.Host]
	cut := target != nil && sn.Cut[t.from.ID][target.ID]
	sn.mu.Unlock()
	if target == nil || !target.Up || target.OS.fenced.Load() || cut || t.from.OS.fenced.Load() {
		r.Count("net.refused")
		if req.Body != nil {
			req.Body.Close()
		}
		return nil, errConnRefused
	}
	sctx, cancel := context.WithCancel(context.Background())
	sn.mu.Lock()
	sn.seq++
	c := &simConn{net: sn, id: sn.seq, from: t.from.ID, to: target.ID, path: req.URL.Path,
		hdrCh: make(chan struct{}), wake: make(chan struct{}, 1), space: make(chan struct{}, 1), cancel: cancel, t: ctape}
	sn.conns = append(sn.conns, c)
	sn.mu.Unlock()
	r.Count("net.request." + req.URL.Path)
	// client context ends -> connection goes away
	stop := context.AfterFunc(req.Context(), func() { c.reset("client-ctx") })
	sreq := req.Clone(sctx)
	sreq.RequestURI = req.URL.RequestURI()
	sreq.RemoteAddr = fmt.Sprintf("n%d:%d", t.from.ID, 40000+c.id)
	sreq.Proto, sreq.ProtoMajor, sreq.ProtoMinor = "HTTP/2.0", 2, 0
	if sreq.Body == nil {
		sreq.Body = http.NoBody
	}
	w := &respWriter{c: c, hdr: http.Header{}}
	handler := target.Handler
	run := func() {
		defer func() {
			if rec := recover(); rec != nil {
				if _, ok := rec.(nodeExit); !ok {
					st := string(debug.Stack())
					if len(st) > 2500 {
						st = st[:2500]
					}
					sn.mu.Lock()
					sn.HandlerPanics = append(sn.HandlerPanics, fmt.Sprintf("%s: %v\n%s", c, rec, st))
					sn.mu.Unlock()
					r.Logf("net: handler panic on %s: %v", c, rec)
				}
				c.reset("handler-panic")
				return
			}
			w.send(200)
			c.mu.Lock()
			c.done = true
			c.mu.Unlock()
			c.markHeader()
			c.poke(c.wake)
			stop()
			if sreq.Body != nil {
				sreq.Body.Close()
			}
		}()
		handler.ServeHTTP(w, sreq)
	}
	name := fmt.Sprintf("n%d:handler:%s#%d", target.ID, req.URL.Path, c.id)
	if r.Sched != nil {
		r.Sched.Go(name, run)
	} else {
		go run()
	}
	<-c.hdrCh
	sn.mu.Lock()
	lose := req.URL.Path != "/stream" && sn.dropResp[target.ID] > 0
	if lose {
		sn.dropResp[target.ID]--
	}
	sn.mu.Unlock()
	if lose {
		for {
			c.mu.Lock()
			fin := c.done || c.dead
			c.mu.Unlock()
			if fin {
				break
			}
			time.Sleep(time.Millisecond)
		}
		r.Count("fault.response_lost")
		c.reset("response-lost")
		return nil, errConnReset
	}
	c.mu.Lock()
	dead, code, hdr := c.dead && !c.done && c.code == 0, c.code, c.hdr
	c.mu.Unlock()
	if dead {
		r.Count("net.reset-before-header")
		return nil, errConnReset
	}
	if code == 0 {
		code = 200
	}
	if hdr == nil {
		hdr = http.Header{}
	}
	return &http.Response{
		Status: fmt.Sprintf("%d %s", code, http.StatusText(code)), StatusCode: code,
		Proto: "HTTP/2.0", ProtoMajor: 2, ProtoMinor: 0,
		Header: hdr, Body: &respBody{c: c}, Request: req, ContentLength: -1,
	}, nil
}

// Cluster -------------------------------------------------------------------------

// Cluster bundles the nodes of a multi-node run with their network and lease.
type Cluster struct {
	r     *Run
	Net   *SimNet
	Lease *SimLease
	Nodes []*Node
}

// NewCluster creates n nodes (not opened) wired to a SimNet and a SimLease.
func (r *Run) NewCluster(n int, ttl time.Duration, tune func(i int, cfg *NodeCfg)) *Cluster {
	cl := &Cluster{r: r, Net: NewSimNet(r), Lease: NewSimLease(r, ttl, 0)}
	for i := 0; i < n; i++ {
		cfg := NodeCfg{Candidate: true}
		if tune != nil {
			tune(i, &cfg)
		}
		node := r.NewNode(cfg)
		node.Cfg.Leaser = cl.Lease.Leaser(node)
		node.Cfg.Client = cl.Net.Attach(node)
		cl.Nodes = append(cl.Nodes, node)
	}
	r.OnCleanup(func() {
		for _, c := range cl.Net.LiveConns() {
			c.reset("teardown")
		}
	})
	return cl
}

// Primary returns the node that currently says it is primary (first found).
func (cl *Cluster) Primary() *Node {
	for _, n := range cl.Nodes {
		if n.Up && !n.Exited && n.Store != nil && n.Store.IsPrimary() {
			return n
		}
	}
	return nil
}

// Crash kills a node now: image, fence, reset its connections.
func (cl *Cluster) Crash(n *Node, tag string) string {
	img, err := n.Kill(tag)
	if err != nil {
		cl.r.Inconclusive("image: %v", err)
	}
	cl.Net.ResetNode(n.ID)
	cl.r.Count("fault.crash")
	return img
}
