package verifsim

import (
	"context"
	"errors"
	"fmt"
	"sync"
	"time"

	"github.com/superfly/litefs"
)

// SimLease is a single lease service with the semantics consul.Leaser relies
// on: one key, sessions with a TTL that must be renewed, release on close, a
// lock delay after a session is invalidated, a write-once cluster id, and the
// holder's PrimaryInfo as the key's value. Time is the bubble clock. Its own
// record (who holds which session until when) is the oracle's truth.
type SimLease struct {
	open      map[int]int // lease objects handed to a node and not closed by it
	r         *Run
	mu        sync.Mutex
	TTL       time.Duration
	LockDelay time.Duration

	clusterID string
	nextSess  int
	sess      map[string]*leaseSession
	holder    string // session id holding the key ("" = free)
	value     litefs.PrimaryInfo
	freeAt    time.Time // lock-delay: key cannot be acquired before this

	// Log records every call (oracle input).
	Log []LeaseEvent

	// fault knobs, consulted at call time (per node)
	Down map[int]bool // node cannot reach the service (calls error)
	// FailClusterID: the next n times that node acquires the lease, its first
	// ClusterID call afterwards fails (the service answers the acquire and then
	// drops a request)
	FailClusterID map[int]int
	failNext      map[int]bool
	// DownAfterClusterIDFail: from that failure on the node cannot reach the
	// service at all (until the harness clears Down)
	DownAfterClusterIDFail bool
	AcquireErr             int // percent chance that Acquire errors
	RenewErr               int // percent chance that Renew errors
	LostReply              int // percent chance that an acquire takes effect but the reply is lost
}

type leaseSession struct {
	id        string
	node      int
	expiresAt time.Time
	destroyed bool
}

// LeaseEvent is one recorded call.
type LeaseEvent struct {
	At     time.Duration
	Node   int
	Call   string
	Sess   string
	Result string
}

var errLeaseNet = errors.New("simlease: service unreachable")

func NewSimLease(r *Run, ttl, lockDelay time.Duration) *SimLease {
	return &SimLease{r: r, TTL: ttl, LockDelay: lockDelay, sess: map[string]*leaseSession{}, Down: map[int]bool{}, FailClusterID: map[int]int{}, failNext: map[int]bool{}}
}

// noteOpen counts, per node, the lease objects the node was handed and has not
// closed itself (s.mu held). A node that has called Close on its lease has
// given its write authority up, whatever it still believes.
func (s *SimLease) noteOpen(node, d int) {
	if s.open == nil {
		s.open = map[int]int{}
	}
	s.open[node] += d
}

// HoldsUnclosedLease reports whether the node was handed a lease it has not
// closed (a process that died without closing keeps counting: lenient).
func (s *SimLease) HoldsUnclosedLease(node int) bool {
	s.mu.Lock()
	defer s.mu.Unlock()
	return s.open[node] > 0
}

func (s *SimLease) logf(node int, call, sess, res string) {
	s.Log = append(s.Log, LeaseEvent{At: s.r.SimNow(), Node: node, Call: call, Sess: sess, Result: res})
}

// expire invalidates sessions whose TTL ran out (called under mu).
func (s *SimLease) expire() {
	now := time.Now()
	for _, ss := range s.sess {
		if !ss.destroyed && now.After(ss.expiresAt) {
			ss.destroyed = true
			s.r.Count("lease.session-expired")
			if s.holder == ss.id {
				s.holder = ""
				s.value = litefs.PrimaryInfo{}
				s.freeAt = now.Add(s.LockDelay)
			}
		}
	}
}

// Holder returns the node currently holding the key (0 if none) and the
// session id, according to the service itself.
func (s *SimLease) Holder() (int, string) {
	s.mu.Lock()
	defer s.mu.Unlock()
	s.expire()
	if s.holder == "" {
		return 0, ""
	}
	return s.sess[s.holder].node, s.holder
}

// SessionLive reports whether a session exists and has not expired.
func (s *SimLease) SessionLive(id string) bool {
	s.mu.Lock()
	defer s.mu.Unlock()
	s.expire()
	ss := s.sess[id]
	return ss != nil && !ss.destroyed
}

// ForceExpire makes the service drop a session now (service-side early expiry).
func (s *SimLease) ForceExpire(id string) {
	s.mu.Lock()
	defer s.mu.Unlock()
	if ss := s.sess[id]; ss != nil && !ss.destroyed {
		ss.destroyed = true
		if s.holder == id {
			s.holder = ""
			s.value = litefs.PrimaryInfo{}
			s.freeAt = time.Now().Add(s.LockDelay)
		}
		s.r.Count("fault.lease_force_expire")
		s.logf(0, "force-expire", id, "")
	}
}

// ClusterIDValue returns the cluster id stored in the service.
func (s *SimLease) ClusterIDValue() string {
	s.mu.Lock()
	defer s.mu.Unlock()
	return s.clusterID
}

// SetClusterIDValue overwrites the service's cluster id (scripting).
func (s *SimLease) SetClusterIDValue(v string) {
	s.mu.Lock()
	s.clusterID = v
	s.mu.Unlock()
}

// ---------------------------------------------------------------------------

// SimLeaser is one node's view of the lease service (implements litefs.Leaser).
type SimLeaser struct {
	svc  *SimLease
	node int
	host string
	url  string
}

var _ litefs.Leaser = (*SimLeaser)(nil)

func (s *SimLease) Leaser(n *Node) *SimLeaser {
	return &SimLeaser{svc: s, node: n.ID, host: n.Name, url: n.URL()}
}

func (l *SimLeaser) yield(what string) {
	if l.svc.r.Sched != nil {
		l.svc.r.Sched.Yield(l.node, "lease", what)
	}
}

func (l *SimLeaser) Close() error         { return nil }
func (l *SimLeaser) Type() string         { return "simlease" }
func (l *SimLeaser) Hostname() string     { return l.host }
func (l *SimLeaser) AdvertiseURL() string { return l.url }

func (l *SimLeaser) unreachable() bool {
	return l.svc.Down[l.node]
}

func (l *SimLeaser) Acquire(ctx context.Context) (litefs.Lease, error) {
	l.yield("acquire")
	s := l.svc
	s.mu.Lock()
	defer s.mu.Unlock()
	if l.unreachable() {
		s.logf(l.node, "acquire", "", "unreachable")
		return nil, errLeaseNet
	}
	if s.AcquireErr > 0 && s.r.Tape.Chance(s.AcquireErr, 100) {
		s.r.Count("fault.lease_acquire_error")
		s.logf(l.node, "acquire", "", "error")
		return nil, fmt.Errorf("simlease: injected acquire error")
	}
	s.expire()
	now := time.Now()
	s.nextSess++
	ss := &leaseSession{id: fmt.Sprintf("sess-%d", s.nextSess), node: l.node, expiresAt: now.Add(s.TTL)}
	s.sess[ss.id] = ss
	if s.holder != "" || now.Before(s.freeAt) {
		ss.destroyed = true // the leaser closes the session it could not use
		s.logf(l.node, "acquire", ss.id, "held")
		return nil, litefs.ErrPrimaryExists
	}
	s.holder = ss.id
	s.value = litefs.PrimaryInfo{Hostname: l.host, AdvertiseURL: l.url}
	if s.LostReply > 0 && s.r.Tape.Chance(s.LostReply, 100) {
		// acquired, reply lost: the caller sees an error and (like the consul
		// leaser) tries to close the session, which is modelled as lost too, so
		// the key stays held until the TTL runs out.
		s.r.Count("fault.lease_reply_lost")
		s.logf(l.node, "acquire", ss.id, "acquired-reply-lost")
		return nil, fmt.Errorf("simlease: reply lost")
	}
	s.logf(l.node, "acquire", ss.id, "ok")
	s.noteOpen(l.node, 1)
	if s.FailClusterID[l.node] > 0 {
		s.failNext[l.node] = true
	}
	return &SimLeaseObj{l: l, id: ss.id, renewedAt: now, handoffCh: make(chan uint64)}, nil
}

func (l *SimLeaser) AcquireExisting(ctx context.Context, leaseID string) (litefs.Lease, error) {
	l.yield("acquire-existing")
	s := l.svc
	s.mu.Lock()
	defer s.mu.Unlock()
	if l.unreachable() {
		s.logf(l.node, "acquire-existing", leaseID, "unreachable")
		return nil, errLeaseNet
	}
	s.expire()
	ss := s.sess[leaseID]
	if ss == nil || ss.destroyed {
		s.logf(l.node, "acquire-existing", leaseID, "expired")
		return nil, litefs.ErrLeaseExpired
	}
	now := time.Now()
	ss.expiresAt = now.Add(s.TTL)
	if s.holder != "" && s.holder != leaseID {
		s.logf(l.node, "acquire-existing", leaseID, "held")
		return nil, litefs.ErrPrimaryExists
	}
	s.holder = leaseID
	ss.node = l.node
	s.value = litefs.PrimaryInfo{Hostname: l.host, AdvertiseURL: l.url}
	s.logf(l.node, "acquire-existing", leaseID, "ok")
	s.noteOpen(l.node, 1)
	return &SimLeaseObj{l: l, id: leaseID, renewedAt: now, handoffCh: make(chan uint64)}, nil
}

func (l *SimLeaser) PrimaryInfo(ctx context.Context) (litefs.PrimaryInfo, error) {
	l.yield("primary-info")
	s := l.svc
	s.mu.Lock()
	defer s.mu.Unlock()
	if l.unreachable() {
		return litefs.PrimaryInfo{}, errLeaseNet
	}
	s.expire()
	if s.holder == "" {
		return litefs.PrimaryInfo{}, litefs.ErrNoPrimary
	}
	return s.value, nil
}

func (l *SimLeaser) ClusterID(ctx context.Context) (string, error) {
	l.yield("cluster-id")
	s := l.svc
	s.mu.Lock()
	defer s.mu.Unlock()
	if l.unreachable() {
		return "", errLeaseNet
	}
	if s.failNext[l.node] {
		s.failNext[l.node] = false
		s.FailClusterID[l.node]--
		s.r.Count("fault.lease_clusterid_error")
		if s.DownAfterClusterIDFail {
			s.Down[l.node] = true
		}
		s.logf(l.node, "cluster-id", "", "error")
		return "", fmt.Errorf("simlease: injected cluster-id error")
	}
	return s.clusterID, nil
}

func (l *SimLeaser) SetClusterID(ctx context.Context, id string) error {
	l.yield("set-cluster-id")
	s := l.svc
	s.mu.Lock()
	defer s.mu.Unlock()
	if l.unreachable() {
		return errLeaseNet
	}
	if s.clusterID != "" {
		return fmt.Errorf("cluster already initialized, cannot set cluster id")
	}
	s.clusterID = id
	s.logf(l.node, "set-cluster-id", "", id)
	return nil
}

// SimLeaseObj is a lease held (or believed to be held) by a node.
type SimLeaseObj struct {
	l         *SimLeaser
	id        string
	mu        sync.Mutex
	renewedAt time.Time
	handoffCh chan uint64
	Closed    bool
}

var _ litefs.Lease = (*SimLeaseObj)(nil)

func (o *SimLeaseObj) ID() string { return o.id }
func (o *SimLeaseObj) RenewedAt() time.Time {
	o.mu.Lock()
	defer o.mu.Unlock()
	return o.renewedAt
}
func (o *SimLeaseObj) TTL() time.Duration { return o.l.svc.TTL }

func (o *SimLeaseObj) Renew(ctx context.Context) error {
	o.l.yield("renew")
	s := o.l.svc
	s.mu.Lock()
	defer s.mu.Unlock()
	if o.l.unreachable() {
		s.logf(o.l.node, "renew", o.id, "unreachable")
		return errLeaseNet
	}
	if s.RenewErr > 0 && s.r.Tape.Chance(s.RenewErr, 100) {
		s.r.Count("fault.lease_renew_error")
		s.logf(o.l.node, "renew", o.id, "error")
		return fmt.Errorf("simlease: injected renew error")
	}
	s.expire()
	ss := s.sess[o.id]
	if ss == nil || ss.destroyed {
		s.logf(o.l.node, "renew", o.id, "expired")
		return litefs.ErrLeaseExpired
	}
	now := time.Now()
	ss.expiresAt = now.Add(s.TTL)
	o.mu.Lock()
	o.renewedAt = now
	o.mu.Unlock()
	s.logf(o.l.node, "renew", o.id, "ok")
	return nil
}

func (o *SimLeaseObj) Handoff(ctx context.Context, nodeID uint64) error {
	ctx, cancel := context.WithTimeoutCause(ctx, 5*time.Second, fmt.Errorf("simlease handoff timeout"))
	defer cancel()
	select {
	case <-ctx.Done():
		return context.Cause(ctx)
	case o.handoffCh <- nodeID:
		return nil
	}
}

func (o *SimLeaseObj) HandoffCh() <-chan uint64 { return o.handoffCh }

func (o *SimLeaseObj) Close() error {
	o.l.yield("lease-close")
	s := o.l.svc
	s.mu.Lock()
	defer s.mu.Unlock()
	if !o.Closed {
		s.noteOpen(o.l.node, -1)
	}
	o.Closed = true
	if o.l.unreachable() {
		s.logf(o.l.node, "close", o.id, "unreachable")
		return errLeaseNet
	}
	if ss := s.sess[o.id]; ss != nil && !ss.destroyed {
		ss.destroyed = true
		if s.holder == o.id {
			s.holder = ""
			s.value = litefs.PrimaryInfo{}
			// an explicit release does not impose the lock delay
		}
	}
	s.logf(o.l.node, "close", o.id, "ok")
	// the reply travels back: a scheduling point between the moment the service
	// has released the lease and the moment the node acts on the answer
	s.mu.Unlock()
	o.l.yield("lease-close-reply")
	s.mu.Lock()
	return nil
}
