package verifsim

import (
	"bytes"
	"encoding/base64"
	"encoding/json"
	"fmt"
	"io"
	"net/http"
	"strings"
	"sync"
	"time"

	"github.com/superfly/litefs/consul"
)

// fakeConsul is an in-process stand-in for the Consul HTTP API subset the real
// consul.Leaser uses (through hashicorp/consul/api and http.DefaultClient):
// sessions with TTL and lock delay, behaviour=delete, KV acquire / release /
// get / put. It lives on the fake clock, keeps its own call log in the format
// the C08 monitor reads, and injects errors and outages.
type fakeConsul struct {
	r         *Run
	mu        sync.Mutex
	ttl       time.Duration
	lockDelay time.Duration
	ttlFactor float64 // the service invalidates a session ttlFactor*TTL after its last renewal (Consul: 1..2)
	sess      map[string]*fcSession
	kv        map[string]*fcKV
	freeAt    map[string]time.Time
	log       []LeaseEvent
	errRate   int
	down      bool
	nextID    int
	index     uint64
	hostNode  map[string]int
	tape      *Tape
}

type fcSession struct {
	id        string
	node      int
	expiresAt time.Time
	dead      bool
}

type fcKV struct {
	value   []byte
	session string
	index   uint64
}

func newFakeConsul(r *Run, lockDelay time.Duration) *fakeConsul {
	t := r.Tape
	return &fakeConsul{r: r, ttl: 10 * time.Second, lockDelay: lockDelay, ttlFactor: []float64{1, 1.5, 2}[t.Next(3)],
		sess: map[string]*fcSession{}, kv: map[string]*fcKV{}, freeAt: map[string]time.Time{}, hostNode: map[string]int{}, tape: t.Fork()}
}

func (fc *fakeConsul) install() func() {
	prev := http.DefaultClient.Transport
	http.DefaultClient.Transport = fc
	return func() { http.DefaultClient.Transport = prev }
}

func (fc *fakeConsul) leaserFor(n *Node) (*consul.Leaser, error) {
	host := "consul-" + n.Name + ":8500"
	fc.hostNode[host] = n.ID
	l := consul.NewLeaser("http://"+host, "litefs/primary", n.Name, n.URL())
	l.TTL = fc.ttl
	l.LockDelay = fc.lockDelay
	return l, l.Open()
}

func (fc *fakeConsul) Events(from int) []LeaseEvent {
	fc.mu.Lock()
	defer fc.mu.Unlock()
	if from >= len(fc.log) {
		return nil
	}
	return append([]LeaseEvent(nil), fc.log[from:]...)
}
func (fc *fakeConsul) TTLDur() time.Duration { return fc.ttl }
func (fc *fakeConsul) Grace() time.Duration  { return fc.lockDelay }

func (fc *fakeConsul) setErrRate(p int) { fc.mu.Lock(); fc.errRate = p; fc.mu.Unlock() }
func (fc *fakeConsul) setDown(d bool)   { fc.mu.Lock(); fc.down = d; fc.mu.Unlock() }
func (fc *fakeConsul) healAll()         { fc.mu.Lock(); fc.errRate, fc.down = 0, false; fc.mu.Unlock() }

// invalidateHolder makes the service drop the session that holds the primary key.
func (fc *fakeConsul) invalidateHolder() bool {
	fc.mu.Lock()
	defer fc.mu.Unlock()
	for _, e := range fc.kv {
		if e.session != "" {
			if s := fc.sess[e.session]; s != nil && !s.dead {
				fc.invalidate(s)
				fc.logf(0, "force-expire", s.id, "")
				return true
			}
		}
	}
	return false
}

func (fc *fakeConsul) logf(node int, call, sess, res string) {
	fc.log = append(fc.log, LeaseEvent{At: fc.r.SimNow(), Node: node, Call: call, Sess: sess, Result: res})
}

// invalidate: behaviour=delete removes the keys the session holds and starts
// the lock delay on them (under mu).
func (fc *fakeConsul) invalidate(s *fcSession) {
	s.dead = true
	fc.r.Count("lease.session-expired")
	for k, e := range fc.kv {
		if e.session == s.id {
			delete(fc.kv, k)
			fc.freeAt[k] = time.Now().Add(fc.lockDelay)
		}
	}
}

func (fc *fakeConsul) sweep() {
	now := time.Now()
	for _, s := range fc.sess {
		if !s.dead && now.After(s.expiresAt) {
			fc.invalidate(s)
		}
	}
}

func (fc *fakeConsul) resp(req *http.Request, code int, body string) *http.Response {
	fc.index++
	h := http.Header{}
	h.Set("Content-Type", "application/json")
	h.Set("X-Consul-Index", fmt.Sprint(fc.index))
	h.Set("X-Consul-KnownLeader", "true")
	h.Set("X-Consul-LastContact", "0")
	return &http.Response{StatusCode: code, Status: fmt.Sprintf("%d %s", code, http.StatusText(code)), Proto: "HTTP/1.1", ProtoMajor: 1, ProtoMinor: 1,
		Header: h, Body: io.NopCloser(strings.NewReader(body)), ContentLength: int64(len(body)), Request: req}
}

func (fc *fakeConsul) RoundTrip(req *http.Request) (*http.Response, error) {
	node := fc.hostNode[req.URL.Host]
	path := req.URL.Path
	var body []byte
	if req.Body != nil {
		body, _ = io.ReadAll(req.Body)
		req.Body.Close()
	}
	// classify for the log
	call, sess := "", ""
	switch {
	case strings.HasPrefix(path, "/v1/session/renew/"):
		call, sess = "renew", strings.TrimPrefix(path, "/v1/session/renew/")
	case strings.HasPrefix(path, "/v1/session/destroy/"):
		call, sess = "close", strings.TrimPrefix(path, "/v1/session/destroy/")
	case path == "/v1/session/create":
		call = "acquire"
	case strings.HasPrefix(path, "/v1/kv/") && req.URL.Query().Get("acquire") != "":
		call, sess = "kv-acquire", req.URL.Query().Get("acquire")
	}
	if fc.r.Sched != nil {
		fc.r.Sched.Yield(node, "lease", "consul "+req.Method+" "+path)
	}
	fc.mu.Lock()
	defer fc.mu.Unlock()
	if fc.down {
		if call != "" {
			fc.logf(node, call, sess, "unreachable")
		}
		return nil, fmt.Errorf("fake consul: connection refused")
	}
	if fc.errRate > 0 && fc.tape.Chance(fc.errRate, 100) {
		fc.r.Count("fault.lease_call_error")
		if call != "" {
			fc.logf(node, call, sess, "error")
		}
		return fc.resp(req, 500, "injected error"), nil
	}
	fc.sweep()
	now := time.Now()
	q := req.URL.Query()
	switch {
	case path == "/v1/catalog/register":
		return fc.resp(req, 200, "true"), nil
	case path == "/v1/session/create":
		var in struct{ TTL string }
		_ = json.Unmarshal(body, &in)
		ttl, err := time.ParseDuration(in.TTL)
		if err != nil {
			ttl = fc.ttl
		}
		fc.nextID++
		s := &fcSession{id: fmt.Sprintf("csess-%d", fc.nextID), node: node, expiresAt: now.Add(time.Duration(float64(ttl) * fc.ttlFactor))}
		fc.sess[s.id] = s
		fc.logf(node, "acquire", s.id, "session-created")
		return fc.resp(req, 200, fmt.Sprintf(`{"ID":%q}`, s.id)), nil
	case strings.HasPrefix(path, "/v1/session/renew/"):
		s := fc.sess[sess]
		if s == nil || s.dead {
			fc.logf(node, "renew", sess, "expired")
			return fc.resp(req, 404, ""), nil
		}
		s.expiresAt = now.Add(time.Duration(float64(fc.ttl) * fc.ttlFactor))
		fc.logf(node, "renew", sess, "ok")
		return fc.resp(req, 200, fmt.Sprintf(`[{"ID":%q,"TTL":%q,"Behavior":"delete"}]`, sess, fc.ttl.String())), nil
	case strings.HasPrefix(path, "/v1/session/destroy/"):
		if s := fc.sess[sess]; s != nil && !s.dead {
			// an explicit destroy deletes held keys too but imposes no lock delay
			s.dead = true
			for k, e := range fc.kv {
				if e.session == s.id {
					delete(fc.kv, k)
				}
			}
		}
		fc.logf(node, "close", sess, "ok")
		return fc.resp(req, 200, "true"), nil
	case strings.HasPrefix(path, "/v1/kv/"):
		key := strings.TrimPrefix(path, "/v1/kv/")
		switch req.Method {
		case "GET":
			e := fc.kv[key]
			if e == nil {
				return fc.resp(req, 404, ""), nil
			}
			out := map[string]any{"LockIndex": 1, "Key": key, "Flags": 0, "Value": base64.StdEncoding.EncodeToString(e.value), "CreateIndex": e.index, "ModifyIndex": e.index}
			if e.session != "" {
				out["Session"] = e.session
			}
			b, _ := json.Marshal([]any{out})
			return fc.resp(req, 200, string(b)), nil
		case "PUT":
			if sid := q.Get("acquire"); sid != "" {
				s := fc.sess[sid]
				if s == nil || s.dead {
					// a session the node did not create itself is a lease that was
					// handed to it, not an attempt on a free lease
					call := "acquire"
					if s != nil && s.node != node {
						call = "acquire-existing"
					}
					fc.logf(node, call, sid, "invalid-session")
					return fc.resp(req, 500, "invalid session"), nil
				}
				e := fc.kv[key]
				if e != nil && e.session != "" && e.session != sid {
					if hs := fc.sess[e.session]; hs != nil && !hs.dead {
						fc.logf(node, "acquire", sid, "held")
						return fc.resp(req, 200, "false"), nil
					}
				}
				if now.Before(fc.freeAt[key]) {
					fc.logf(node, "acquire", sid, "held")
					return fc.resp(req, 200, "false"), nil
				}
				fc.index++
				fc.kv[key] = &fcKV{value: bytes.Clone(body), session: sid, index: fc.index}
				if s.node != node {
					s.node = node
					fc.logf(node, "acquire-existing", sid, "ok")
				} else {
					fc.logf(node, "acquire", sid, "ok")
				}
				return fc.resp(req, 200, "true"), nil
			}
			if sid := q.Get("release"); sid != "" {
				e := fc.kv[key]
				if e == nil || e.session != sid {
					return fc.resp(req, 200, "false"), nil
				}
				e.session, e.value = "", bytes.Clone(body)
				return fc.resp(req, 200, "true"), nil
			}
			fc.index++
			e := fc.kv[key]
			if e == nil {
				e = &fcKV{}
				fc.kv[key] = e
			}
			e.value, e.index = bytes.Clone(body), fc.index
			return fc.resp(req, 200, "true"), nil
		}
	}
	return fc.resp(req, 404, "unknown endpoint "+path), nil
}
