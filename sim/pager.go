package verifsim

import (
	"encoding/binary"
	"fmt"
	"os"
	"sort"
	"sync/atomic"
	"syscall"
	"time"

	"bazil.org/fuse"
)

// PagerSim: a model of SQLite's pager (pager.c / os_unix.c) at the level of
// file operations. It issues exactly the sequence of opens, locks, reads,
// writes, syncs, truncates and unlinks that SQLite issues for a transaction,
// through the simulated kernel, with arbitrary but attributable page content.
// Ground truth for the shapes is the strace of sqlite3 3.51.2 quoted in
// DESIGN.md §4.2.

const (
	pendingByte  = 0x40000000
	reservedByte = pendingByte + 1
	sharedFirst  = pendingByte + 2
	sharedSize   = 510
)

var journalMagic = []byte{0xd9, 0xd5, 0x05, 0xf9, 0x20, 0xa1, 0x63, 0xd7}

// Journal modes.
const (
	ModeDelete   = "DELETE"
	ModeTruncate = "TRUNCATE"
	ModePersist  = "PERSIST"
	ModeWAL      = "WAL"
)

// Outcome of a transaction program.
const (
	OutCommit   = "commit"
	OutRollback = "rollback"
	OutLockOnly = "lockonly"
)

// TxProgram is one write transaction expressed as a pager program.
type TxProgram struct {
	Modify   []uint32 // existing pages to rewrite (page 1 is always rewritten on commit)
	NewSize  uint32   // size after the transaction, in pages
	SpillAt  []int    // a cache spill happens after this many pages have been journalled (ascending)
	Outcome  string
	NoSync   bool // synchronous=OFF style journal (count -1, no fsync, magic written up front)
	WALMode  bool // (rollback txn that flips the header to WAL, or back)
	SetWAL   int  // 0 keep, 1 switch header to WAL (18/19=2), 2 switch to rollback (1)
	HotProbe bool // do the hot-journal probe before the transaction
}

// TxResult reports what the simulated SQLite saw.
type TxResult struct {
	Outcome  string // OutCommit / OutRollback / OutLockOnly / "busy" / "error"
	Errno    syscall.Errno
	FailedAt string
	After    *Image // image after the transaction as SQLite sees it (commit only)

	WalFirstFrame uint32
	WalFrames     int
	WalSalt       [2]uint32
}

// Conn is one simulated SQLite connection (its own process / lock owner).
type Conn struct {
	r     *Run
	n     *Node
	k     *Kernel
	DB    string
	Owner uint64
	ID    int

	Mode       string
	PageSize   uint32
	SectorSize uint32
	KeepJFD    bool // keep the journal descriptor open between transactions (PERSIST/TRUNCATE)
	// PauseAfterWalRead: simulated time a WAL write transaction spends as a
	// reader before it takes the write lock (a deferred transaction that reads
	// first). Other actors run in between.
	PauseAfterWalRead time.Duration
	T                 *Tape // choice source of this connection (the run's tape, or an actor's fork)

	dbf   *File
	jf    *File
	txSeq int
	lock  int // 0 none, 1 shared, 2 reserved, 4 exclusive

	// WAL state (pager_wal.go)
	wal *walConn

	// BeforeWalUnlock, if set, is called when a WAL write transaction has
	// published its commit and still holds the write lock.
	BeforeWalUnlock func()
	// OnCommitPoint, if set, is called at the instant COMMIT returns success
	// to SQLite's caller (journal finalised / WAL write lock released).
	OnCommitPoint func()
	// OnFinalized, if set, is called right after the step that ends a write
	// transaction of any outcome (journal finalised / WAL write lock released),
	// before any further file operation.
	OnFinalized func()
	// OnNewImage, if set, is told the image a write transaction is about to
	// commit, before anything is written.
	OnNewImage func(im *Image)

	onJournalWrite func(off int64, n int)
	onJournalSync  func()
}

func (c *Conn) jwrite(off int64, data []byte) syscall.Errno {
	e := c.jf.Pwrite(off, data)
	if e == 0 && c.onJournalWrite != nil {
		c.onJournalWrite(off, len(data))
	}
	return e
}

func (c *Conn) jsync() syscall.Errno {
	e := c.jf.Fsync()
	if e == 0 && c.onJournalSync != nil {
		c.onJournalSync()
	}
	return e
}

// NewConn creates a connection object; Open must be called before use.
func (n *Node) NewConn(db string, mode string, pageSize uint32) *Conn {
	c := &Conn{r: n.r, n: n, k: n.K, DB: db, Owner: n.NewOwner(), Mode: mode, PageSize: pageSize, SectorSize: 512, T: n.r.Tape}
	if n.r.SectorSize != 0 {
		c.SectorSize = n.r.SectorSize
	}
	c.ID = int(c.Owner % 1000)
	return c
}

// Open opens (creating if needed) the database file.
func (c *Conn) Open() syscall.Errno {
	f, e := c.k.Open(c.DB, os.O_RDWR|os.O_CREATE, c.Owner)
	if e != 0 {
		return e
	}
	f.ownerTape = c.T
	c.dbf = f
	return 0
}

// Close closes every descriptor of the connection (dropping its locks).
func (c *Conn) Close() {
	if c.wal != nil {
		c.walClose()
	}
	if c.jf != nil {
		c.jf.Close()
		c.jf = nil
	}
	if c.dbf != nil {
		c.dbf.Close()
		c.dbf = nil
	}
	c.lock = 0
}

// ---------------------------------------------------------------------------
// page content

// Stamp layout: bytes [off, off+24) hold "S" conn tx pgno salt; the rest of the
// page is a xorshift fill seeded by the stamp, so any misplaced byte is
// attributable and pages are cheap to compare.
func stampOf(p []byte) string {
	if len(p) < 512 {
		return "short"
	}
	off := 0
	if string(p[:6]) == "SQLite" {
		off = 100
	}
	if p[off] != 'S' {
		return fmt.Sprintf("raw:%x", p[off:off+8])
	}
	return fmt.Sprintf("c%d.t%d.p%d", binary.BigEndian.Uint32(p[off+4:]), binary.BigEndian.Uint32(p[off+8:]), binary.BigEndian.Uint32(p[off+12:]))
}

func fillPage(p []byte, off int, conn, tx int, pgno uint32, salt uint32) {
	p[off], p[off+1], p[off+2], p[off+3] = 'S', 'T', 'M', 'P'
	binary.BigEndian.PutUint32(p[off+4:], uint32(conn))
	binary.BigEndian.PutUint32(p[off+8:], uint32(tx))
	binary.BigEndian.PutUint32(p[off+12:], pgno)
	binary.BigEndian.PutUint32(p[off+16:], salt)
	// The fill must not be linear over GF(2) in the stamp fields: LiteFS's
	// database checksum is an XOR of CRCs (affine), and with an xorshift fill
	// seeded by an XOR of the fields two pages rewritten by another connection
	// cancel each other out of every checksum (seen: a mixed snapshot passed
	// LiteFS's own verification and the from-scratch oracle). splitmix64.
	x := uint64(conn)*0x9e3779b97f4a7c15 + uint64(tx)*0xbf58476d1ce4e5b9 + uint64(pgno)*0x94d049bb133111eb + uint64(salt)*0xd6e8feb86659fd93
	for i := off + 20; i < len(p); i++ {
		x += 0x9e3779b97f4a7c15
		z := x
		z = (z ^ (z >> 30)) * 0xbf58476d1ce4e5b9
		z = (z ^ (z >> 27)) * 0x94d049bb133111eb
		z ^= z >> 31
		p[i] = byte(z >> 24)
	}
}

// MakePage builds the content of a page. Page 1 carries a valid 100-byte
// SQLite header.
func MakePage(pageSize uint32, conn, tx int, pgno uint32, salt uint32, hdr *DBHeader) []byte {
	p := make([]byte, pageSize)
	off := 0
	if pgno == 1 {
		off = 100
	}
	fillPage(p, off, conn, tx, pgno, salt)
	if pgno == 1 {
		hdr.encode(p, pageSize)
	}
	return p
}

// DBHeader holds the fields of the SQLite database header that matter.
type DBHeader struct {
	WAL           bool
	ChangeCounter uint32
	SizePages     uint32
	SchemaCookie  uint32
}

func (h *DBHeader) encode(p []byte, pageSize uint32) {
	copy(p, "SQLite format 3\x00")
	if pageSize == 65536 {
		binary.BigEndian.PutUint16(p[16:], 1)
	} else {
		binary.BigEndian.PutUint16(p[16:], uint16(pageSize))
	}
	v := byte(1)
	if h.WAL {
		v = 2
	}
	p[18], p[19] = v, v
	p[20], p[21], p[22], p[23] = 0, 64, 32, 32
	binary.BigEndian.PutUint32(p[24:], h.ChangeCounter)
	binary.BigEndian.PutUint32(p[28:], h.SizePages)
	for i := 32; i < 100; i++ {
		p[i] = 0
	}
	binary.BigEndian.PutUint32(p[40:], h.SchemaCookie)
	binary.BigEndian.PutUint32(p[44:], 4) // schema format
	binary.BigEndian.PutUint32(p[56:], 1) // utf-8
	binary.BigEndian.PutUint32(p[92:], h.ChangeCounter)
	binary.BigEndian.PutUint32(p[96:], 3051002)
}

func decodeDBHeader(p []byte) (h DBHeader, pageSize uint32, ok bool) {
	if len(p) < 100 || string(p[:16]) != "SQLite format 3\x00" {
		return h, 0, false
	}
	pageSize = uint32(binary.BigEndian.Uint16(p[16:]))
	if pageSize == 1 {
		pageSize = 65536
	}
	h.WAL = p[18] == 2 && p[19] == 2
	h.ChangeCounter = binary.BigEndian.Uint32(p[24:])
	h.SizePages = binary.BigEndian.Uint32(p[28:])
	h.SchemaCookie = binary.BigEndian.Uint32(p[40:])
	return h, pageSize, true
}

// ---------------------------------------------------------------------------
// lock protocol (os_unix.c unixLock/unixUnlock)

// LockShared takes a SHARED lock: PENDING read, SHARED range read, PENDING unlock.
func (c *Conn) LockShared() syscall.Errno {
	if e := c.dbf.Lock(fuse.LockRead, pendingByte, pendingByte); e != 0 {
		return e
	}
	e := c.dbf.Lock(fuse.LockRead, sharedFirst, sharedFirst+sharedSize-1)
	c.dbf.Lock(fuse.LockUnlock, pendingByte, pendingByte)
	if e != 0 {
		return e
	}
	c.lock = 1
	return 0
}

// LockReserved takes RESERVED.
func (c *Conn) LockReserved() syscall.Errno {
	if e := c.dbf.Lock(fuse.LockWrite, reservedByte, reservedByte); e != 0 {
		return e
	}
	c.lock = 2
	return 0
}

// LockExclusive takes PENDING then the SHARED range exclusively.
func (c *Conn) LockExclusive() syscall.Errno {
	if e := c.dbf.Lock(fuse.LockWrite, pendingByte, pendingByte); e != 0 {
		return e
	}
	if e := c.dbf.Lock(fuse.LockWrite, sharedFirst, sharedFirst+sharedSize-1); e != 0 {
		return e
	}
	c.lock = 4
	return 0
}

// Downgrade goes from EXCLUSIVE/RESERVED back to SHARED.
func (c *Conn) Downgrade() syscall.Errno {
	if e := c.dbf.Lock(fuse.LockRead, sharedFirst, sharedFirst+sharedSize-1); e != 0 {
		return e
	}
	if e := c.dbf.Lock(fuse.LockUnlock, pendingByte, pendingByte+1); e != 0 {
		return e
	}
	c.lock = 1
	return 0
}

// UnlockAll drops every lock on the database file (unlock [0, inf)).
func (c *Conn) UnlockAll() syscall.Errno {
	e := c.dbf.Lock(fuse.LockUnlock, 0, ^uint64(0))
	c.lock = 0
	return e
}

// ---------------------------------------------------------------------------
// reading

// ReadHeader reads the 100-byte database header through the page cache.
func (c *Conn) ReadHeader() (DBHeader, bool, syscall.Errno) {
	b, e := c.dbf.Pread(0, 100)
	if e != 0 {
		return DBHeader{}, false, e
	}
	h, ps, ok := decodeDBHeader(b)
	if ok {
		c.PageSize = ps
	}
	return h, ok, 0
}

// ReadPage reads one page through the page cache.
func (c *Conn) ReadPage(pgno uint32) ([]byte, syscall.Errno) {
	b, e := c.dbf.Pread(int64(pgno-1)*int64(c.PageSize), int(c.PageSize))
	if e != 0 {
		return nil, e
	}
	if len(b) < int(c.PageSize) {
		b = append(b, make([]byte, int(c.PageSize)-len(b))...)
	}
	return b, 0
}

// ReadImageLocked reads the whole database as a rollback-mode reader holding
// SHARED would: the size from the file size, every page through the cache.
func (c *Conn) ReadImageLocked() (*Image, syscall.Errno) {
	size, e := c.dbf.Size()
	if e != 0 {
		return nil, e
	}
	if size == 0 {
		return nil, 0
	}
	hdr, ok, e := c.ReadHeader()
	if e != 0 {
		return nil, e
	} else if !ok {
		return nil, syscall.EILSEQ
	}
	im := &Image{PageSize: c.PageSize}
	n := uint32(size / int64(c.PageSize))
	// SQLite trusts the in-header size; a file that is longer (the truncate
	// after a shrinking commit did not happen yet) is cut logically.
	if hdr.SizePages > 0 && hdr.SizePages < n {
		n = hdr.SizePages
		c.r.Count("reader.file-longer-than-header")
	}
	for pg := uint32(1); pg <= n; pg++ {
		p, e := c.ReadPage(pg)
		if e != 0 {
			return nil, e
		}
		im.Pages = append(im.Pages, p)
	}
	return im, 0
}

// ReadTx takes SHARED, reads the whole image through the cache, and unlocks.
func (c *Conn) ReadTx() (*Image, syscall.Errno) {
	if e := c.LockShared(); e != 0 {
		return nil, e
	}
	im, e := c.ReadImageLocked()
	c.UnlockAll()
	return im, e
}

// ---------------------------------------------------------------------------
// the rollback-journal write transaction

type jrec struct {
	pgno uint32
	orig []byte
}

// journal state of the running transaction
type jstate struct {
	nonce    uint32
	origSize uint32
	hdrOff   int64 // offset of the current segment header
	off      int64 // next write offset
	nRec     int   // records in current segment
	recs     []jrec
	synced   bool // at least one header carries the magic on disk
}

func (c *Conn) sectorAlign(off int64) int64 {
	s := int64(c.SectorSize)
	if off == 0 {
		return 0
	}
	return ((off-1)/s + 1) * s
}

func (c *Conn) journalHeader(j *jstate, nosync bool) []byte {
	h := make([]byte, c.SectorSize)
	if nosync {
		copy(h, journalMagic)
		binary.BigEndian.PutUint32(h[8:], 0xffffffff)
	}
	binary.BigEndian.PutUint32(h[12:], j.nonce)
	binary.BigEndian.PutUint32(h[16:], j.origSize)
	binary.BigEndian.PutUint32(h[20:], c.SectorSize)
	binary.BigEndian.PutUint32(h[24:], c.PageSize)
	return h
}

// nonceSeq makes the checksum nonces of one process distinct: SQLite draws
// them from its PRNG (a collision has probability 2^-32), while a minimised
// tape would otherwise make them all equal and stale journal records valid.
var nonceSeq atomic.Uint32

func (c *Conn) newNonce() uint32 {
	return uint32(c.T.Next(1<<20))<<12 | (nonceSeq.Add(1) & 0xfff) | 1<<31
}

func journalCksum(data []byte, nonce uint32) uint32 {
	c := nonce
	for i := len(data) - 200; i > 0; i -= 200 {
		c += uint32(data[i])
	}
	return c
}

// openJournal opens the journal file as the pager does.
func (c *Conn) openJournal() syscall.Errno {
	if c.jf != nil {
		return 0
	}
	f, e := c.k.Open(c.DB+"-journal", os.O_RDWR|os.O_CREATE, c.Owner)
	if e != 0 {
		return e
	}
	c.jf = f
	return 0
}

// syncJournal makes the current segment valid: fsync, 12-byte magic+count
// header write, fsync (skipped in no-sync mode).
func (c *Conn) syncJournal(j *jstate, nosync bool) (string, syscall.Errno) {
	if nosync {
		j.synced = true
		return "", 0
	}
	// pager.c syncJournal(): if a journal header left over from an earlier
	// (persistent-journal) transaction follows the records written so far,
	// clobber its first byte so that it can never be mistaken for ours.
	next := c.sectorAlign(j.off)
	if b, e := c.jf.Pread(next, 8); e == 0 && len(b) == 8 && string(b) == string(journalMagic) {
		if e := c.jwrite(next, []byte{0}); e != 0 {
			return "journal-clobber-stale-header", e
		}
		c.r.Count("pager.stale-header-clobbered")
	}
	if e := c.jsync(); e != 0 {
		return "journal-fsync", e
	}
	h := make([]byte, 12)
	copy(h, journalMagic)
	binary.BigEndian.PutUint32(h[8:], uint32(j.nRec))
	if e := c.jwrite(j.hdrOff, h); e != 0 {
		return "journal-header-sync", e
	}
	if e := c.jsync(); e != 0 {
		return "journal-fsync2", e
	}
	j.synced = true
	return "", 0
}

// WriteTx runs a rollback-journal write transaction program.
// ref is the image SQLite currently sees (the committed image); it is not
// modified. On commit the new image is returned in the result.
func (c *Conn) WriteTx(prog TxProgram, ref *Image) (res TxResult) {
	c.txSeq++
	tx := c.txSeq
	var jr *jstate                   // journal state once the journal exists
	var writtenPages map[uint32]bool // pages written in place so far
	fail := func(at string, e syscall.Errno) TxResult {
		out := "error"
		if e == syscall.EAGAIN {
			out = "busy"
		}
		// SQLite reacts to an I/O error or BUSY inside a write transaction by
		// rolling the transaction back: pages already written in place are
		// restored from the journal, the file is cut back and the journal is
		// finalised. If that fails too the journal stays hot.
		if jr != nil && c.jf != nil && c.dbf != nil {
			c.r.Count("pager.error-rollback")
			ok := true
			for _, rec := range jr.recs {
				if writtenPages[rec.pgno] {
					if c.dbf.Pwrite(int64(rec.pgno-1)*int64(c.PageSize), rec.orig) != 0 {
						ok = false
					}
				}
			}
			if ok {
				if sz, e2 := c.dbf.Size(); e2 == 0 && sz > int64(jr.origSize)*int64(c.PageSize) && len(writtenPages) > 0 {
					if c.dbf.Truncate(int64(jr.origSize)*int64(c.PageSize)) != 0 {
						ok = false
					}
				}
			}
			if ok {
				c.finalizeJournal()
			}
		}
		c.abortTx()
		return TxResult{Outcome: out, Errno: e, FailedAt: at}
	}

	if prog.HotProbe {
		c.hotJournalProbe()
	}
	if e := c.LockShared(); e != 0 {
		return fail("lock-shared", e)
	}
	// Read page 1 as the pager does to validate its cache.
	hdr, hdrOK, e := c.ReadHeader()
	if e != 0 {
		return fail("read-header", e)
	}
	if e := c.LockReserved(); e != 0 {
		return fail("lock-reserved", e)
	}
	if prog.Outcome == OutLockOnly {
		// BEGIN IMMEDIATE; COMMIT with nothing written: no journal is opened.
		c.Downgrade()
		c.UnlockAll()
		return TxResult{Outcome: OutLockOnly}
	}

	origSize := ref.N()
	if hdrOK && hdr.SizePages != origSize {
		// SQLite trusts the in-header size; a mismatch means a stale read.
		c.r.Logf("conn %d: header size %d but reference has %d pages", c.ID, hdr.SizePages, origSize)
	}

	if e := c.openJournal(); e != 0 {
		return fail("journal-open", e)
	}
	j := &jstate{nonce: c.newNonce(), origSize: origSize}
	if e := c.jwrite(0, c.journalHeader(j, prog.NoSync)); e != 0 {
		return fail("journal-header", e)
	}
	j.hdrOff, j.off = 0, int64(c.SectorSize)
	jr = j

	// Build the new image.
	newIm := ref.Clone()
	if newIm == nil {
		newIm = &Image{PageSize: c.PageSize}
	}
	newIm.PageSize = c.PageSize
	mod := map[uint32]bool{1: true}
	for _, p := range prog.Modify {
		if p >= 1 && p <= origSize {
			mod[p] = true
		}
	}
	newHdr := DBHeader{WAL: hdr.WAL, ChangeCounter: hdr.ChangeCounter + 1, SizePages: prog.NewSize, SchemaCookie: hdr.SchemaCookie}
	switch prog.SetWAL {
	case 1:
		newHdr.WAL = true
	case 2:
		newHdr.WAL = false
	}
	for uint32(len(newIm.Pages)) < prog.NewSize {
		newIm.Pages = append(newIm.Pages, nil)
	}
	newIm.Pages = newIm.Pages[:prog.NewSize]
	lock := LockPgno(c.PageSize)
	var dirty []uint32
	for pg := uint32(1); pg <= prog.NewSize; pg++ {
		if pg == lock {
			newIm.Pages[pg-1] = make([]byte, c.PageSize) // never written by SQLite
			continue
		}
		if mod[pg] || pg > origSize {
			newIm.Pages[pg-1] = MakePage(c.PageSize, c.ID, tx, pg, uint32(c.n.ID), &newHdr)
			dirty = append(dirty, pg)
		}
	}

	if c.OnNewImage != nil && prog.Outcome == OutCommit {
		c.OnNewImage(newIm)
	}

	// Pages that need a journal record: modified pages that existed before and
	// survive... SQLite journals a page before changing it, including pages it
	// later truncates away only if they were touched; free-list pages that are
	// simply cut off are not journalled.
	var toJournal []uint32
	for pg := range mod {
		if pg <= origSize && pg != lock {
			toJournal = append(toJournal, pg)
		}
	}
	sort.Slice(toJournal, func(a, b int) bool { return toJournal[a] < toJournal[b] })

	written := map[uint32]bool{} // pages already written in place (after a spill)
	writtenPages = written
	exclusive := false
	spillIdx := 0
	spill := func() (string, syscall.Errno) {
		if !exclusive {
			if e := c.LockExclusive(); e != 0 {
				return "lock-exclusive", e
			}
			exclusive = true
		}
		if at, e := c.syncJournal(j, prog.NoSync); e != 0 {
			return at, e
		}
		return "", 0
	}
	journalled := map[uint32]bool{}
	for i, pg := range toJournal {
		orig, e := c.ReadPage(pg)
		if e != 0 {
			return fail("read-orig", e)
		}
		var b4 [4]byte
		binary.BigEndian.PutUint32(b4[:], pg)
		if e := c.jwrite(j.off, b4[:]); e != 0 {
			return fail("journal-pgno", e)
		}
		if e := c.jwrite(j.off+4, orig); e != 0 {
			return fail("journal-page", e)
		}
		binary.BigEndian.PutUint32(b4[:], journalCksum(orig, j.nonce))
		if e := c.jwrite(j.off+4+int64(c.PageSize), b4[:]); e != 0 {
			return fail("journal-cksum", e)
		}
		j.off += int64(c.PageSize) + 8
		j.nRec++
		j.recs = append(j.recs, jrec{pg, orig})
		journalled[pg] = true

		if spillIdx < len(prog.SpillAt) && prog.SpillAt[spillIdx] == i+1 && i+1 < len(toJournal) {
			spillIdx++
			c.r.Count("pager.spill")
			if at, e := spill(); e != 0 {
				return fail(at, e)
			}
			// write the pages journalled so far (page 1 is held back to commit)
			for _, dp := range dirty {
				if dp == 1 || written[dp] || (dp <= origSize && !journalled[dp]) || dp > origSize {
					continue
				}
				if e := c.dbf.Pwrite(int64(dp-1)*int64(c.PageSize), newIm.Pages[dp-1]); e != 0 {
					return fail("spill-write", e)
				}
				written[dp] = true
			}
			// start a new journal segment at the next sector boundary. In
			// no-sync mode (synchronous=OFF) syncJournal() does nothing: the
			// journal stays a single segment with count -1 (strace-verified).
			if !prog.NoSync {
				j.hdrOff = c.sectorAlign(j.off)
				j.nRec = 0
				// writeJournalHdr() draws a fresh checksum nonce for every header
				j.nonce = c.newNonce()
				if e := c.jwrite(j.hdrOff, c.journalHeader(j, prog.NoSync)); e != 0 {
					return fail("journal-header2", e)
				}
				j.off = j.hdrOff + int64(c.SectorSize)
			}
		}
	}
	if prog.Outcome == OutRollback {
		c.r.Count("pager.rollback")
		// ROLLBACK: play the journal back if anything was written in place.
		if len(written) > 0 {
			for _, rec := range j.recs {
				if !written[rec.pgno] {
					continue
				}
				if e := c.dbf.Pwrite(int64(rec.pgno-1)*int64(c.PageSize), rec.orig); e != 0 {
					return fail("rollback-write", e)
				}
			}
			if e := c.dbf.Fsync(); e != 0 {
				return fail("rollback-fsync", e)
			}
		}
		if at, e := c.finalizeJournal(); e != 0 {
			return fail(at, e)
		}
		if c.OnFinalized != nil {
			c.OnFinalized()
		}
		c.Downgrade()
		c.UnlockAll()
		return TxResult{Outcome: OutRollback}
	}

	// COMMIT phase one.
	if at, e := spill(); e != 0 { // takes EXCLUSIVE (if not yet) and syncs the journal
		return fail(at, e)
	}
	for _, pg := range dirty {
		if written[pg] && pg != 1 {
			continue
		}
		if e := c.dbf.Pwrite(int64(pg-1)*int64(c.PageSize), newIm.Pages[pg-1]); e != 0 {
			return fail(fmt.Sprintf("db-write-%d", pg), e)
		}
		written[pg] = true
	}
	if !prog.NoSync {
		if e := c.dbf.Fsync(); e != 0 {
			return fail("db-fsync", e)
		}
	}
	// COMMIT phase two: finalise the journal. This is the commit point.
	if at, e := c.finalizeJournal(); e != 0 {
		if at == "journal-fsync3" {
			// the journal has already been truncated / its header zeroed: there
			// is nothing left to roll back from, the transaction is committed and
			// only the sync of the journal file failed (the pager goes into its
			// error state and drops its cache and locks)
			c.abortTx()
			return TxResult{Outcome: "error", Errno: e, FailedAt: at, After: newIm}
		}
		return fail(at, e)
	}
	if c.OnCommitPoint != nil {
		c.OnCommitPoint()
	}
	if c.OnFinalized != nil {
		c.OnFinalized()
	}
	// Only now is the file cut if the database shrank.
	if prog.NewSize < origSize {
		c.r.Count("pager.shrink")
		if e := c.dbf.Truncate(int64(prog.NewSize) * int64(c.PageSize)); e != 0 {
			// the transaction is already committed
			c.Downgrade()
			c.UnlockAll()
			return TxResult{Outcome: "error", Errno: e, FailedAt: "db-truncate-after-commit", After: newIm}
		}
	}
	c.Downgrade()
	c.UnlockAll()
	return TxResult{Outcome: OutCommit, After: newIm}
}

// finalizeJournal ends the transaction per journal mode.
func (c *Conn) finalizeJournal() (string, syscall.Errno) {
	switch c.Mode {
	case ModeDelete:
		c.jf.Close()
		c.jf = nil
		if e := c.k.Unlink(c.DB + "-journal"); e != 0 {
			return "journal-unlink", e
		}
	case ModeTruncate:
		if e := c.jf.Truncate(0); e != 0 {
			return "journal-truncate", e
		}
		if e := c.jsync(); e != 0 {
			return "journal-fsync3", e
		}
		if !c.KeepJFD {
			c.jf.Close()
			c.jf = nil
		}
	case ModePersist:
		if e := c.jwrite(0, make([]byte, 28)); e != 0 {
			return "journal-zero", e
		}
		if e := c.jsync(); e != 0 {
			return "journal-fsync3", e
		}
		if !c.KeepJFD {
			c.jf.Close()
			c.jf = nil
		}
	default:
		return "journal-mode", syscall.EINVAL
	}
	return "", 0
}

// abortTx is what the pager does when an I/O error or BUSY ends a transaction:
// it drops the journal descriptor and all locks.
func (c *Conn) abortTx() {
	if c.jf != nil {
		c.jf.Close()
		c.jf = nil
	}
	if c.dbf != nil {
		c.dbf.Lock(fuse.LockUnlock, 0, ^uint64(0))
	}
	c.lock = 0
}

// hotJournalProbe is pager.c hasHotJournal(): access(), GETLK on RESERVED,
// open read-only, read the first byte.
func (c *Conn) hotJournalProbe() (hot bool) {
	a, e := c.k.Stat(c.DB + "-journal")
	if e != 0 || a.Size == 0 {
		return false
	}
	if t, e := c.dbf.QueryLock(fuse.LockWrite, reservedByte, reservedByte); e == 0 && t != fuse.LockUnlock {
		return false
	}
	f, e := c.k.Open(c.DB+"-journal", os.O_RDONLY, c.Owner)
	if e != 0 {
		return false
	}
	b, _ := f.Pread(0, 1)
	f.Close()
	return len(b) == 1 && b[0] != 0
}

// RecoverHotJournal is what the next connection does when it finds a hot
// journal while taking its SHARED lock (pager.c sqlite3PagerSharedLock ->
// pager_playback(isHot=1)): EXCLUSIVE, open the journal read/write, cut the
// database back to the size recorded in the first header, write every record
// whose checksum matches its segment's nonce back into the database file,
// stop at the first header or record that is not valid, sync the database,
// finalise the journal the way the journal mode says, go back to SHARED.
// The connection must hold SHARED. Returns whether a rollback was performed.
func (c *Conn) RecoverHotJournal() (bool, string, syscall.Errno) {
	if !c.hotJournalProbe() {
		return false, "", 0
	}
	if e := c.LockExclusive(); e != 0 {
		return false, "hot-exclusive", e
	}
	if c.jf != nil {
		c.jf.Close()
		c.jf = nil
	}
	jf, e := c.k.Open(c.DB+"-journal", os.O_RDWR, c.Owner)
	if e != 0 {
		c.Downgrade()
		return false, "hot-open", e
	}
	c.jf = jf
	c.r.Count("pager.hot-journal-rollback")
	if e := c.jsync(); e != 0 {
		return false, "hot-journal-fsync", e
	}
	size, e := jf.Size()
	if e != 0 {
		return false, "hot-size", e
	}
	raw, e := jf.Pread(0, int(size))
	if e != 0 {
		return false, "hot-read", e
	}
	ps := int64(c.PageSize)
	off := int64(0)
	first := true
	for off+28 <= size {
		h := raw[off:]
		if string(h[:8]) != string(journalMagic) {
			break
		}
		nRec := binary.BigEndian.Uint32(h[8:])
		nonce := binary.BigEndian.Uint32(h[12:])
		origSize := binary.BigEndian.Uint32(h[16:])
		sector := int64(binary.BigEndian.Uint32(h[20:]))
		pageSize := int64(binary.BigEndian.Uint32(h[24:]))
		if first {
			if sector < 32 || sector > 65536 || sector&(sector-1) != 0 || pageSize != ps {
				break
			}
			if sz, e2 := c.dbf.Size(); e2 == 0 && sz > int64(origSize)*ps {
				if e := c.dbf.Truncate(int64(origSize) * ps); e != 0 {
					return false, "hot-truncate", e
				}
			}
			first = false
		} else {
			sector = int64(c.SectorSize)
		}
		rec := off + sector
		if nRec == 0xffffffff {
			nRec = uint32((size - rec) / (ps + 8))
		}
		bad := false
		for i := uint32(0); i < nRec; i++ {
			if rec+ps+8 > size {
				bad = true
				break
			}
			pgno := binary.BigEndian.Uint32(raw[rec:])
			data := raw[rec+4 : rec+4+ps]
			if pgno == 0 || pgno == LockPgno(c.PageSize) || binary.BigEndian.Uint32(raw[rec+4+ps:]) != journalCksum(data, nonce) {
				bad = true
				break
			}
			if pgno <= origSize {
				if e := c.dbf.Pwrite(int64(pgno-1)*ps, data); e != 0 {
					return false, "hot-write", e
				}
			}
			rec += ps + 8
		}
		if bad {
			break
		}
		// next segment header at the next sector boundary
		off = ((rec + sector - 1) / sector) * sector
	}
	if e := c.dbf.Fsync(); e != 0 {
		return false, "hot-db-fsync", e
	}
	if at, e := c.finalizeJournal(); e != 0 {
		return false, "hot-" + at, e
	}
	if e := c.Downgrade(); e != 0 {
		return true, "hot-downgrade", e
	}
	return true, "", 0
}

// ReadTxRecover is ReadTx as a fresh connection does it: a hot journal is
// rolled back first.
func (c *Conn) ReadTxRecover() (*Image, syscall.Errno) {
	if e := c.LockShared(); e != 0 {
		return nil, e
	}
	if _, _, e := c.RecoverHotJournal(); e != 0 {
		c.UnlockAll()
		return nil, e
	}
	im, e := c.ReadImageLocked()
	c.UnlockAll()
	return im, e
}

// GenProgram draws a rollback-mode transaction program from the tape.
// cur is the current size in pages.
// bigSizes are database sizes around the 256-page checksum block boundaries.
var bigSizes = []uint32{250, 255, 256, 257, 258, 300, 400, 511, 512, 513, 520, 600, 700}

// BigSize picks a size near a checksum block boundary (not above maxPages).
func BigSize(t *Tape, maxPages uint32) uint32 {
	n := bigSizes[t.Next(len(bigSizes))]
	if n > maxPages {
		n = maxPages
	}
	return n
}

func GenProgram(t *Tape, cur uint32, maxPages uint32, lock uint32) TxProgram {
	var p TxProgram
	switch t.Pick([]int{70, 12, 8}) {
	case 0:
		p.Outcome = OutCommit
	case 1:
		p.Outcome = OutRollback
	case 2:
		p.Outcome = OutLockOnly
	}
	// size change
	switch t.Pick([]int{45, 30, 18, 7}) {
	case 0:
		p.NewSize = cur
	case 1:
		p.NewSize = cur + uint32(t.Range(1, 6))
	case 2:
		if cur > 1 {
			p.NewSize = cur - uint32(t.Range(1, int(min32(cur-1, 8))))
		} else {
			p.NewSize = cur
		}
	case 3:
		// jump to a block boundary neighbourhood
		targets := []uint32{255, 256, 257, 258, 511, 512, 513}
		p.NewSize = targets[t.Next(len(targets))]
	}
	if p.NewSize < 1 {
		p.NewSize = 1
	}
	if p.NewSize > maxPages {
		p.NewSize = maxPages
	}
	if cur == 0 && p.NewSize < 1 {
		p.NewSize = 1
	}
	// modified pages
	if cur > 0 {
		n := t.Range(0, 5)
		for i := 0; i < n; i++ {
			p.Modify = append(p.Modify, uint32(t.Range(1, int(cur))))
		}
		if t.Chance(1, 6) && cur > 8 {
			// a run across a checksum-block boundary or the end
			start := uint32(t.Range(1, int(cur)))
			for i := uint32(0); i < 6 && start+i <= cur; i++ {
				p.Modify = append(p.Modify, start+i)
			}
		}
	}
	if t.Chance(1, 5) {
		k := t.Range(1, 3)
		at := 0
		for i := 0; i < k; i++ {
			at += t.Range(1, 2)
			p.SpillAt = append(p.SpillAt, at)
		}
	}
	p.NoSync = t.Chance(1, 8)
	p.HotProbe = t.Chance(1, 6)
	_ = lock
	return p
}

func min32(a, b uint32) uint32 {
	if a < b {
		return a
	}
	return b
}
