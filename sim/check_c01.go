package verifsim

import (
	"fmt"
	"time"

	"github.com/superfly/litefs"
)

func init() {
	register(&CheckDef{
		ID:    "C01",
		Level: "exploration",
		Rule:  "seeded multi-node simulations: 2-4 real Stores with real FUSE handler trees and real HTTP handlers, wired by SimNet (scheduler-gated byte delivery, resets, partitions, back-pressure) and SimLease (TTL sessions), PagerSim writers on whichever node is primary (rollback modes and WAL, page sizes 512..65536, grow/shrink across checksum blocks, LZ4 on/off, 1-2 databases), PagerSim readers on every node reading position and every page through the simulated page cache under proper SQLite read locks; a seeded scheduler decides every interleaving of OS calls, invalidations, lock transitions, stream reads/writes and application file operations; faults: stream reset at any byte, partition, node crash at any yield point + restart on the durable image, demotion, lease expiry, cache eviction, retention trimming. Safety at every reader step (image = image committed at the reported position; -pos file agrees with DB.Pos), liveness after heal (all replicas at the primary's position within 120 s simulated), end-state audit incl. from-scratch checksum. evaluations = runs; distinct = distinct (nodes, mode, page size class, faults fired set, role-change count) tuples plus distinct interleaving hashes reported separately; non-trivial = run with >= 3 commits and >= 1 replica read check",
		Run:   runC01,
		NonTrivial: func(r *Run) bool {
			return (r.Stats["writer.tx.commit"] >= 3 && r.Stats["reader.checked.replica"] >= 1) || r.Stats["c01.half-open.followed"] > 0
		},
		Assumptions: []string{
			"SimKernel page-cache contract (explicit invalidation only, OpenKeepCache) and PagerSim fidelity (DESIGN §4)",
			"one writer transaction at a time cluster-wide (the reference image of a position must be known); readers, replication, faults and LiteFS background work are fully concurrent",
			"one fake clock for all nodes (no per-node skew)",
			"liveness bound 120 s simulated is a stated bound, not derived from implementation constants",
		},
		Real: []string{"litefs.Store (monitorLease, processLTXStreamFrame, retention, halt monitor)", "litefs.DB", "litefs/http Server handlers + Client", "litefs/fuse nodes/handles/Invalidator", "superfly/ltx"},
		Stub: []string{"SimNet transport", "SimLease service", "SimKernel", "PagerSim", "fake clock + scheduler"},
	})
}

// c01HalfOpen: a replica's stream goes away on the replica's side only (its
// reads fail; nothing tells the primary, whose handler lives on until its next
// write - a heartbeat after a second, or the next transaction - fails). The
// replica reconnects after its reconnect delay, before or after the primary
// has noticed. Whatever the order, the replica has to follow the primary's
// next commits within bounded time.
func c01HalfOpen(r *Run) {
	t := r.Tape
	pr := newPair(r, t.Chance(1, 2), 0)
	reconnect := []time.Duration{20 * time.Millisecond, 300 * time.Millisecond, 1200 * time.Millisecond}[t.Next(3)]
	pr.rep.Cfg.Tune = func(s *litefs.Store) { s.ReconnectDelay = reconnect }
	r.Cfg["scenario"], r.Cfg["reconnect"] = "half-open", reconnect.String()
	if !pr.open() {
		return
	}
	h := &hist{r: r, n: pr.p, name: "db"}
	h.pageSize = []uint32{512, 4096}[t.Next(2)]
	h.jmode = []string{ModeDelete, ModeTruncate, ModePersist}[t.Next(3)]
	h.maxPages = 10
	if !h.openConns(1) {
		return
	}
	for i := 0; i < 3 && h.ref.N() == 0; i++ {
		h.commit(t)
	}
	if r.Failed() || h.ref.N() == 0 {
		return
	}
	if t.Chance(1, 3) && !h.toWAL() {
		return
	}
	if !r.Check(pr.waitReplica(h.name, 20*time.Second), "c01.setup", "the replica did not follow") {
		return
	}
	for round, n := 0, t.Range(1, 3); round < n && !r.Failed(); round++ {
		var stream *simConn
		for _, c := range pr.net.LiveConns() {
			if c.path == "/stream" && c.from == pr.rep.ID {
				stream = c
			}
		}
		if stream == nil {
			time.Sleep(reconnect + 100*time.Millisecond)
			continue
		}
		stream.resetClientSide("fault")
		r.Count("fault.conn_half_reset")
		// commits arrive before the reconnect, between the reconnect and the
		// primary's heartbeat, or after everything has settled
		wait := []time.Duration{0, reconnect / 2, reconnect + 50*time.Millisecond, reconnect + 1500*time.Millisecond, 3 * time.Second}[t.Next(5)]
		time.Sleep(wait)
		for k, nc := 0, t.Range(1, 3); k < nc && !r.Failed(); k++ {
			h.commit(t)
			if t.Chance(1, 2) {
				time.Sleep(time.Duration(t.Range(1, 1500)) * time.Millisecond)
			}
		}
		if r.Failed() {
			return
		}
		want := h.db().Pos()
		if !waitPos(pr.rep, h.name, want, 30*time.Second) {
			r.Failf("c01.liveness", "the replica's stream was cut on its side only (the primary noticed at its next write), it reconnected after %v, the primary committed %v after the cut; 30 s (simulated) later the replica is at %s, the primary at %s", reconnect, wait, posOf(pr.rep, h.name), want)
			return
		}
		r.Count("c01.half-open.followed")
	}
	h.closeConns()
	r.State("half-open/%s/%v", reconnect, h.wal)
}

func runC01(r *Run) {
	t := r.Tape
	if t.Chance(1, 10) {
		c01HalfOpen(r)
		return
	}
	nNodes := 2 + t.Pick([]int{5, 4, 1})
	cs := newClusterSim(r, nNodes, "c01")
	cs.wantTx = t.Range(4, 14)
	maxSteps := 2500
	if r.Thorough() {
		cs.wantTx = t.Range(6, 40)
		maxSteps = 12000
	}
	faultW := []int{0, 2, 5, 10}[t.Pick([]int{2, 4, 3, 1})]
	cs.cl.Net.BufCap = []int{0, 256, 4096, 70000}[t.Next(4)]
	evict := []int{0, 2, 15}[t.Next(3)]
	for _, n := range cs.cl.Nodes {
		n.Cfg.EvictPct = evict
	}
	r.Cfg["fault_weight"], r.Cfg["bufcap"], r.Cfg["evict_pct"], r.Cfg["want_tx"] = faultW, cs.cl.Net.BufCap, evict, cs.wantTx
	if !cs.openAll() {
		return
	}
	wt := t.Fork()
	cs.goActor("writer", func() { cs.writerLoop(wt) })
	for _, n := range cs.cl.Nodes {
		n, rt := n, t.Fork()
		cs.goActor("reader-"+n.Name, func() { cs.readerLoop(n, rt) })
	}
	// chaos
	roleChanges := 0
	lastPrimary := 0
	for step := 0; step < maxSteps && !r.Failed(); step++ {
		cs.handleExits()
		cs.mu.Lock()
		done := cs.commits >= cs.wantTx
		cs.mu.Unlock()
		if done {
			break
		}
		var acts []Action
		if faultW > 0 {
			acts = cs.faultActions(faultW)
		}
		cs.s.StepOnce(acts, true)
		if p := cs.cl.Primary(); p != nil && p.ID != lastPrimary {
			lastPrimary = p.ID
			roleChanges++
		}
	}
	if r.Failed() {
		return
	}
	// heal and settle: every connected replica reaches the primary's position
	cs.heal()
	cs.mu.Lock()
	cs.wantTx = 0 // the writer stops after its current transaction
	cs.mu.Unlock()
	exitsBefore := r.Stats["node.exit"]
	ok, why := cs.settle(120 * time.Second)
	if !r.Failed() && !ok {
		if why == "no primary" {
			// The property's liveness clause is conditional on a primary that
			// stays up; a cluster that cannot elect one (e.g. the cluster id was
			// set on the lease service but the node died before persisting it)
			// is outside its statement. Counted, not flagged.
			r.Count("c01.settle.no-primary")
		} else {
			r.Failf("c01.liveness", "120 s (simulated) after the last fault the cluster has not converged: %s", why)
		}
	}
	if faultW == 0 {
		// ... unless a primary's lease ran out under it: the seeded scheduler can
		// keep the renewal goroutine waiting for longer than the time to live (a
		// slow node, although no fault was asked for), and a primary that loses
		// write access between SQLite's WAL commit frame and CommitWAL exits by
		// design (the frames are in the log, the transaction cannot be published).
		if r.Stats["lease.session-expired"] == 0 {
			r.Check(r.Stats["node.exit"] == 0, "c01.exit", "a node exited in a fault-free run")
		} else if r.Stats["node.exit"] > 0 {
			r.Count("c01.exit-after-lease-expiry")
		}
	}
	_ = exitsBefore
	if !r.Failed() && cs.quiesce() {
		// one more fair settle so that what the last transaction committed is replicated
		if ok, why := cs.settle(120 * time.Second); !ok && why != "no primary" && !r.Failed() {
			r.Failf("c01.liveness", "120 s (simulated) after the workload stopped the cluster has not converged: %s", why)
		}
		// ... and what is committed from now on is replicated too: one more
		// transaction on the primary, after every fault has stopped and every
		// stream has had time to settle, has to reach every replica (a stream
		// that is connected and exchanges heartbeats but no longer carries
		// transactions would show here and nowhere else)
		if p := cs.cl.Primary(); p != nil && !r.Failed() {
			pt := t.Fork()
			before := cs.commits
			cs.goActor("probe-writer", func() { cs.writeOnce(p, cs.dbs[0], pt) })
			if cs.quiesce() && !r.Failed() {
				if cs.commits > before {
					r.Count("c01.final-probe-commit")
				}
				if ok, why := cs.settle(120 * time.Second); !ok && why != "no primary" && !r.Failed() {
					r.Failf("c01.liveness", "a transaction committed on the primary after all faults had stopped and the cluster had converged was not replicated within 120 s (simulated): %s", why)
				}
			}
		}
		if !r.Failed() {
			cs.audit()
		}
	}
	fired := ""
	for _, k := range []string{"fault.conn_reset", "fault.crash", "fault.partition", "fault.demote", "fault.lease_force_expire", "fault.evict_all"} {
		if r.Stats[k] > 0 {
			fired += k[6:7]
		} else {
			fired += "-"
		}
	}
	r.State("%d/%v/%s/%s/rc%d", nNodes, cs.wal, sizeClass(cs.pageSize/512), fired, roleChanges)
	r.Sample = map[string]any{"commits": cs.writerLog, "role_changes": roleChanges, "reader_checks": cs.readerOK, "sim_seconds": fmt.Sprintf("%.1f", r.SimNow().Seconds())}
}
