package verifsim

import (
	"bytes"
	"fmt"
	"os"
	"path/filepath"
	"sort"
	"strings"
	"sync"
	"syscall"
	"time"

	"github.com/superfly/litefs"
	"github.com/superfly/ltx"
)

// clusterSim is the multi-node (H2) workload shared by the replication checks:
// real Stores wired by SimNet and SimLease, PagerSim writers on whichever node
// is primary, PagerSim readers on every node reading through the page cache,
// a seeded scheduler deciding every interleaving, and a fault menu.
type clusterSim struct {
	onRestart func(n *Node) // called after a node came back on its image
	r         *Run
	cl        *Cluster
	s         *Sched
	ims       *ImageStore

	dbs      []string
	pageSize uint32
	wal      bool
	jmode    string
	maxPages uint32

	mu           sync.Mutex
	latest       map[string]ltx.Pos // newest committed position per db (primary's history)
	commits      int
	ckpts        int  // application checkpoints completed (C10)
	walReadPause bool // WAL writers linger as readers before they write (C10)
	wantTx       int
	stopWork     bool
	readerOK     int
	writerLog    []string
	down         map[int]string // crashed nodes -> image dir
	reaping      int
	actors       int // running application goroutines

	// The writer keeps its connection to a node open between transactions (what
	// an application does) in half of the runs; in the other half every
	// transaction comes from a fresh connection (a fresh process). A connection
	// that stays keeps the wal-index alive, carries nCkpt and holds SHARED on a
	// WAL database, also across role changes of its node.
	persist bool
	pool    map[string]*pooledConn

	// oracle switches
	checkReaders bool
	oraclePrefix string
}

type pooledConn struct {
	c     *Conn
	store *litefs.Store
}

func newClusterSim(r *Run, nNodes int, prefix string) *clusterSim {
	t := r.Tape
	cs := &clusterSim{r: r, ims: NewImageStore(), latest: map[string]ltx.Pos{}, down: map[int]string{}, oraclePrefix: prefix, checkReaders: true, pool: map[string]*pooledConn{}}
	cs.persist = t.Chance(1, 2)
	r.Cfg["persistent_conn"] = cs.persist
	cs.pageSize = pickPageSize(t)
	if cs.pageSize > 8192 && !r.Thorough() {
		cs.pageSize = 4096
	}
	cs.wal = t.Chance(1, 2)
	cs.jmode = []string{ModeDelete, ModeTruncate, ModePersist}[t.Next(3)]
	cs.maxPages = 40
	if cs.pageSize <= 1024 {
		cs.maxPages = 300
	}
	compress := t.Chance(1, 2)
	ttl := []time.Duration{2 * time.Second, 5 * time.Second, 10 * time.Second}[t.Next(3)]
	reconnect := []time.Duration{100 * time.Millisecond, 500 * time.Millisecond, time.Second}[t.Next(3)]
	retention := []time.Duration{0, 2 * time.Second, 10 * time.Minute}[t.Pick([]int{2, 3, 5})]
	// LiteFS iterates Go maps of database names (stream handler, backup); with
	// more than one database the iteration order is not replayable, so only the
	// thorough tier uses two databases (its replays are flagged order-sensitive).
	ndb := 1
	if r.Thorough() {
		ndb = 1 + t.Pick([]int{3, 1})
	}
	for i := 0; i < ndb; i++ {
		cs.dbs = append(cs.dbs, fmt.Sprintf("db%d", i))
	}
	r.Cfg["nodes"], r.Cfg["page_size"], r.Cfg["wal"], r.Cfg["jmode"], r.Cfg["lz4"] = nNodes, cs.pageSize, cs.wal, cs.jmode, compress
	r.Cfg["ttl"], r.Cfg["reconnect"], r.Cfg["retention"], r.Cfg["dbs"] = ttl.String(), reconnect.String(), retention.String(), ndb
	cs.cl = r.NewCluster(nNodes, ttl, func(i int, cfg *NodeCfg) {
		cfg.Compress = compress
		cfg.Tune = func(st *litefs.Store) {
			st.ReconnectDelay = reconnect
			st.DemoteDelay = 2 * time.Second
			st.Retention = retention
			st.RetentionMonitorInterval = time.Second
			if retention == 0 {
				st.Retention = 0
			}
		}
	})
	r.OnCleanup(func() {
		cs.mu.Lock()
		cs.stopWork = true
		cs.mu.Unlock()
	})
	cs.s = r.NewSched()
	cs.s.Stick = t.Range(50, 95)
	cs.s.Parks = func(seam string) bool { return seam != "os" || true }
	return cs
}

func (cs *clusterSim) oracle(name string) string { return cs.oraclePrefix + "." + name }

// openAll opens every node; the first becomes primary by acquiring the lease.
func (cs *clusterSim) openAll() bool {
	for _, n := range cs.cl.Nodes {
		if err := n.Open(); err != nil {
			cs.r.Inconclusive("open %s: %v", n.Name, err)
			return false
		}
	}
	return true
}

// connFor returns a fresh connection for db on node n in the right mode.
func (cs *clusterSim) connFor(n *Node, db string, t *Tape) *Conn {
	c := n.NewConn(db, cs.jmode, cs.pageSize)
	c.T = t
	return c
}

// writerLoop: one writer at a time in the whole cluster; always targets the
// node that currently claims to be primary.
func (cs *clusterSim) writerLoop(t *Tape) {
	r := cs.r
	for {
		cs.mu.Lock()
		stop := cs.stopWork || cs.commits >= cs.wantTx
		cs.mu.Unlock()
		if stop || r.Failed() {
			return
		}
		p := cs.cl.Primary()
		if p == nil {
			time.Sleep(50 * time.Millisecond)
			continue
		}
		db := cs.dbs[t.Next(len(cs.dbs))]
		cs.writeOnce(p, db, t)
		if t.Chance(1, 3) {
			time.Sleep(time.Duration(t.Range(1, 300)) * time.Millisecond)
		}
	}
}

// writeOnce runs one write transaction against db on node p.
func (cs *clusterSim) writeOnce(p *Node, db string, t *Tape) {
	r := cs.r
	key := p.Name + "/" + db
	// the application's connections on nodes that are no longer written to are
	// closed before it writes elsewhere (an idle WAL connection holds SHARED for
	// good, and LiteFS needs that lock exclusively once a replicated
	// transaction has taken the database out of WAL mode)
	if len(cs.pool) > 0 {
		var stale []string
		for k := range cs.pool {
			if !strings.HasPrefix(k, p.Name+"/") {
				stale = append(stale, k)
			}
		}
		sort.Strings(stale)
		for _, k := range stale {
			cs.pool[k].c.Close()
			delete(cs.pool, k)
		}
	}
	if pc := cs.pool[key]; pc != nil && !(pc.store == p.Store && p.Up && !p.Exited) {
		delete(cs.pool, key)
		pc.c.Close() // the process it talked to is gone
	}
	// Closing connections yields to the scheduler (the node may be restarted
	// meanwhile): the store this transaction is accounted against is read here,
	// together with the binding of the connection, with no yield in between.
	store := p.Store
	var c *Conn
	if pc := cs.pool[key]; pc != nil {
		delete(cs.pool, key)
		if pc.store == store && p.Up && !p.Exited {
			c = pc.c
			r.Count("writer.conn-reused")
		} else {
			// it went stale during the yields above: dropped without a close call
			// (its process is gone); nothing is accounted against it
			r.Count("writer.conn-dropped")
		}
	}
	if c == nil {
		c = cs.connFor(p, db, t)
		if e := c.Open(); e != 0 {
			r.Count("writer.open-failed")
			return
		}
	}
	keep := false
	defer func() {
		if keep && cs.persist && p.Store == store && p.Up && !p.Exited {
			cs.pool[key] = &pooledConn{c: c, store: store}
		} else {
			c.Close()
		}
	}()
	// the committed image on this node right now
	var cur *Image
	var pos ltx.Pos
	if d := store.DB(db); d != nil {
		pos = d.Pos()
	}
	if pos.TXID > 0 {
		im, ok := cs.ims.Get(db, pos)
		if !ok {
			r.Failf(cs.oracle("unknown-pos"), "%s reports position %s for %s which nobody committed", p.Name, pos, db)
			return
		}
		cur = im
	}
	var res TxResult
	var endPos ltx.Pos
	endSeen := false
	c.OnFinalized = func() {
		if d := store.DB(db); d != nil {
			endPos, endSeen = d.Pos(), true
		}
	}
	// A commit can take effect although SQLite never sees it acknowledged (the
	// node dies or is demoted right after the LTX file is published), so the
	// images this transaction may produce are registered up front under the
	// position they would get: (TXID+1, from-scratch checksum of the image).
	next := ltx.TXID(pos.TXID + 1)
	cs.ims.Put(db, ltx.Pos{TXID: next, PostApplyChecksum: ltx.Checksum(cur.Checksum())}, cur) // rollback that still advances the TXID
	c.OnNewImage = func(im *Image) {
		cs.ims.Put(db, ltx.Pos{TXID: next, PostApplyChecksum: ltx.Checksum(im.Checksum())}, im)
	}
	isWAL := false
	if cur.N() > 0 {
		h, _, _ := decodeDBHeader(cur.Pages[0])
		isWAL = h.WAL
	}
	if !isWAL && c.wal != nil {
		// the database left WAL mode behind this connection's back (replication
		// from another primary): the application reconnects
		c.Close()
		c = cs.connFor(p, db, t)
		if e := c.Open(); e != 0 {
			r.Count("writer.open-failed")
			return
		}
		c.OnFinalized = func() {
			if d := store.DB(db); d != nil {
				endPos, endSeen = d.Pos(), true
			}
		}
		c.OnNewImage = func(im *Image) {
			cs.ims.Put(db, ltx.Pos{TXID: next, PostApplyChecksum: ltx.Checksum(im.Checksum())}, im)
		}
	}
	switch {
	case cur.N() == 0:
		// create (first transaction); switch to WAL right away if configured
		setWAL := 0
		if cs.wal {
			setWAL = 1
		}
		res = c.WriteTx(TxProgram{NewSize: uint32(t.Range(1, 4)), Outcome: OutCommit, SetWAL: setWAL}, cur)
	case isWAL:
		if e := c.WalOpen(); e != 0 {
			r.Count("writer.walopen-failed")
			return
		}
		if t.Chance(1, 12) {
			// leave WAL mode: close the log as the last connection, then the
			// rollback-journal transaction that rewrites the header
			at, e := c.WalCloseLast(cur)
			if e != 0 || at != "" {
				r.Count("writer.leave-wal-skipped")
				return
			}
			c.UnlockAll()
			c.Mode = cs.jmode
			res = c.WriteTx(TxProgram{NewSize: cur.N(), Outcome: OutCommit, SetWAL: 2}, cur)
			r.Count("writer.leave-wal." + res.Outcome)
			break
		}
		prog := GenWalProgram(t, cur.N(), cs.maxPages)
		if cs.walReadPause {
			c.PauseAfterWalRead = []time.Duration{0, 0, 30 * time.Millisecond, 250 * time.Millisecond}[t.Next(4)]
		}
		res = c.WalWriteTx(prog, cur)
		if t.Chance(1, 6) && res.Outcome == OutCommit {
			c.WalCheckpoint([]string{CkptPassive, CkptFull, CkptRestart, CkptTruncate}[t.Next(4)])
		}
	case cs.wal && t.Chance(1, 6):
		// (back) into WAL mode
		res = c.WriteTx(TxProgram{NewSize: cur.N(), Outcome: OutCommit, SetWAL: 1}, cur)
		r.Count("writer.enter-wal." + res.Outcome)
	default:
		prog := GenProgram(t, cur.N(), cs.maxPages, 0)
		res = c.WriteTx(prog, cur)
	}
	r.Count("writer.tx." + res.Outcome)
	if res.Outcome != OutCommit && res.Outcome != OutRollback && res.Outcome != OutLockOnly {
		return
	}
	keep = t.Chance(4, 5)
	if !endSeen {
		return
	}
	np := endPos
	img := cur
	if res.Outcome == OutCommit {
		img = res.After
	}
	if np != pos {
		if np.TXID != pos.TXID+1 {
			r.Failf(cs.oracle("txid-step"), "%s: position of %s went %s -> %s in one transaction", p.Name, db, pos, np)
			return
		}
		if uint64(np.PostApplyChecksum) == img.Checksum() {
			cs.ims.Put(db, np, img)
		} else {
			// the position read when the transaction was finalised is not this
			// transaction's (the node was demoted in between and has already
			// applied somebody else's): the image registered under its own
			// checksum when it was built stands, nothing is overwritten
			r.Count("writer.pos-not-own")
		}
		cs.mu.Lock()
		cs.latest[db] = np
		cs.commits++
		cs.writerLog = append(cs.writerLog, fmt.Sprintf("%s %s %s %s->%s", p.Name, db, res.Outcome, pos, np))
		cs.mu.Unlock()
		r.Logf("commit on %s %s: %s -> %s (%d pages)", p.Name, db, pos, np, img.N())
	} else if res.Outcome == OutCommit {
		r.Failf(cs.oracle("lost-commit"), "%s: SQLite committed on %s but the position stayed %s", p.Name, db, pos)
	}
}

// readOnce: a reader on node n takes proper read locks, reads the position
// (DB.Pos and the -pos file) and the whole image through the page cache, and
// compares with the image committed at that position.
func (cs *clusterSim) readOnce(n *Node, db string, t *Tape) {
	r := cs.r
	store := n.Store
	d := store.DB(db)
	if d == nil || d.Pos().TXID == 0 {
		return
	}
	wasPrimary := store.IsPrimary()
	c := cs.connFor(n, db, t)
	if _, e := n.K.Stat(db); e != 0 {
		return
	}
	if e := c.Open(); e != 0 {
		return
	}
	defer c.Close()
	if e := c.LockShared(); e != 0 {
		r.Count("reader.busy")
		return
	}
	hdr, ok, e := c.ReadHeader()
	if e != 0 || !ok {
		c.UnlockAll()
		if n.Store == store && !n.Exited && !n.OS.fenced.Load() && e == 0 {
			// header unreadable under SHARED: only legal for an empty (dropped) database
			if sz, _ := c.dbf.Size(); sz != 0 {
				r.Failf(cs.oracle("reader-header"), "%s: database %s has %d bytes but no valid header under a SHARED lock", n.Name, db, sz)
			}
		}
		return
	}
	if c.hotJournalProbe() {
		// A fresh connection looks for a hot journal before it reads page 1 (and
		// therefore before it knows about WAL mode: an interrupted transaction
		// that switches the journal mode leaves a header that says anything).
		// SQLite would have to roll the hot journal back before reading (and
		// cannot on a node without write authority): it never reads this state.
		c.UnlockAll()
		r.Count("reader.hot-journal")
		return
	}
	var im *Image
	var pos ltx.Pos
	var posFile string
	posMoved := false
	readPos := func() {
		pos = d.Pos()
		if pf, e := n.K.Open(db+"-pos", 0, c.Owner); e == 0 {
			b, _ := pf.Pread(0, 64)
			posFile = strings.TrimSpace(string(b))
			pf.Close()
		}
		// (opening and reading the file are scheduling points: on a node that
		// is - or for a moment becomes - a WAL-mode primary a commit can land
		// between the two looks, which a read mark does not prevent)
		posMoved = d.Pos() != pos
	}
	if hdr.WAL {
		if e := c.WalOpen(); e != 0 {
			c.UnlockAll()
			r.Count("reader.walopen-failed")
			return
		}
		if _, e := c.WalBeginRead(); e != 0 {
			c.UnlockAll()
			r.Count("reader.busy")
			return
		}
		readPos()
		im, e = c.WalReadImageLocked()
		c.WalEndRead()
	} else {
		readPos()
		im, e = c.ReadImageLocked()
	}
	c.UnlockAll()
	if e != 0 || n.Store != store || n.Exited || n.OS.fenced.Load() {
		r.Count("reader.error")
		return
	}
	if hdr.WAL && (wasPrimary || store.IsPrimary()) {
		// On a node with local writers a WAL commit becomes visible to SQLite
		// readers when the wal-index is published, before LiteFS captures it at
		// the write-lock release, and WAL readers do not block writers at all;
		// the property speaks about replicas.
		r.Count("reader.skipped.primary-wal")
		return
	}
	if want := fmt.Sprintf("%s/%s", pos.TXID, pos.PostApplyChecksum); posFile != "" && posFile != want && posMoved {
		r.Count("reader.pos-moved-during-read")
	} else if posFile != "" && posFile != want {
		// A rolled-back transaction may advance the TXID (same image, same
		// checksum) while readers hold SHARED; anything else is a disagreement.
		fp, err := ltx.ParsePos(posFile)
		if err != nil || fp.PostApplyChecksum != pos.PostApplyChecksum {
			r.Failf(cs.oracle("pos-file"), "%s: -pos file of %s says %q while DB.Pos() is %q under the same read lock", n.Name, db, posFile, want)
			return
		}
		r.Count("reader.pos-advanced-same-image")
	}
	wantIm, ok := cs.ims.Get(db, pos)
	if !ok {
		r.Failf(cs.oracle("unknown-pos"), "%s reports position %s for %s which nobody committed", n.Name, pos, db)
		return
	}
	if diff := DiffImages(im, wantIm); diff != "" {
		role := "replica"
		if store.IsPrimary() {
			role = "primary"
		}
		if wantIm.N() > 0 {
			// The connection chose its locks from the journal mode it found on
			// page 1. If that is not the mode of the image committed at the
			// reported position, page 1 was rewritten between its SHARED lock and
			// its first read (a replicated journal-mode change being applied): the
			// in-flight-open window, reported under its own oracle.
			if wh, _, _ := decodeDBHeader(wantIm.Pages[0]); wh.WAL != hdr.WAL {
				r.Failf(cs.oracle("reader-image.mode-flip"), "%s (%s) at %s of %s: a connection that took SHARED and then read page 1 found journal mode WAL=%v, the image committed at that position has WAL=%v; a journal-mode change was applied between its SHARED lock and its first read and it went on under the locks of the wrong mode: %s", n.Name, role, pos, db, hdr.WAL, wh.WAL, diff)
				return
			}
		}
		r.Failf(cs.oracle("reader-image"), "%s (%s) at %s of %s: image read through the mount differs from the image committed there: %s", n.Name, role, pos, db, diff)
		return
	}
	cs.mu.Lock()
	cs.readerOK++
	cs.mu.Unlock()
	r.Count("reader.checked")
	if !store.IsPrimary() {
		r.Count("reader.checked.replica")
	}
}

func (cs *clusterSim) readerLoop(n *Node, t *Tape) {
	for {
		cs.mu.Lock()
		stop := cs.stopWork
		cs.mu.Unlock()
		if stop || cs.r.Failed() {
			return
		}
		if n.Up && !n.Exited && !n.OS.fenced.Load() {
			cs.readOnce(n, cs.dbs[t.Next(len(cs.dbs))], t)
		}
		time.Sleep(time.Duration(t.Range(1, 200)) * time.Millisecond)
	}
}

// reap closes a dead node's old Store in a scheduler-driven goroutine.
func (cs *clusterSim) reap(n *Node) {
	old, k := n.Store, n.K
	cs.mu.Lock()
	cs.reaping++
	id := cs.reaping
	cs.mu.Unlock()
	cs.s.Go(fmt.Sprintf("reap%d", id), func() {
		_ = old.Close()
		k.Detach()
	})
}

// crash kills a node (process death) and remembers its durable image.
func (cs *clusterSim) crash(n *Node) {
	img := cs.cl.Crash(n, fmt.Sprintf("k%d", cs.r.Steps))
	cs.down[n.ID] = img
	cs.reap(n)
	cs.r.Logf("fault: crash %s", n.Name)
}

// restart brings a crashed node back on its durable image.
func (cs *clusterSim) restart(n *Node) {
	img := cs.down[n.ID]
	delete(cs.down, n.ID)
	if err := n.RestartFrom(img); err != nil {
		cs.r.Failf(cs.oracle("restart"), "%s failed to restart on its data directory: %v", n.Name, err)
		return
	}
	cs.r.Count("fault.restart")
	cs.r.Logf("restart %s", n.Name)
	if cs.onRestart != nil {
		cs.onRestart(n)
	}
}

// faultActions is the fault menu available at this moment.
func (cs *clusterSim) faultActions(w int) []Action {
	r := cs.r
	var acts []Action
	for _, c := range cs.cl.Net.LiveConns() {
		c := c
		acts = append(acts, Action{Name: "reset-" + c.String(), Weight: w, Do: func() {
			c.reset("fault")
			r.Count("fault.conn_reset")
		}})
		if c.path == "/stream" {
			// the replica's end of a stream goes away without the primary being
			// told: the primary's handler lives on until its next write fails,
			// while the replica is already reconnecting
			acts = append(acts, Action{Name: "half-reset-" + c.String(), Weight: w, Do: func() {
				c.resetClientSide("fault")
				r.Count("fault.conn_half_reset")
			}})
		}
	}
	for _, n := range cs.cl.Nodes {
		n := n
		if _, isDown := cs.down[n.ID]; isDown {
			acts = append(acts, Action{Name: "restart-" + n.Name, Weight: w * 4, Do: func() { cs.restart(n) }})
			continue
		}
		if !n.Up || n.Exited {
			continue
		}
		acts = append(acts, Action{Name: "crash-" + n.Name, Weight: w, Do: func() { cs.crash(n) }})
		acts = append(acts, Action{Name: "evict-" + n.Name, Weight: w, Do: func() { n.K.DropCaches(); r.Count("fault.evict_all") }})
		if n.Store.IsPrimary() {
			acts = append(acts, Action{Name: "demote-" + n.Name, Weight: w, Do: func() { n.Store.Demote(); r.Count("fault.demote") }})
		}
	}
	if len(cs.cl.Nodes) >= 2 {
		a, b := cs.cl.Nodes[0], cs.cl.Nodes[len(cs.cl.Nodes)-1]
		acts = append(acts, Action{Name: "partition", Weight: w, Do: func() {
			cs.cl.Net.Partition(a.ID, b.ID, true)
			r.Count("fault.partition")
		}})
		acts = append(acts, Action{Name: "heal", Weight: w * 2, Do: func() { cs.cl.Net.HealAll() }})
	}
	if _, sess := cs.cl.Lease.Holder(); sess != "" {
		acts = append(acts, Action{Name: "lease-expire", Weight: w / 2, Do: func() { cs.cl.Lease.ForceExpire(sess) }})
	}
	return acts
}

// exitedNodes converts LiteFS-initiated exits into crash/restart cycles and
// returns how many happened.
func (cs *clusterSim) handleExits() {
	for _, n := range cs.cl.Nodes {
		if n.Exited && n.Up {
			n.Up = false
			cs.cl.Net.ResetNode(n.ID)
			cs.down[n.ID] = n.ExitImage
			cs.reap(n)
			cs.r.Count("node.exit-handled")
		}
	}
}

// heal stops all faults and brings every node back.
func (cs *clusterSim) heal() {
	cs.cl.Net.HealAll()
	cs.cl.Lease.AcquireErr, cs.cl.Lease.RenewErr, cs.cl.Lease.LostReply = 0, 0, 0
	for k := range cs.cl.Lease.Down {
		delete(cs.cl.Lease.Down, k)
	}
	cs.handleExits()
	for _, n := range cs.cl.Nodes {
		if _, isDown := cs.down[n.ID]; isDown {
			cs.restart(n)
		}
	}
}

// converged reports whether every up replica is at the primary's position for
// every database.
func (cs *clusterSim) converged() (bool, string) {
	p := cs.cl.Primary()
	if p == nil {
		return false, "no primary"
	}
	for _, db := range cs.dbs {
		pd := p.Store.DB(db)
		if pd == nil || pd.Pos().TXID == 0 {
			continue // not a database of the primary: nothing is promised about it
		}
		ppos := pd.Pos()
		for _, n := range cs.cl.Nodes {
			if n == p || !n.Up {
				continue
			}
			var pos ltx.Pos
			if d := n.Store.DB(db); d != nil {
				pos = d.Pos()
			}
			if pos != ppos {
				return false, fmt.Sprintf("%s has %s of %s, primary %s has %s", n.Name, pos, db, p.Name, ppos)
			}
		}
	}
	return true, ""
}

// settle drives the healed system fairly until convergence or the bound.
func (cs *clusterSim) settle(bound time.Duration) (bool, string) {
	r := cs.r
	cs.s.Fair = true
	// application activity stops; only LiteFS's own goroutines remain
	cs.mu.Lock()
	cs.stopWork = true
	cs.mu.Unlock()
	deadline := r.SimNow() + bound
	why := ""
	for i := 0; r.SimNow() < deadline && !r.Failed(); i++ {
		cs.handleExits()
		for _, n := range cs.cl.Nodes {
			if _, isDown := cs.down[n.ID]; isDown {
				cs.restart(n)
			}
		}
		if i%8 == 0 {
			var ok bool
			if ok, why = cs.converged(); ok {
				return true, ""
			}
		}
		if !cs.s.StepOnce(nil, true) {
			time.Sleep(10 * time.Millisecond)
		}
	}
	ok, why2 := cs.converged()
	if ok {
		return true, ""
	}
	if why2 != "" {
		why = why2
	}
	return false, why
}

// goActor starts an application goroutine that is waited for by quiesce.
func (cs *clusterSim) goActor(name string, fn func()) {
	cs.mu.Lock()
	cs.actors++
	cs.mu.Unlock()
	cs.s.Go(name, func() {
		defer func() {
			cs.mu.Lock()
			cs.actors--
			cs.mu.Unlock()
		}()
		fn()
	})
}

// quiesce stops the application workload and drives the scheduler until every
// application goroutine has finished its current operation and exited.
func (cs *clusterSim) quiesce() bool {
	cs.mu.Lock()
	cs.stopWork = true
	cs.mu.Unlock()
	cs.s.Fair = true
	for i := 0; i < 200000; i++ {
		cs.mu.Lock()
		n := cs.actors
		cs.mu.Unlock()
		if n == 0 {
			return true
		}
		if !cs.s.StepOnce(nil, true) {
			time.Sleep(10 * time.Millisecond)
		}
	}
	cs.r.Inconclusive("application goroutines did not finish")
	return false
}

// audit checks the end state of every node against the reference.
func (cs *clusterSim) audit() {
	r := cs.r
	for _, n := range cs.cl.Nodes {
		if !n.Up || n.Exited {
			continue
		}
		for _, db := range cs.dbs {
			d := n.Store.DB(db)
			if d == nil {
				continue
			}
			pos := d.Pos()
			dbDir := n.Store.DBPath(db)
			disk, err := ReadDiskImage(dbDir)
			if !r.Check(err == nil, cs.oracle("audit-disk"), "%s/%s: %v", n.Name, db, err) {
				continue
			}
			if pos.TXID == 0 {
				continue
			}
			want, ok := cs.ims.Get(db, pos)
			if !r.Check(ok, cs.oracle("unknown-pos"), "%s ends at %s of %s which nobody committed", n.Name, pos, db) {
				continue
			}
			if n.Store.IsPrimary() {
				disk = disk.LogicalCut() // SQLite's pending truncate after a shrinking commit
			}
			if jb, err := os.ReadFile(filepath.Join(dbDir, "journal")); err == nil && len(jb) >= 8 && bytes.Equal(jb[:8], journalMagic) {
				// A transaction was cut off (demotion, lost lease) and neither
				// SQLite nor LiteFS has rolled the hot journal back yet: the raw
				// file is not a committed image by definition. Readers are
				// covered by the reader oracle (they must roll back or fail).
				r.Count("audit.hot-journal-skipped")
				continue
			}
			if diff := DiffImages(disk, want); diff != "" {
				r.Failf(cs.oracle("audit-image"), "%s at %s of %s: raw files differ from the image committed there: %s", n.Name, pos, db, diff)
			}
			r.Check(uint64(pos.PostApplyChecksum) == disk.Checksum(), cs.oracle("audit-checksum"), "%s at %s of %s: from-scratch checksum %016x", n.Name, pos, db, disk.Checksum())
			r.Count("audit.node-db")
		}
	}
}

var _ = syscall.EAGAIN
