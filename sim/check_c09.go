package verifsim

import (
	"context"
	"fmt"
	"io"
	"os"
	"path/filepath"
	"strings"
	"sync"
	"sync/atomic"
	"syscall"
	"time"

	"github.com/superfly/litefs"
	"github.com/superfly/ltx"
)

func init() {
	register(&CheckDef{
		ID:    "C09",
		Level: "exploration",
		Rule:  "three seeded scenarios. (a) single-node histories of journal and WAL commits, mode switch, checkpoints, imports and drops with retention periods from zero-length (1 ms) upward, retention sweeps landing between any two steps after seeded ageing (simulated time; file mtimes follow the fake clock), junk and *.tmp files planted in the LTX directory, and optionally a file backup service whose high-water mark gates removal; (b) a replica fed by a scripted primary with incremental files and snapshots in any order; (c) multi-node runs with faults whose end state is audited. Oracles: after every step the files kept form one contiguous, checksum-linked, self-verifying chain ending at the position; ReadLTXDir never returns a temporary or foreign name; a received snapshot is the only file afterwards; every removal issued by retention (observed at the OS seam) is not the newest file and, with a backup service, not beyond the high-water mark the service had returned. evaluations = runs; distinct = distinct (scenario, step kind, mode, retention class) tuples; non-trivial = run with >= 1 retention removal or snapshot observed",
		Run:   runC09,
		NonTrivial: func(r *Run) bool {
			return r.Stats["c09.retention.removed"] > 0 || r.Stats["c09.snapshot.checked"] > 0 || r.Stats["audit.chain"] > 0
		},
		Assumptions: []string{"crash points are not part of this property's quantifier (C05 covers restart); a stable point is the moment between two driver steps of a sequential history, or the quiesced end state of a multi-node run"},
		Real:        []string{"litefs.DB.EnforceRetention / ReadLTXDir / WriteLTXFileAt / processLTXStreamFrame / CommitJournal / CommitWAL", "litefs.Store.EnforceRetention, SyncBackup", "litefs.FileBackupClient"},
		Stub:        []string{"SimKernel", "PagerSim", "ScriptClient", "SimNet/SimLease (scenario c)"},
	})
}

func runC09(r *Run) {
	t := r.Tape
	switch t.Pick([]int{5, 3, 2, 3}) {
	case 3:
		r.Cfg["scenario"] = "snapshot-crash"
		c09SnapshotCrash(r)
	case 0:
		r.Cfg["scenario"] = "retention-history"
		c09History(r)
	case 1:
		r.Cfg["scenario"] = "replica-snapshot"
		c09Replica(r)
	case 2:
		r.Cfg["scenario"] = "cluster"
		c09Cluster(r)
	}
}

// chainOracle: contiguity/verification of what is on disk + ReadLTXDir agreement.
func chainOracle(r *Run, n *Node, name, after string) {
	db := n.Store.DB(name)
	if db == nil {
		return
	}
	pos := db.Pos()
	if msg := CheckChain(db.Path(), pos); msg != "" {
		r.Failf("c09.chain", "%s after %s: %s", n.Name, after, msg)
		return
	}
	ents, err := db.ReadLTXDir()
	if !r.Check(err == nil, "c09.readdir", "ReadLTXDir: %v", err) {
		return
	}
	want, _, _ := ListLTX(db.LTXDir())
	var got []string
	for _, e := range ents {
		got = append(got, e.Name())
	}
	r.Check(strings.Join(got, ",") == strings.Join(want, ","), "c09.readdir", "%s after %s: ReadLTXDir returned %v, the transaction files on disk are %v", n.Name, after, got, want)
	r.Count("audit.chain")
}

func c09History(r *Run) {
	t := r.Tape
	h := &hist{r: r, name: "db"}
	h.pageSize = []uint32{512, 1024, 4096}[t.Next(3)]
	h.jmode = []string{ModeDelete, ModeTruncate, ModePersist}[t.Next(3)]
	h.maxPages = 30
	retention := []time.Duration{time.Millisecond, time.Second, 10 * time.Second, time.Hour}[t.Pick([]int{3, 3, 3, 1})]
	withBackup := t.Chance(1, 2)
	r.Cfg["retention"], r.Cfg["backup"], r.Cfg["jmode"] = retention.String(), withBackup, h.jmode
	var bc *litefs.FileBackupClient
	if withBackup {
		bc = litefs.NewFileBackupClient(filepath.Join(r.Dir, "backup"))
		if err := bc.Open(); err != nil {
			r.Inconclusive("backup open: %v", err)
			return
		}
	}
	var mu sync.Mutex
	var ackHWM ltx.TXID
	h.n = r.NewNode(NodeCfg{Candidate: true})
	h.n.Cfg.Leaser = litefs.NewStaticLeaser(true, h.n.Name, h.n.URL())
	if bc != nil {
		h.n.Cfg.Backup = &hwmRecorder{BackupClient: bc, on: func(hwm ltx.TXID) {
			mu.Lock()
			if hwm > ackHWM {
				ackHWM = hwm
			}
			mu.Unlock()
		}}
	}
	h.n.Cfg.Tune = func(s *litefs.Store) {
		s.Retention = retention
		s.RetentionMonitorInterval = 0 // sweeps are driven explicitly (and by the monitor in scenario c)
		s.BackupDelay = 0
	}
	if err := h.n.Open(); err != nil {
		r.Inconclusive("open: %v", err)
		return
	}
	h.n.WaitPrimary(5 * time.Second)
	if !h.openConns(1) {
		return
	}
	// retention removals observed at the OS seam
	installRetentionHook := func() {
		h.n.OS.Hook = func(phase, call, op, path string) {
			if phase != "pre" || call != "remove" || op != "ENFORCERETENTION" {
				return
			}
			r.Count("c09.retention.removed")
			_, maxTXID, err := ltx.ParseFilename(filepath.Base(path))
			if !r.Check(err == nil, "c09.retention", "retention removes a file that is not a transaction file: %s", path) {
				return
			}
			files, _, _ := ListLTX(filepath.Dir(path))
			var newest ltx.TXID
			for _, f := range files {
				if _, m, e := ltx.ParseFilename(f); e == nil && m > newest {
					newest = m
				}
			}
			r.Check(maxTXID < newest, "c09.retention-newest", "retention removes the newest transaction file %s", filepath.Base(path))
			if bc != nil {
				mu.Lock()
				ack := ackHWM
				mu.Unlock()
				r.Check(maxTXID <= ack, "c09.retention-hwm", "retention removes %s (max TXID %s) but the backup service has only acknowledged up to %s", filepath.Base(path), maxTXID, ack)
			}
		}
	}
	installRetentionHook()
	nsteps := t.Range(6, 30)
	for i := 0; i < nsteps && !r.Failed(); i++ {
		r.Step()
		var desc string
		kinds := []int{45, 6, 14, 8, 8, 6, 5, 8} // commit, toWAL, sweep, age, plant junk, backup sync, import, ckpt/recover
		if h.wal {
			kinds[1] = 0
		}
		if h.ref.N() == 0 {
			kinds = []int{100, 0, 5, 5, 5, 0, 5, 0}
		}
		if bc == nil {
			kinds[5] = 0
		}
		k := t.Pick(kinds)
		switch k {
		case 0:
			desc, _ = h.commit(t)
		case 1:
			desc = "switch-to-wal"
			if !h.toWAL() {
				return
			}
		case 2:
			desc = "retention-sweep"
			// sometimes one of the sweep's unlinks fails (an immutable file, a
			// transient I/O error); whatever the sweep does then, what is left
			// has to be one chain (checked after every step)
			faulty := t.Chance(1, 3)
			if faulty {
				atomic.StoreInt64(&h.n.OS.fired, 0)
				h.n.OS.FiredAt = ""
				h.n.OS.FailErr = []error{syscall.EPERM, syscall.EIO, syscall.EINTR}[t.Next(3)]
				h.n.OS.FailMatch = func(call, op, path string) bool { return call == "remove" && strings.HasSuffix(path, ".ltx") }
				h.n.OS.FailNth = int64(t.Range(1, 4))
				desc += " (unlink fails)"
			}
			err := h.n.Store.EnforceRetention(context.Background())
			fired := faulty && h.n.OS.FiredAt != ""
			h.n.OS.FailNth, h.n.OS.FailMatch = 0, nil
			if fired {
				r.Count("c09.retention.unlink-failed")
			}
			if err != nil && !fired {
				r.Failf("c09.retention", "EnforceRetention: %v", err)
			}
		case 3:
			d := []time.Duration{time.Millisecond, 500 * time.Millisecond, 2 * time.Second, 20 * time.Second}[t.Next(4)]
			desc = "age " + d.String()
			time.Sleep(d)
		case 4:
			desc = "plant-junk"
			dir := filepath.Join(h.n.Store.DBPath(h.name), "ltx")
			_ = os.MkdirAll(dir, 0o777)
			for _, nm := range []string{"0000000000000001-0000000000000001.ltx.tmp", "000000000000000f-000000000000000f.ltx.123.tmp", "README", "1-2.ltx"} {
				if t.Chance(1, 2) {
					_ = os.WriteFile(filepath.Join(dir, nm), []byte("junk"), 0o666)
				}
			}
		case 5:
			desc = "backup-sync"
			if err := h.n.Store.SyncBackup(context.Background()); err != nil {
				r.Count("c09.backup-sync-error")
				desc += " err"
			}
			if db := h.db(); db != nil {
				mu.Lock()
				ack := ackHWM
				mu.Unlock()
				r.Check(db.HWM() <= ack, "c09.hwm", "published high-water mark %s exceeds what the backup service acknowledged (%s)", db.HWM(), ack)
			}
		case 6:
			im := MakeImage(h.pageSize, uint32(t.Range(1, 10)), h.wal, i)
			h.closeConns()
			res := h.importImage(im)
			desc = fmt.Sprintf("import => %d", res.Code)
			if res.Code == 200 {
				h.ref = im.ImportedForm()
			}
			if !h.openConns(1) {
				return
			}
		case 7:
			desc = "litefs-recover"
			_ = h.n.Store.Recover(context.Background())
		}
		if r.Failed() {
			return
		}
		r.Logf("step %d: %s", i, desc)
		mode := h.jmode
		if h.wal {
			mode = "WAL"
		}
		r.State("hist/%d/%s/%s/backup%v", k, mode, retention, withBackup)
		chainOracle(r, h.n, h.name, desc)
		checkNodeHealthy(r, h.n, "c09")
	}
	h.closeConns()
}

// hwmRecorder wraps a BackupClient and reports every HWM the service returns.
type hwmRecorder struct {
	litefs.BackupClient
	on func(ltx.TXID)
}

func (w *hwmRecorder) WriteTx(ctx context.Context, name string, rd io.Reader) (ltx.TXID, error) {
	hwm, err := w.BackupClient.WriteTx(ctx, name, rd)
	if err == nil {
		w.on(hwm)
	}
	return hwm, err
}

func c09Replica(r *Run) {
	t := r.Tape
	h := &hist{r: r, name: "db"}
	h.pageSize = []uint32{512, 4096}[t.Next(2)]
	h.jmode = ModeDelete
	h.maxPages = 30
	h.n = newStaticPrimary(r, t.Chance(1, 2), nil)
	if h.n == nil {
		return
	}
	if !h.openConns(1) {
		return
	}
	sc := NewScriptClient(r, h.n.Store.ClusterID())
	rep := r.NewNode(NodeCfg{Candidate: false, Client: sc})
	rep.Cfg.Leaser = litefs.NewStaticLeaser(false, "p", "http://p:20202")
	rep.Cfg.Tune = func(s *litefs.Store) { s.ReconnectDelay = 10 * time.Millisecond }
	if err := rep.Open(); err != nil {
		r.Inconclusive("open replica: %v", err)
		return
	}
	st := sc.WaitStream(2 * time.Second)
	if st == nil {
		r.Inconclusive("replica did not connect")
		return
	}
	var sent ltx.Pos
	for i := 0; i < t.Range(3, 12) && !r.Failed(); i++ {
		r.Step()
		h.commit(t)
		if r.Failed() {
			return
		}
		db := h.db()
		if db == nil || db.Pos().TXID == 0 {
			continue
		}
		pos := db.Pos()
		if pos == sent {
			continue // nothing new to send (the transaction did not commit)
		}
		snapshot := sent.TXID == 0 || t.Chance(1, 4)
		if snapshot {
			b, spos, err := SnapshotBytes(db)
			if err != nil {
				r.Inconclusive("snapshot: %v", err)
				return
			}
			st.Push(EncodeLTXFrame(h.name, b))
			if !waitPos(rep, h.name, spos, 3*time.Second) {
				r.Failf("c09.replica-stuck", "replica did not reach %s after a snapshot", spos)
				return
			}
			files, _, _ := ListLTX(filepath.Join(rep.Store.DBPath(h.name), "ltx"))
			r.Check(len(files) == 1 && files[0] == ltx.FormatFilename(1, spos.TXID), "c09.snapshot-only", "after receiving a snapshot @%s the replica keeps %v", spos.TXID, files)
			r.Count("c09.snapshot.checked")
			sent = spos
			r.State("replica/snapshot")
		} else {
			ok := true
			for tx := sent.TXID + 1; tx <= pos.TXID && ok; tx++ {
				b, err := os.ReadFile(db.LTXPath(tx, tx))
				if err != nil {
					ok = false
					break
				}
				st.Push(EncodeLTXFrame(h.name, b))
			}
			if !ok {
				continue
			}
			if !waitPos(rep, h.name, pos, 3*time.Second) {
				r.Failf("c09.replica-stuck", "replica did not reach %s", pos)
				return
			}
			sent = pos
			r.State("replica/incremental")
		}
		chainOracle(r, rep, h.name, fmt.Sprintf("stream step %d", i))
		r.Check(!rep.Exited, "c09.exit", "replica exited")
	}
	h.closeConns()
}

func c09Cluster(r *Run) {
	t := r.Tape
	cs := newClusterSim(r, 2+t.Next(2), "c09")
	cs.wantTx = t.Range(4, 10)
	// short retention with a fast monitor
	for _, n := range cs.cl.Nodes {
		prev := n.Cfg.Tune
		n.Cfg.Tune = func(s *litefs.Store) {
			prev(s)
			s.Retention = []time.Duration{time.Millisecond, 500 * time.Millisecond, 3 * time.Second}[r.Tape.Next(3)]
			s.RetentionMonitorInterval = 300 * time.Millisecond
		}
	}
	if !cs.openAll() {
		return
	}
	for _, n := range cs.cl.Nodes {
		c09InstallRetentionOracle(r, n)
	}
	wt := t.Fork()
	cs.goActor("writer", func() { cs.writerLoop(wt) })
	faultW := []int{0, 3}[t.Next(2)]
	for step := 0; step < 2500 && !r.Failed(); step++ {
		cs.handleExits()
		cs.mu.Lock()
		done := cs.commits >= cs.wantTx
		cs.mu.Unlock()
		if done {
			break
		}
		var acts []Action
		if faultW > 0 {
			for _, a := range cs.faultActions(faultW) {
				if !strings.HasPrefix(a.Name, "crash") && !strings.HasPrefix(a.Name, "restart") {
					acts = append(acts, a)
				}
			}
		}
		cs.s.StepOnce(acts, true)
	}
	if r.Failed() {
		return
	}
	cs.heal()
	if !cs.quiesce() {
		return
	}
	cs.settle(60 * time.Second)
	for _, n := range cs.cl.Nodes {
		if !n.Up || n.Exited {
			continue
		}
		for _, db := range cs.dbs {
			chainOracle(r, n, db, "end of run")
		}
	}
	r.State("cluster/%d/faults%d", len(cs.cl.Nodes), faultW)
}

func c09InstallRetentionOracle(r *Run, n *Node) {
	prev := n.OS.Hook
	n.OS.Hook = func(phase, call, op, path string) {
		if prev != nil {
			prev(phase, call, op, path)
		}
		if phase != "pre" || call != "remove" || op != "ENFORCERETENTION" {
			return
		}
		r.Count("c09.retention.removed")
		_, maxTXID, err := ltx.ParseFilename(filepath.Base(path))
		if err != nil {
			r.Failf("c09.retention", "retention removes %s", path)
			return
		}
		files, _, _ := ListLTX(filepath.Dir(path))
		var newest ltx.TXID
		for _, f := range files {
			if _, m, e := ltx.ParseFilename(f); e == nil && m > newest {
				newest = m
			}
		}
		r.Check(maxTXID < newest, "c09.retention-newest", "%s: retention removes the newest transaction file %s", n.Name, filepath.Base(path))
	}
}

// c09SnapshotCrash: a replica that holds the files of one history receives a
// snapshot of another history (a different primary) and dies at a seeded OS
// call while it processes the frame - in particular between renaming the
// snapshot into the log and removing the files it replaces. After the restart
// the log must again be one chain ending at the position, and it must stay
// that way across a retention sweep and a second restart.
func c09SnapshotCrash(r *Run) {
	t := r.Tape
	pageSize := []uint32{512, 4096}[t.Next(2)]
	compress := t.Chance(1, 2)
	mk := func() *hist {
		h := &hist{r: r, name: "db", pageSize: pageSize, jmode: ModeDelete, maxPages: 20}
		h.n = newStaticPrimary(r, compress, nil)
		return h
	}
	hB := mk()
	if hB.n == nil || !hB.openConns(1) {
		return
	}
	nB := t.Range(1, 4)
	if !c06Commits(r, hB, t, nB, nil) || hB.ref.N() == 0 {
		return
	}
	sc := NewScriptClient(r, hB.n.Store.ClusterID())
	rep := r.NewNode(NodeCfg{Candidate: false, Client: sc, Compress: compress})
	rep.Cfg.Leaser = litefs.NewStaticLeaser(false, "p", "http://p:20202")
	rep.Cfg.Tune = func(s *litefs.Store) {
		s.ReconnectDelay = 10 * time.Millisecond
		s.Retention = time.Millisecond
		s.RetentionMonitorInterval = time.Hour
	}
	if err := rep.Open(); err != nil {
		r.Inconclusive("open replica: %v", err)
		return
	}
	st := sc.WaitStream(2 * time.Second)
	if st == nil {
		r.Inconclusive("replica did not connect")
		return
	}
	// history B reaches the replica as a snapshot followed by single files
	dbB := hB.db()
	first := t.Range(1, int(dbB.Pos().TXID))
	if first == 1 || true {
		// snapshot of B at its current position, then more commits as increments
		b, spos, err := SnapshotBytes(dbB)
		if err != nil {
			r.Inconclusive("snapshot: %v", err)
			return
		}
		st.Push(EncodeLTXFrame("db", b))
		if !waitPos(rep, "db", spos, 3*time.Second) {
			r.Failf("c09.replica-stuck", "replica did not take the first snapshot")
			return
		}
		more := t.Range(0, 3)
		from := dbB.Pos().TXID
		if !c06Commits(r, hB, t, more, nil) {
			return
		}
		for tx := from + 1; tx <= dbB.Pos().TXID; tx++ {
			fb, err := os.ReadFile(dbB.LTXPath(tx, tx))
			if err != nil {
				r.Inconclusive("read: %v", err)
				return
			}
			st.Push(EncodeLTXFrame("db", fb))
		}
		if !waitPos(rep, "db", dbB.Pos(), 3*time.Second) {
			r.Failf("c09.replica-stuck", "replica did not follow history B")
			return
		}
	}
	posB, imB := dbB.Pos(), hB.ref
	hB.closeConns()
	// history A on another primary of the same cluster
	hA := mk()
	if hA.n == nil || !hA.openConns(1) {
		return
	}
	if !c06Commits(r, hA, t, t.Range(1, int(posB.TXID)+2), nil) || hA.ref.N() == 0 {
		return
	}
	snapA, posA, err := SnapshotBytes(hA.db())
	if err != nil {
		r.Inconclusive("snapshot: %v", err)
		return
	}
	imA := hA.ref
	hA.closeConns()
	rel := "lower"
	if posA.TXID == posB.TXID {
		rel = "equal"
	} else if posA.TXID > posB.TXID {
		rel = "higher"
	}
	// die at the K-th OS call of the snapshot processing (0 = do not die)
	K := t.Range(0, 14)
	calls, died, diedAt := 0, false, ""
	var img string
	rep.OS.Hook = func(phase, call, op, path string) {
		if phase != "pre" || died || K == 0 {
			return
		}
		if !strings.HasPrefix(op, "PROCESSLTX") && !strings.HasPrefix(op, "REMOVEFILESEXCEPT") && !strings.HasPrefix(op, "APPLYLTX") {
			return
		}
		calls++
		if calls == K {
			died, diedAt = true, call+":"+op
			img, _ = rep.Kill("snap")
		}
	}
	st.Push(EncodeLTXFrame("db", snapA))
	if !waitPos(rep, "db", posA, time.Second) && !died {
		r.Failf("c09.replica-stuck", "replica did not take the snapshot of the other history")
		return
	}
	r.State("snapshot-crash/%s/%s", rel, diedAt)
	if !died {
		rep.OS.Hook = nil
		chainOracle(r, rep, "db", "a snapshot of another history ("+rel+" TXID)")
		return
	}
	r.Count("fault.crash")
	rep.Close()
	check := func(when string) bool {
		db := rep.Store.DB("db")
		if !r.Check(db != nil, "c09.restart", "%s: the database is gone", when) {
			return false
		}
		pos := db.Pos()
		want := imB
		switch pos {
		case posB:
		case posA:
			want = imA
		default:
			r.Failf("c09.crash-position", "%s (crash at %s while taking a snapshot @%s over history @%s): position %s is neither", when, diedAt, posA, posB, pos)
			return false
		}
		disk, err := ReadDiskImage(db.Path())
		if r.Check(err == nil, "c09.restart", "%s: %v", when, err) {
			if d := DiffImages(disk, want); d != "" {
				r.Failf("c09.crash-image", "%s (crash at %s): the database is not the image of its position %s: %s", when, diedAt, pos, d)
				return false
			}
		}
		chainOracle(r, rep, "db", when+" (crash at "+diedAt+", snapshot with a "+rel+" TXID @"+posA.String()+" over history @"+posB.String()+")")
		return !r.Failed()
	}
	if err := rep.RestartFrom(img); err != nil {
		r.Failf("c09.restart", "restart after a crash at %s failed: %v", diedAt, err)
		return
	}
	if !check("after the restart") {
		return
	}
	time.Sleep(50 * time.Millisecond)
	if err := rep.Store.EnforceRetention(context.Background()); err != nil {
		r.Failf("c09.retention", "EnforceRetention: %v", err)
		return
	}
	if !check("after a retention sweep") {
		return
	}
	if err := rep.Close(); err != nil {
		r.Failf("c09.restart", "close: %v", err)
		return
	}
	if err := rep.Open(); err != nil {
		r.Failf("c09.restart", "second start after a crash at %s and a retention sweep failed: %v", diedAt, err)
		return
	}
	check("after the second start")
	r.Count("c09.snapshot-crash.checked")
}
