package verifsim

import (
	"encoding/json"
	"fmt"
	"io"
	"log"
	"math/rand"
	"os"
	"path/filepath"
	"runtime"
	"runtime/debug"
	"sort"
	"strconv"
	"strings"
	"sync/atomic"
	"syscall"
	"testing"
	"testing/synctest"
	"time"

	"github.com/superfly/litefs"
)

// CheckDef registers the scenario + oracle of one property.
type CheckDef struct {
	ID    string
	Level string // exploration | fault_enumeration
	Rule  string // how cases are generated and what makes one distinct/non-trivial
	Run   func(r *Run)
	// NonTrivial decides from the run's stats whether the run was non-trivial.
	NonTrivial  func(r *Run) bool
	Assumptions []string
	Real        []string
	Stub        []string
}

var checks = map[string]*CheckDef{}

func register(c *CheckDef) { checks[c.ID] = c }

// RunResult is what one run reports.
type RunResult struct {
	Seed     int64            `json:"seed"`
	Steps    int              `json:"steps"`
	SimMs    int64            `json:"sim_ms"`
	TapeLen  int              `json:"tape_len"`
	SeqHash  uint64           `json:"seq_hash"`
	Viol     *Violation       `json:"violation,omitempty"`
	Inconc   string           `json:"inconclusive,omitempty"`
	Stats    map[string]int64 `json:"stats,omitempty"`
	Cfg      map[string]any   `json:"cfg,omitempty"`
	Trace    []string         `json:"trace,omitempty"`
	Tape     []uint32         `json:"tape,omitempty"`
	States   []string         `json:"-"`
	Sample   any              `json:"sample,omitempty"`
	Trivial  bool             `json:"trivial"`
	WallMs   int64            `json:"wall_ms"`
	PanicMsg string           `json:"panic,omitempty"`
}

var scratchRoot string

func scratch() string {
	if scratchRoot == "" {
		if d := os.Getenv("SIM_SCRATCH_ROOT"); d != "" {
			// bin/check hands every worker a directory below its own scratch
			// directory, which it removes whatever happens to the worker
			scratchRoot = d
			_ = os.MkdirAll(scratchRoot, 0o777)
			return scratchRoot
		}
		base := "/dev/shm"
		if _, err := os.Stat(base); err != nil {
			base = os.TempDir()
		}
		scratchRoot = filepath.Join(base, fmt.Sprintf("verifsim-%d", os.Getpid()))
		_ = os.MkdirAll(scratchRoot, 0o777)
	}
	return scratchRoot
}

// runOne executes one run of a check inside a fresh bubble.
func runOne(t *testing.T, def *CheckDef, tier string, seed int64, tape *Tape, keepTrace bool) (res RunResult) {
	start := time.Now()
	dir := filepath.Join(scratch(), fmt.Sprintf("%s-%d-%d", def.ID, seed, rand.Int63()))
	_ = os.MkdirAll(dir, 0o777)
	if os.Getenv("SIM_KEEP") == "" {
		defer os.RemoveAll(dir)
	} else {
		fmt.Println("KEEP", dir)
	}
	r := newRun(def.ID, tier, seed, tape, dir)
	defer func() {
		if r.bigDir != "" {
			os.RemoveAll(r.bigDir)
		}
	}()
	curRun.Store(r)
	defer curRun.Store(nil)
	installMutexSeam(r)
	// The collector is off while a bubble runs: a GC cycle makes the running
	// goroutine yield at its next function call, which reorders goroutines
	// that are runnable at the same instant and would break replay.
	runtime.GC()
	old := debug.SetGCPercent(-1)
	defer debug.SetGCPercent(old)
	// ... except as a safety net: a run that has piled up this much garbage is
	// collected anyway (sixteen workers of a gigabyte each starve the machine;
	// such a run may replay with a different order of simultaneously runnable
	// goroutines, which the replay statistics show)
	debug.SetMemoryLimit(int64(envInt("SIM_MEM_LIMIT_MB", 1200)) << 20)
	func() {
		defer func() {
			if rec := recover(); rec != nil {
				res.PanicMsg = fmt.Sprintf("bubble: %v", rec)
				if os.Getenv("SIM_DEBUG") != "" {
					buf := make([]byte, 1<<20)
					n := runtime.Stack(buf, true)
					fmt.Fprintf(os.Stderr, "BUBBLE PANIC %v\n%s\n", rec, buf[:n])
				}
			}
		}()
		synctest.Test(t, func(t *testing.T) {
			defer func() {
				if rec := recover(); rec != nil {
					if _, ok := rec.(nodeExit); ok {
						r.Inconclusive("node exit unwound to the driver")
					} else {
						r.HandlePanic(rec, debug.Stack())
					}
				}
				// Always drain: stop the scheduler and close every node.
				r.teardown()
			}()
			r.simStart = time.Now()
			r.driverID = goid()
			def.Run(r)
			r.bodyDone = true
		})
	}()
	if r.bodyDone && strings.Contains(res.PanicMsg, "main bubble goroutine has exited but blocked goroutines remain") {
		// The check ran to its end and every node was closed; a goroutine of the
		// system under test is still blocked for good (it leaks). That is not a
		// verdict about the property and not trouble of the harness: counted.
		r.Count("teardown.goroutines-left-blocked")
		res.PanicMsg = ""
	}
	r.fillResult(&res, def, keepTrace)
	res.WallMs = time.Since(start).Milliseconds()
	return res
}

// fillResult copies the run's outcome into res.
func (r *Run) fillResult(res *RunResult, def *CheckDef, keepTrace bool) {
	res.Seed = r.Seed
	res.Steps = r.Steps
	res.TapeLen = r.Tape.Pos()
	res.SeqHash = r.seqHash
	res.Viol = r.viol
	res.Inconc = r.inconc
	if res.PanicMsg != "" && res.Inconc == "" {
		res.Inconc = res.PanicMsg
	}
	res.Stats = r.Stats
	res.Cfg = r.Cfg
	res.SimMs = r.simElapsed.Milliseconds()
	res.Sample = r.Sample
	for s := range r.States {
		res.States = append(res.States, s)
	}
	if def.NonTrivial != nil {
		res.Trivial = !def.NonTrivial(r)
	}
	if keepTrace || r.viol != nil || res.Inconc != "" {
		res.Trace = r.trace
		res.Tape = r.Tape.Used()
	}
}

// onFatal is invoked when the system under test panicked in a way that may
// leave locks held (the bubble can no longer be drained): the violation is
// written out and the process ends. Set by SimMain.
var onFatal func(r *Run)

// curRun is the run in progress (for the watchdog).
var curRun atomic.Pointer[Run]

func (r *Run) teardown() {
	r.simElapsed = time.Since(r.simStart)
	if r.Sched != nil {
		r.Sched.stopping.Store(true)
	}
	done := make(chan struct{})
	go func() {
		defer close(done)
		for _, fn := range r.cleanups {
			fn()
		}
		for _, n := range r.nodes {
			if n.Store != nil {
				func() {
					defer func() { recover() }()
					n.Fence()
					_ = n.Close()
				}()
			}
		}
	}()
	// Release parked goroutines until everything has drained. Simulated time
	// stops when the bubble's main goroutine returns, so every sleeper must be
	// woken and must exit before that.
	live := func() int {
		if r.Sched == nil {
			return 0
		}
		r.Sched.mu.Lock()
		defer r.Sched.mu.Unlock()
		n := 0
		for _, g := range r.Sched.byID {
			if !strings.HasPrefix(g.Name, "~") {
				n++
			}
		}
		return n
	}
	closed := false
	quiet := 0
	for i := 0; i < 400000; i++ {
		synctest.Wait()
		if !closed {
			select {
			case <-done:
				closed = true
			default:
			}
		}
		released := false
		if r.Sched != nil {
			for _, g := range r.Sched.Parked() {
				r.Sched.release(g)
				released = true
			}
		}
		if released {
			quiet = 0
			continue
		}
		if closed && live() == 0 {
			quiet++
			if quiet > 40 {
				return // 4 s of simulated silence after the last harness goroutine ended
			}
		}
		time.Sleep(100 * time.Millisecond)
	}
	r.Inconclusive("teardown did not drain")
}

// OnCleanup registers a function to run at teardown (inside the bubble).
func (r *Run) OnCleanup(fn func()) { r.cleanups = append(r.cleanups, fn) }

// ---------------------------------------------------------------------------
// minimisation: edits the tape, keeps a candidate only if the same oracle fails

func minimize(t *testing.T, def *CheckDef, tier string, seed int64, orig RunResult, budget time.Duration) RunResult {
	best := orig
	deadline := time.Now().Add(budget)
	try := func(vals []uint32) bool {
		if time.Now().After(deadline) {
			return false
		}
		res := runOne(t, def, tier, seed, ReplayTape(vals), true)
		if res.Viol != nil && res.Viol.Oracle == orig.Viol.Oracle {
			best = res
			return true
		}
		return false
	}
	cur := append([]uint32(nil), orig.Tape...)
	// 1. cut the tail (the consumed prefix up to the failure is already what we have)
	// 2. ddmin-style block deletion
	for n := 2; len(cur) > 1 && time.Now().Before(deadline); {
		chunk := (len(cur) + n - 1) / n
		reduced := false
		for i := 0; i < len(cur); i += chunk {
			end := i + chunk
			if end > len(cur) {
				end = len(cur)
			}
			cand := append(append([]uint32(nil), cur[:i]...), cur[end:]...)
			if try(cand) {
				cur = best.Tape
				if n > 2 {
					n--
				}
				reduced = true
				break
			}
		}
		if !reduced {
			if chunk <= 1 {
				break
			}
			n *= 2
			if n > len(cur) {
				n = len(cur)
			}
		}
	}
	// 3. zero single values (preemption -> keep running, fault -> none, size -> smallest)
	for i := 0; i < len(cur) && time.Now().Before(deadline); i++ {
		if cur[i] == 0 {
			continue
		}
		cand := append([]uint32(nil), cur...)
		cand[i] = 0
		if try(cand) {
			cur = best.Tape
		}
	}
	return best
}

// ---------------------------------------------------------------------------
// worker entry point (called from TestSim)

// WorkerSummary is what a worker process writes for the orchestrator.
type WorkerSummary struct {
	Level        string           `json:"level"`
	Rule         string           `json:"rule"`
	Assumptions  []string         `json:"assumptions"`
	Real         []string         `json:"real"`
	Stub         []string         `json:"stub"`
	Prop         string           `json:"prop"`
	Tier         string           `json:"tier"`
	Runs         int              `json:"runs"`
	NonTrivial   int              `json:"nontrivial"`
	Steps        int64            `json:"steps"`
	SimMs        int64            `json:"sim_ms"`
	WallMs       int64            `json:"wall_ms"`
	Stats        map[string]int64 `json:"stats"`
	States       []string         `json:"states"`
	SeqHashes    []uint64         `json:"seq_hashes"`
	Samples      []any            `json:"samples"`
	Violations   []RunResult      `json:"violations"`
	Inconcl      []RunResult      `json:"inconclusive"`
	Seeds        []int64          `json:"seeds"`
	StoppedEarly bool             `json:"stopped_early"`
	FatalAbort   bool             `json:"fatal_abort"`
	PerRun       []string         `json:"per_run,omitempty"`
}

func envInt(name string, def int64) int64 {
	if v := os.Getenv(name); v != "" {
		n, err := strconv.ParseInt(v, 10, 64)
		if err == nil {
			return n
		}
	}
	return def
}

// ReplayFile is the on-disk replay of a violation.
type ReplayFile struct {
	Prop   string         `json:"property"`
	Tier   string         `json:"tier"`
	Seed   int64          `json:"seed"`
	Oracle string         `json:"oracle"`
	Msg    string         `json:"message"`
	Step   int            `json:"step"`
	Cfg    map[string]any `json:"config"`
	Tape   []uint32       `json:"tape"`
	Trace  []string       `json:"trace"`
	Note   string         `json:"note,omitempty"`
}

// SimMain is the body of TestSim.
func SimMain(t *testing.T) {
	prop := os.Getenv("SIM_PROP")
	if prop == "" {
		t.Skip("SIM_PROP not set")
	}
	def := checks[prop]
	if def == nil {
		fmt.Printf("unknown property %q\n", prop)
		os.Exit(2)
	}
	runtime.GOMAXPROCS(1)
	debug.SetGCPercent(400)
	// GC is switched off inside a run (see runOne); the memory limit makes the
	// collector step in anyway if the system under test allocates in a loop.
	debug.SetMemoryLimit(1 << 30)
	if os.Getenv("SIM_DEBUG") == "" {
		log.SetOutput(io.Discard)
	}
	litefs.TraceLog.SetOutput(io.Discard)
	if os.Getenv("SIM_DEBUG") == "2" {
		litefs.TraceLog.SetOutput(os.Stderr)
	}
	if kf := os.Getenv("SIM_KNOWN"); kf != "" {
		if err := json.Unmarshal([]byte(kf), &knownFindings); err != nil {
			fmt.Println("bad SIM_KNOWN:", err)
			os.Exit(2)
		}
	}
	if p := os.Getenv("SIM_EVLOG"); p != "" {
		evlog, _ = os.Create(p)
	}
	go watchdog()
	if os.Getenv("SIM_KEEP") == "" {
		defer os.RemoveAll(scratch())
	}
	tier := os.Getenv("SIM_TIER")
	if tier == "" {
		tier = "quick"
	}

	if rp := os.Getenv("SIM_REPLAY"); rp != "" {
		b, err := os.ReadFile(rp)
		if err != nil {
			fmt.Println("cannot read replay:", err)
			os.Exit(2)
		}
		var rf ReplayFile
		if err := json.Unmarshal(b, &rf); err != nil {
			fmt.Println("cannot parse replay:", err)
			os.Exit(2)
		}
		tape := ReplayTape(rf.Tape)
		if rf.Tape == nil {
			tape = NewTape(rf.Seed)
		}
		onFatal = func(r *Run) {
			var res RunResult
			r.fillResult(&res, def, true)
			out, _ := json.Marshal(res)
			if p := os.Getenv("SIM_OUT"); p != "" {
				_ = os.WriteFile(p, out, 0o666)
			}
			fmt.Printf("REPLAY-VIOLATION oracle=%s step=%d msg=%s\n", res.Viol.Oracle, res.Viol.Step, res.Viol.Msg)
			os.Exit(0)
		}
		res := runOne(t, def, rf.Tier, rf.Seed, tape, true)
		out, _ := json.Marshal(res)
		if p := os.Getenv("SIM_OUT"); p != "" {
			_ = os.WriteFile(p, out, 0o666)
		}
		if res.Viol != nil {
			fmt.Printf("REPLAY-VIOLATION oracle=%s step=%d msg=%s\n", res.Viol.Oracle, res.Viol.Step, res.Viol.Msg)
		} else if res.Inconc != "" {
			fmt.Printf("REPLAY-INCONCLUSIVE %s\n", res.Inconc)
		} else {
			fmt.Printf("REPLAY-OK\n")
		}
		if os.Getenv("SIM_SHOWTRACE") != "" {
			for _, l := range res.Trace {
				fmt.Println(l)
			}
		}
		return
	}

	start := envInt("SIM_SEED_START", 1)
	count := envInt("SIM_SEED_COUNT", 10)
	stride := envInt("SIM_SEED_STRIDE", 1)
	budget := time.Duration(envInt("SIM_BUDGET_S", 3600)) * time.Second
	minBudget := time.Duration(envInt("SIM_MIN_BUDGET_S", 60)) * time.Second
	maxViol := int(envInt("SIM_MAX_VIOL", 3))
	t0 := realNow()
	sum := WorkerSummary{Prop: prop, Tier: tier, Stats: map[string]int64{}, Level: def.Level, Rule: def.Rule, Assumptions: def.Assumptions, Real: def.Real, Stub: def.Stub}
	states := map[string]struct{}{}
	hashes := map[uint64]struct{}{}
	finish := func() {
		for s := range states {
			sum.States = append(sum.States, s)
		}
		sort.Strings(sum.States)
		for h := range hashes {
			sum.SeqHashes = append(sum.SeqHashes, h)
		}
		sum.WallMs = realNow().Sub(t0).Milliseconds()
		out, _ := json.Marshal(sum)
		if p := os.Getenv("SIM_OUT"); p != "" {
			if err := os.WriteFile(p, out, 0o666); err != nil {
				fmt.Println("cannot write summary:", err)
				os.Exit(2)
			}
		} else {
			var sb strings.Builder
			fmt.Fprintf(&sb, "runs=%d nontrivial=%d steps=%d sim_ms=%d wall_ms=%d states=%d interleavings=%d violations=%d inconclusive=%d\n",
				sum.Runs, sum.NonTrivial, sum.Steps, sum.SimMs, sum.WallMs, len(sum.States), len(sum.SeqHashes), len(sum.Violations), len(sum.Inconcl))
			keys := make([]string, 0, len(sum.Stats))
			for k := range sum.Stats {
				keys = append(keys, k)
			}
			sort.Strings(keys)
			for _, k := range keys {
				fmt.Fprintf(&sb, "  %s=%d\n", k, sum.Stats[k])
			}
			for _, v := range sum.Violations {
				fmt.Fprintf(&sb, "VIOL seed=%d oracle=%s step=%d tape=%d msg=%s\n", v.Seed, v.Viol.Oracle, v.Viol.Step, len(v.Tape), v.Viol.Msg)
				n := len(v.Trace)
				lo := n - 40
				if lo < 0 {
					lo = 0
				}
				for _, l := range v.Trace[lo:] {
					fmt.Fprintf(&sb, "    %s\n", l)
				}
			}
			for _, v := range sum.Inconcl {
				fmt.Fprintf(&sb, "INCONCLUSIVE seed=%d %s\n", v.Seed, v.Inconc)
			}
			fmt.Print(sb.String())
		}

	}
	onFatal = func(r *Run) {
		var res RunResult
		r.fillResult(&res, def, true)
		sum.Runs++
		sum.Violations = append(sum.Violations, res)
		sum.FatalAbort = true
		finish()
		os.Exit(0)
	}
	for i := int64(0); i < count; i++ {
		if realNow().Sub(t0) > budget {
			sum.StoppedEarly = true
			break
		}
		seed := start + i*stride
		if p := os.Getenv("SIM_OUT"); p != "" {
			_ = os.WriteFile(p+".cur", []byte(strconv.FormatInt(seed, 10)), 0o666)
		}
		res := runOne(t, def, tier, seed, NewTape(seed), false)
		sum.Runs++
		sum.Seeds = append(sum.Seeds, seed)
		if os.Getenv("SIM_PERRUN") != "" {
			sum.PerRun = append(sum.PerRun, fmt.Sprintf("%d steps=%d tape=%d hash=%x sim=%d viol=%v", seed, res.Steps, res.TapeLen, res.SeqHash, res.SimMs, res.Viol != nil))
		}
		sum.Steps += int64(res.Steps)
		sum.SimMs += res.SimMs
		for k, v := range res.Stats {
			sum.Stats[k] += v
		}
		if !res.Trivial {
			sum.NonTrivial++
		}
		for _, s := range res.States {
			if _, seen := states[s]; !seen && os.Getenv("SIM_STATES") != "" {
				fmt.Printf("STATE %s\n", s)
			}
			states[s] = struct{}{}
		}
		hashes[res.SeqHash] = struct{}{}
		if res.Sample != nil && len(sum.Samples) < 3 {
			sum.Samples = append(sum.Samples, map[string]any{"seed": seed, "cfg": res.Cfg, "case": res.Sample})
		}
		if res.Inconc != "" && res.Viol == nil {
			sum.Inconcl = append(sum.Inconcl, res)
			if len(sum.Inconcl) >= 3 {
				break
			}
			continue
		}
		if res.Viol != nil {
			if os.Getenv("SIM_NOMIN") == "" {
				res = minimize(t, def, tier, seed, res, minBudget)
			}
			sum.Violations = append(sum.Violations, res)
			if len(sum.Violations) >= maxViol {
				break
			}
		}
	}
	finish()
}

// realNow reads the real wall clock even inside a bubble.
func realNow() time.Time {
	var tv syscall.Timeval
	_ = syscall.Gettimeofday(&tv)
	return time.Unix(int64(tv.Sec), int64(tv.Usec)*1000)
}

// watchdog runs outside any bubble on the real clock: if no driver makes
// progress for a long time the process dumps stacks and exits 2 (harness
// trouble is never reported as a violation).
func watchdog() {
	limit := time.Duration(envInt("SIM_WATCHDOG_S", 120)) * time.Second
	last := progress.Load()
	lastT := time.Now()
	lastCPU := cpuTime()
	for {
		time.Sleep(2 * time.Second)
		cur := progress.Load()
		if cur != last || bigWait.Load() {
			last, lastT, lastCPU = cur, time.Now(), cpuTime()
			continue
		}
		// A goroutine of the bubble waits for a sync mutex while no goroutine of
		// the bubble can run: nothing will ever release it (timers cannot fire
		// either, the bubble is not idle). If the waiter is inside LiteFS that is
		// a deadlock of the system under test; it is certain after a few seconds.
		if w := time.Since(lastT); w > 8*time.Second && w <= limit {
			buf := make([]byte, 4<<20)
			dump := string(buf[:runtime.Stack(buf, true)])
			if fn := sutMutexDeadlock(dump); fn != "" {
				if cur := curRun.Load(); cur != nil && cur.Failed() && onFatal != nil {
					onFatal(cur)
				}
				fmt.Fprintf(os.Stderr, "SUT-HANG: deadlock: a goroutine waits for a mutex in %s and nothing else can run\n%s\n", fn, dump)
				os.Exit(3)
			}
		}
		// The limit is counted in CPU time of this process, so that a machine
		// that is busy with other work (or waiting for a disk) does not look
		// like a hang; a process that is blocked without using any CPU is given
		// five times the limit on the wall clock.
		if w := time.Since(lastT); w > limit && (cpuTime()-lastCPU > limit || w > 5*limit) {
			buf := make([]byte, 4<<20)
			n := runtime.Stack(buf, true)
			dump := string(buf[:n])
			// A run that had already recorded a violation and then cannot be torn
			// down (the system under test is wedged) still reports its violation.
			if cur := curRun.Load(); cur != nil && cur.Failed() && onFatal != nil {
				fmt.Fprintf(os.Stderr, "WATCHDOG: the run hung after its violation was recorded; reporting the violation\n")
				onFatal(cur)
			}
			if fn := sutSpinning(dump); fn != "" {
				// A goroutine of the bubble is busy inside LiteFS and nothing else
				// moves: the system under test hangs. That is a finding, not
				// harness trouble; the orchestrator turns it into a violation.
				fmt.Fprintf(os.Stderr, "SUT-HANG: %s\n%s\n", fn, dump)
				os.Exit(3)
			}
			fmt.Fprintf(os.Stderr, "WATCHDOG: no progress for %s\n%s\n", limit, dump)
			os.Exit(2)
		}
	}
}

// sutMutexDeadlock: no goroutine of any bubble is running or runnable, and one
// of them waits in sync.Mutex.Lock / sync.RWMutex.(R)Lock with LiteFS (not the
// harness) as the innermost caller. Returns that caller.
func sutMutexDeadlock(dump string) string {
	waiter := ""
	for _, blk := range strings.Split(dump, "\n\n") {
		lines := strings.Split(blk, "\n")
		if len(lines) < 2 || !strings.Contains(lines[0], "synctest bubble") {
			continue
		}
		st := lines[0]
		if strings.Contains(st, "[running") || strings.Contains(st, "[runnable") || strings.Contains(st, "[syscall") {
			return ""
		}
		if !strings.Contains(st, "[sync.Mutex.Lock") && !strings.Contains(st, "[sync.RWMutex.") {
			continue
		}
		for _, l := range lines[1:] {
			if strings.HasPrefix(l, "\t") || l == "" {
				continue
			}
			if strings.HasPrefix(l, "runtime.") || strings.HasPrefix(l, "internal/") || strings.HasPrefix(l, "sync.") {
				continue
			}
			if strings.HasPrefix(l, "github.com/superfly/") && !strings.HasPrefix(l, "github.com/superfly/litefs/verifsim.") && waiter == "" {
				waiter = l
				if i := strings.LastIndex(l, "("); i > 0 {
					waiter = l[:i]
				}
			}
			break
		}
	}
	return waiter
}

// cpuTime is the user+system CPU time this process has consumed.
func cpuTime() time.Duration {
	var ru syscall.Rusage
	if err := syscall.Getrusage(syscall.RUSAGE_SELF, &ru); err != nil {
		return 0
	}
	return time.Duration(ru.Utime.Nano() + ru.Stime.Nano())
}

// sutSpinning looks for a running/runnable bubble goroutine whose innermost
// non-runtime frame belongs to LiteFS (not to the harness).
func sutSpinning(dump string) string {
	for _, blk := range strings.Split(dump, "\n\n") {
		lines := strings.Split(blk, "\n")
		if len(lines) < 2 {
			continue
		}
		if !strings.Contains(lines[0], "[running") && !strings.Contains(lines[0], "[runnable") {
			continue
		}
		// goroutines of a bubble: the header says so for most states, but not for
		// one that was preempted while runnable; those are recognised by what
		// they run (the watchdog itself is the only other one that is running)
		if !strings.Contains(lines[0], "synctest bubble") && (strings.Contains(blk, "verifsim.watchdog") || !strings.Contains(blk, "github.com/superfly/litefs")) {
			continue
		}
		for _, l := range lines[1:] {
			if strings.HasPrefix(l, "\t") || l == "" {
				continue
			}
			if strings.HasPrefix(l, "runtime.") || strings.HasPrefix(l, "syscall.") || strings.HasPrefix(l, "internal/") || strings.HasPrefix(l, "os.") || strings.HasPrefix(l, "io.") || strings.HasPrefix(l, "bytes.") || strings.HasPrefix(l, "encoding/") {
				continue
			}
			if strings.HasPrefix(l, "github.com/superfly/litefs/verifsim.") {
				break
			}
			if strings.HasPrefix(l, "github.com/superfly/") {
				if i := strings.Index(l, "("); i > 0 {
					return l[:strings.LastIndex(l, "(")]
				}
				return l
			}
			break
		}
	}
	return ""
}
