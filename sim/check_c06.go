package verifsim

import (
	"bytes"
	"context"
	"encoding/binary"
	"fmt"
	"os"
	"path/filepath"
	"strconv"
	"strings"
	"time"

	"github.com/superfly/litefs"
	"github.com/superfly/ltx"
)

func init() {
	register(&CheckDef{
		ID:    "C06",
		Level: "exploration",
		Rule:  "three seeded scenarios over real Stores. (1) positions: a real primary with a seeded history and a real replica whose data directory is constructed to be on the chain at any index, on a fork of any length branching at any index (it ran as a primary itself), ahead of the primary (the primary restarted from an older image and wrote 0..n other transactions: higher TXID, equal TXID with another checksum), behind a retention cut, holding only a snapshot file, or empty; they connect through the simulated network. (2) offered files: a real replica fed by a scripted primary, and a real primary's POST /tx endpoint under a held halt lock, receive well-formed files with a wrong min TXID, a wrong pre-apply checksum, a gap, corrupt bodies, and valid files. (3) the multi-node fault simulation with the monitor below on every node. Oracles: an apply monitor at the OS seam reads the header of every transaction file LiteFS is about to apply and requires a non-snapshot file to extend exactly the node's current (TXID, checksum); a replica whose position is not on the primary's history must therefore see a snapshot first; after reconnecting the replica's raw database equals the primary's byte for byte at the primary's position; an offered file that does not extend the position leaves position, raw image, log and locks unchanged and the node alive. evaluations = connects + offered files; distinct = distinct (scenario, replica class, relation of positions, bad-file class) tuples; non-trivial = a run in which a snapshot was forced or a bad file was refused",
		Run:   runC06,
		NonTrivial: func(r *Run) bool {
			return r.Stats["c06.forced-snapshot"]+r.Stats["c06.bad-refused"]+r.Stats["c06.monitor.incremental"] > 0
		},
		Assumptions: []string{"a file whose header extends the position but whose pages do not produce the stated post-apply checksum is outside this property (it is the recorded C20 finding for POST /tx)"},
		Real:        []string{"http stream handler position comparison, Store.processLTXStreamFrame, DB.WriteLTXFileAt / ApplyLTXNoLock, handlePostTx, retention"},
		Stub:        []string{"SimNet", "ScriptClient (scripted primary) in scenario 2", "SimKernel", "PagerSim"},
	})
}

func runC06(r *Run) {
	pick := r.Tape.Pick([]int{5, 4, 2, 1})
	if v := os.Getenv("SIM_C06_SCENARIO"); v != "" { // developer override
		pick, _ = strconv.Atoi(v)
	}
	switch pick {
	case 0:
		r.Cfg["scenario"] = "positions"
		c06Positions(r)
	case 1:
		r.Cfg["scenario"] = "offered"
		c06Offered(r)
	case 2:
		r.Cfg["scenario"] = "cluster"
		c06Cluster(r)
	default:
		r.Cfg["scenario"] = "primary-restored"
		c06PrimaryRestored(r)
	}
}

// readLTXEnds reads header and trailer of a transaction file with plain file
// reads (the trailer is the last 16 bytes).
func readLTXEnds(path string) (hdr ltx.Header, post ltx.Checksum, err error) {
	b, err := os.ReadFile(path)
	if err != nil {
		return hdr, 0, err
	}
	if len(b) < ltx.HeaderSize+ltx.TrailerSize {
		return hdr, 0, fmt.Errorf("short file")
	}
	if err := hdr.UnmarshalBinary(b[:ltx.HeaderSize]); err != nil {
		return hdr, 0, err
	}
	post = ltx.Checksum(binary.BigEndian.Uint64(b[len(b)-ltx.TrailerSize:]))
	return hdr, post, nil
}

// installApplyMonitor adds the C06 invariant to node n (to be called from
// PreOpen or right after Open): a transaction file LiteFS opens for applying
// must be a snapshot, extend exactly the database's current position, or be
// the file the position already names (recovery re-applies the newest file).
func installApplyMonitor(r *Run, n *Node, oracle string) {
	prev := n.OS.Hook
	n.OS.Hook = func(phase, call, op, path string) {
		if prev != nil {
			prev(phase, call, op, path)
		}
		if phase != "pre" || call != "open" || op != "APPLYLTX:LTX" {
			return
		}
		name := filepath.Base(filepath.Dir(filepath.Dir(path)))
		hdr, post, err := readLTXEnds(path)
		if err != nil {
			return // LiteFS will fail on it itself
		}
		if n.Store == nil {
			return
		}
		db := n.Store.DB(name)
		if db == nil {
			return // still opening: the database is not registered yet
		}
		cur := db.Pos()
		switch {
		case hdr.IsSnapshot():
			r.Count("c06.monitor.snapshot")
		case hdr.MinTXID == cur.TXID+1 && hdr.PreApplyChecksum == cur.PostApplyChecksum:
			r.Count("c06.monitor.incremental")
		case hdr.MaxTXID == cur.TXID && post == cur.PostApplyChecksum:
			r.Count("c06.monitor.reapply")
		default:
			r.Failf(oracle+".patched", "%s applies %s (pre-apply checksum %s) to %s while its position is %s", n.Name, filepath.Base(path), hdr.PreApplyChecksum, name, cur)
		}
	}
}

type c06hist struct {
	pos []ltx.Pos // primary positions after each commit
	ims []*Image
}

func (ch *c06hist) onChain(p ltx.Pos) bool {
	for _, q := range ch.pos {
		if q == p {
			return true
		}
	}
	return false
}

// c06Commits commits n transactions with h, recording positions and images.
func c06Commits(r *Run, h *hist, t *Tape, n int, ch *c06hist) bool {
	for i := 0; i < n && !r.Failed(); i++ {
		for try := 0; try < 5; try++ {
			before := h.db()
			var bp ltx.Pos
			if before != nil {
				bp = before.Pos()
			}
			h.commit(t)
			if r.Failed() {
				return false
			}
			if db := h.db(); db != nil && db.Pos() != bp {
				if ch != nil {
					ch.pos = append(ch.pos, db.Pos())
					ch.ims = append(ch.ims, h.ref)
				}
				break
			}
		}
	}
	return !r.Failed()
}

func c06Positions(r *Run) {
	t := r.Tape
	compress := t.Chance(1, 2)
	retentionCut := t.Chance(1, 4)
	pr := newPair(r, compress, 0)
	if retentionCut {
		pr.p.Cfg.Tune = func(s *litefs.Store) {
			s.ReconnectDelay = 20 * time.Millisecond
			s.Retention = time.Millisecond
			s.RetentionMonitorInterval = time.Hour // enforced explicitly below
		}
	}
	pr.rep.PreOpen = func(n *Node) { installApplyMonitor(r, n, "c06") }
	if err := pr.p.Open(); err != nil || !pr.p.WaitPrimary(5*time.Second) {
		r.Inconclusive("open primary: %v", err)
		return
	}
	h := &hist{r: r, n: pr.p, name: "db"}
	h.pageSize = []uint32{512, 1024, 4096}[t.Next(3)]
	h.jmode = []string{ModeDelete, ModeTruncate, ModePersist}[t.Next(3)]
	h.maxPages = 25
	r.Cfg["page_size"], r.Cfg["jmode"], r.Cfg["retention_cut"] = h.pageSize, h.jmode, retentionCut
	if !h.openConns(1) {
		return
	}
	ch := &c06hist{}
	// phase 1: history up to the branch point A
	if !c06Commits(r, h, t, t.Range(1, 5), ch) || h.ref.N() == 0 {
		return
	}
	if t.Chance(1, 3) {
		if !h.toWAL() {
			return
		}
		ch.pos = append(ch.pos, h.db().Pos())
		ch.ims = append(ch.ims, h.ref)
		if !c06Commits(r, h, t, t.Range(0, 2), ch) {
			return
		}
	}
	h.closeConns()
	imgA, err := pr.p.Image("A")
	if err != nil {
		r.Inconclusive("image: %v", err)
		return
	}
	refA, walA, nA := h.ref, h.wal, len(ch.pos)
	snapA, _, err := SnapshotBytes(h.db())
	if err != nil {
		r.Inconclusive("snapshot: %v", err)
		return
	}

	class := []string{"empty", "chain", "fork", "ahead", "snapshot-only"}[t.Pick([]int{1, 3, 4, 4, 2})]
	r.Cfg["class"] = class
	repDir := func(img string) bool {
		_ = os.RemoveAll(pr.rep.Dir)
		if err := CopyTree(img, pr.rep.Dir); err != nil {
			r.Inconclusive("copy: %v", err)
			return false
		}
		return true
	}
	if !h.openConns(1) {
		return
	}
	switch class {
	case "empty":
		c06Commits(r, h, t, t.Range(0, 3), ch)
	case "chain", "snapshot-only":
		if !repDir(imgA) {
			return
		}
		if class == "snapshot-only" {
			ltxDir := filepath.Join(pr.rep.Dir, "dbs", h.name, "ltx")
			_ = os.RemoveAll(ltxDir)
			_ = os.MkdirAll(ltxDir, 0o777)
			if err := os.WriteFile(filepath.Join(ltxDir, ltx.FormatFilename(1, ch.pos[nA-1].TXID)), snapA, 0o666); err != nil {
				r.Inconclusive("write snapshot: %v", err)
				return
			}
		}
		c06Commits(r, h, t, t.Range(0, 4), ch)
	case "fork":
		if !repDir(imgA) {
			return
		}
		// the replica-to-be runs as a primary of its own and writes L transactions
		pr.rep.Cfg.Leaser = litefs.NewStaticLeaser(true, pr.rep.Name, pr.rep.URL())
		pr.rep.Cfg.Candidate = true
		if err := pr.rep.Open(); err != nil || !pr.rep.WaitPrimary(5*time.Second) {
			r.Failf("c06.setup", "opening the fork as a primary failed: %v", err)
			return
		}
		hr := &hist{r: r, n: pr.rep, name: h.name, pageSize: h.pageSize, jmode: h.jmode, maxPages: h.maxPages, ref: refA, wal: walA}
		if !hr.openConns(1) {
			return
		}
		c06Commits(r, hr, t, t.Range(1, 4), nil)
		hr.closeConns()
		if r.Failed() {
			return
		}
		if err := pr.rep.Close(); err != nil {
			r.Failf("c06.setup", "closing the fork failed: %v", err)
			return
		}
		pr.rep.Cfg.Leaser = litefs.NewStaticLeaser(false, pr.p.Name, pr.p.URL())
		pr.rep.Cfg.Candidate = false
		c06Commits(r, h, t, t.Range(0, 5), ch)
	case "ahead":
		// the primary goes on to B, the replica gets B, the primary falls back to A
		if !c06Commits(r, h, t, t.Range(1, 4), ch) {
			return
		}
		h.closeConns()
		imgB, err := pr.p.Image("B")
		if err != nil {
			r.Inconclusive("image: %v", err)
			return
		}
		if !repDir(imgB) {
			return
		}
		if err := pr.p.Close(); err != nil {
			r.Failf("c06.setup", "closing the primary failed: %v", err)
			return
		}
		if err := pr.p.RestartFrom(imgA); err != nil || !pr.p.WaitPrimary(5*time.Second) {
			r.Failf("c06.setup", "restarting the primary from the older image failed: %v", err)
			return
		}
		ch.pos, ch.ims = ch.pos[:nA], ch.ims[:nA]
		h.ref, h.wal = refA, walA
		if !h.openConns(1) {
			return
		}
		c06Commits(r, h, t, t.Range(0, 5), ch)
	}
	if r.Failed() {
		return
	}
	if retentionCut {
		time.Sleep(50 * time.Millisecond)
		if err := pr.p.Store.EnforceRetention(context.Background()); err != nil {
			r.Failf("c06.setup", "EnforceRetention: %v", err)
			return
		}
	}
	h.closeConns()
	pdb := pr.p.Store.DB(h.name)
	ppos := pdb.Pos()

	// the replica's position before it connects
	var rpos ltx.Pos
	if class != "empty" {
		if f, err := NewestLTX(filepath.Join(pr.rep.Dir, "dbs", h.name)); err == nil && f != nil {
			rpos = ltx.Pos{TXID: f.Header.MaxTXID, PostApplyChecksum: f.Trailer.PostApplyChecksum}
		}
	}
	onChain := rpos.TXID == 0 || ch.onChain(rpos)
	rel := "behind"
	switch {
	case rpos.TXID > ppos.TXID:
		rel = "ahead"
	case rpos.TXID == ppos.TXID:
		rel = "equal"
	}
	// can the primary still serve the next file?
	canIncr := onChain && rpos.TXID > 0 && rpos.TXID < ppos.TXID
	if canIncr {
		if _, err := os.Stat(pdb.LTXPath(rpos.TXID+1, rpos.TXID+1)); err != nil {
			canIncr = false
		}
	}
	r.State("positions/%s/%s/onchain%v/incr%v/cut%v", class, rel, onChain, canIncr, retentionCut)
	r.Logf("primary %s, replica starts at %s (class %s, on chain %v, incremental possible %v)", ppos, rpos, class, onChain, canIncr)

	snapsBefore := r.Stats["c06.monitor.snapshot"]
	if err := pr.rep.Open(); err != nil {
		r.Failf("c06.replica-open", "replica (%s, at %s) failed to open: %v", class, rpos, err)
		return
	}
	if !r.Check(waitPos(pr.rep, h.name, ppos, 30*time.Second), "c06.converge", "replica (%s, started at %s, on chain %v) did not reach the primary's position %s within 30 s; it is at %s", class, rpos, onChain, ppos, posOf(pr.rep, h.name)) {
		return
	}
	r.Check(!pr.rep.Exited && !pr.p.Exited, "c06.exit", "a node exited")
	if !onChain || (rpos.TXID > 0 && rpos != ppos && !canIncr) {
		if r.Check(r.Stats["c06.monitor.snapshot"] > snapsBefore, "c06.no-snapshot", "replica (%s) at %s is not on the primary's history / cannot be served incrementally but reached %s without a snapshot", class, rpos, ppos) {
			r.Count("c06.forced-snapshot")
		}
	}
	// byte-identical to the primary
	pim, err1 := ReadDiskImage(pr.p.Store.DBPath(h.name))
	rim, err2 := ReadDiskImage(pr.rep.Store.DBPath(h.name))
	if r.Check(err1 == nil && err2 == nil, "c06.read", "reading raw files: %v %v", err1, err2) {
		if d := DiffImages(rim, pim.LogicalCut()); d != "" {
			r.Failf("c06.identical", "replica (%s, started at %s) differs from the primary at %s: %s", class, rpos, ppos, d)
		}
		if d := DiffImages(rim, h.ref); d != "" {
			r.Failf("c06.identical", "replica (%s) differs from SQLite's image on the primary at %s: %s", class, ppos, d)
		}
	}
	r.Count("c06.connects")
	// and it keeps following
	if !h.openConns(1) {
		return
	}
	if c06Commits(r, h, t, t.Range(1, 2), ch) {
		np := pdb.Pos()
		if r.Check(waitPos(pr.rep, h.name, np, 10*time.Second), "c06.converge", "replica did not follow to %s after resynchronising", np) {
			rim, _ := ReadDiskImage(pr.rep.Store.DBPath(h.name))
			if d := DiffImages(rim, h.ref); d != "" {
				r.Failf("c06.identical", "replica differs from the primary at %s: %s", np, d)
			}
		}
	}
	h.closeConns()
}

func posOf(n *Node, name string) ltx.Pos {
	if n.Store == nil {
		return ltx.Pos{}
	}
	if db := n.Store.DB(name); db != nil {
		return db.Pos()
	}
	return ltx.Pos{}
}

// c06BadFile derives from the valid next file (header hdr, raw bytes good) a
// file that must not be accepted at position cur.
func c06BadFile(r *Run, t *Tape, good []byte, cur ltx.Pos, pageSize uint32) ([]byte, string) {
	f, err := DecodeLTX(bytes.NewReader(good))
	if err != nil {
		return nil, ""
	}
	pages := f.Pages
	hdr := f.Header
	post := f.Trailer.PostApplyChecksum
	switch t.Next(6) {
	case 0: // gap
		hdr.MinTXID += ltx.TXID(t.Range(1, 3))
		hdr.MaxTXID = hdr.MinTXID
		b, _ := BuildLTX(hdr, pages, post)
		return b, "gap"
	case 1: // an old transaction again
		if cur.TXID < 2 {
			return nil, ""
		}
		hdr.MinTXID = ltx.TXID(t.Range(2, int(cur.TXID)))
		hdr.MaxTXID = hdr.MinTXID
		b, _ := BuildLTX(hdr, pages, post)
		return b, "old-txid"
	case 2: // wrong pre-apply checksum
		hdr.PreApplyChecksum = ltx.ChecksumFlag | ltx.Checksum(0x1234567+uint64(t.Next(1000)))
		b, _ := BuildLTX(hdr, pages, post)
		return b, "pre-checksum"
	case 3: // flipped byte in the body
		b := append([]byte(nil), good...)
		if len(b) <= ltx.HeaderSize+ltx.TrailerSize+1 {
			return nil, ""
		}
		i := ltx.HeaderSize + t.Next(len(b)-ltx.HeaderSize-ltx.TrailerSize)
		b[i] ^= byte(1 << t.Next(8))
		// Not every byte of a compressed body carries information (LZ4 frame
		// flags, reserved bits): a flip after which the file still verifies and
		// decodes to the very same transaction is not a damaged file.
		if g, err := DecodeLTX(bytes.NewReader(good)); err == nil {
			if m, err := DecodeLTX(bytes.NewReader(b)); err == nil && sameLTX(g, m) {
				r.Count("c06.offered.benign-flip")
				return nil, ""
			}
		}
		return b, "corrupt-body"
	case 4: // truncated
		if len(good) < 10 {
			return nil, ""
		}
		return good[:t.Range(1, len(good)-1)], "truncated"
	default: // flipped byte in the trailer's file checksum
		b := append([]byte(nil), good...)
		b[len(b)-1-t.Next(8)] ^= 0x40
		return b, "file-checksum"
	}
}

// sameLTX reports whether two decoded files describe the same transaction.
func sameLTX(a, b *LTXFile) bool {
	if a.Header != b.Header || a.Trailer != b.Trailer || len(a.Pages) != len(b.Pages) || fmt.Sprint(a.Pgnos) != fmt.Sprint(b.Pgnos) {
		return false
	}
	for pg, d := range a.Pages {
		if !bytes.Equal(d, b.Pages[pg]) {
			return false
		}
	}
	return true
}

func c06Offered(r *Run) {
	t := r.Tape
	h := &hist{r: r, name: "db"}
	h.pageSize = []uint32{512, 4096}[t.Next(2)]
	h.jmode = ModeDelete
	h.maxPages = 20
	compress := t.Chance(1, 2)
	h.n = newStaticPrimary(r, compress, nil)
	if h.n == nil {
		return
	}
	if !h.openConns(1) {
		return
	}
	via := []string{"stream", "tx"}[t.Next(2)]
	r.Cfg["via"], r.Cfg["page_size"] = via, h.pageSize
	if via == "stream" {
		c06OfferedStream(r, h, compress)
	} else {
		c06OfferedTx(r, h, compress)
	}
	h.closeConns()
}

// c06OfferedStream: a real replica is fed by a scripted primary that replays a
// real primary's files and slips bad ones in.
func c06OfferedStream(r *Run, h *hist, compress bool) {
	t := r.Tape
	sc := NewScriptClient(r, h.n.Store.ClusterID())
	rep := r.NewNode(NodeCfg{Candidate: false, Client: sc, Compress: compress})
	rep.Cfg.Leaser = litefs.NewStaticLeaser(false, "p", "http://p:20202")
	rep.Cfg.Tune = func(s *litefs.Store) { s.ReconnectDelay = 10 * time.Millisecond }
	rep.PreOpen = func(n *Node) { installApplyMonitor(r, n, "c06") }
	if err := rep.Open(); err != nil {
		r.Inconclusive("open replica: %v", err)
		return
	}
	st := sc.WaitStream(2 * time.Second)
	if st == nil {
		r.Inconclusive("replica did not connect")
		return
	}
	var sent ltx.Pos
	steps := t.Range(4, 12)
	for i := 0; i < steps && !r.Failed(); i++ {
		r.Step()
		if !c06Commits(r, h, t, 1, nil) {
			return
		}
		db := h.db()
		if db == nil || db.Pos().TXID == 0 || db.Pos() == sent {
			continue
		}
		pos := db.Pos()
		if sent.TXID == 0 {
			b, spos, err := SnapshotBytes(db)
			if err != nil {
				r.Inconclusive("snapshot: %v", err)
				return
			}
			st.Push(EncodeLTXFrame(h.name, b))
			if !r.Check(waitPos(rep, h.name, spos, 3*time.Second), "c06.converge", "replica did not take the initial snapshot") {
				return
			}
			sent = spos
			continue
		}
		good, err := os.ReadFile(db.LTXPath(sent.TXID+1, sent.TXID+1))
		if err != nil {
			r.Inconclusive("read ltx: %v", err)
			return
		}
		if t.Chance(1, 2) {
			bad, class := c06BadFile(r, t, good, sent, h.pageSize)
			if bad != nil {
				before := digestDB(rep.Store.DB(h.name))
				st.Push(EncodeLTXFrame(h.name, bad))
				// the replica must drop the stream (or, for a body cut short, wait
				// for more bytes: then the stream is ended for it)
				time.Sleep(50 * time.Millisecond)
				if class == "truncated" {
					st.End()
					time.Sleep(50 * time.Millisecond)
				}
				if !r.Check(!rep.Exited, "c06.exit", "offered %s file: the replica stopped (Exit %d)", class, rep.ExitCode) {
					return
				}
				after := digestDB(rep.Store.DB(h.name))
				if !r.Check(before == after, "c06.bad-changed", "offered %s file (header %d bytes) changed the replica:\n before %s\n after  %s", class, len(bad), before, after) {
					return
				}
				r.Count("c06.bad-refused")
				r.State("offered/stream/%s", class)
				ns := sc.WaitStream(3 * time.Second)
				if ns == nil {
					r.Failf("c06.reconnect", "after a refused %s file the replica did not come back", class)
					return
				}
				if ns != st {
					st = ns
					got := st.PosMap[h.name]
					r.Check(got == sent, "c06.bad-changed", "after a refused %s file the replica reconnects with position %s, want %s", class, got, sent)
				}
			}
		}
		// now the valid file(s)
		for tx := sent.TXID + 1; tx <= pos.TXID; tx++ {
			b, err := os.ReadFile(db.LTXPath(tx, tx))
			if err != nil {
				r.Inconclusive("read ltx: %v", err)
				return
			}
			st.Push(EncodeLTXFrame(h.name, b))
		}
		if !r.Check(waitPos(rep, h.name, pos, 3*time.Second), "c06.converge", "replica did not reach %s with valid files (it is at %s)", pos, posOf(rep, h.name)) {
			return
		}
		sent = pos
		rim, _ := ReadDiskImage(rep.Store.DBPath(h.name))
		if d := DiffImages(rim, h.ref); d != "" {
			r.Failf("c06.identical", "replica differs from the primary at %s: %s", pos, d)
		}
		r.Count("c06.offered")
	}
}

// c06OfferedTx: files offered to POST /tx of a real primary under a held halt lock.
func c06OfferedTx(r *Run, h *hist, compress bool) {
	t := r.Tape
	p := h.n
	if !c06Commits(r, h, t, t.Range(1, 4), nil) || h.ref.N() == 0 {
		return
	}
	h.closeConns()
	db := p.Store.DB(h.name)
	// a donor primary produces the valid next files
	donorImg, err := p.Image("donor")
	if err != nil {
		r.Inconclusive("image: %v", err)
		return
	}
	donor, err := c17Open(r, donorImg)
	if err != nil {
		r.Inconclusive("donor: %v", err)
		return
	}
	donor.WaitPrimary(5 * time.Second)
	hd := &hist{r: r, n: donor, name: h.name, pageSize: h.pageSize, jmode: h.jmode, maxPages: h.maxPages, ref: h.ref, wal: h.wal}
	if !hd.openConns(1) {
		return
	}
	const remoteID = "00000000000F4240"
	lockID := int64(1000 + t.Next(1000))
	res := p.HTTP(context.Background(), "POST", fmt.Sprintf("/halt?name=%s&id=%d", h.name, lockID), map[string]string{"Litefs-Id": remoteID}, nil, false)
	if res.Code != 200 {
		r.Inconclusive("halt lock: %d %s", res.Code, res.Body)
		return
	}
	steps := t.Range(3, 8)
	for i := 0; i < steps && !r.Failed(); i++ {
		r.Step()
		cur := db.Pos()
		if !c06Commits(r, hd, t, 1, nil) {
			return
		}
		ddb := donor.Store.DB(h.name)
		if ddb.Pos() == cur {
			continue // five rolled-back programs in a row: nothing to offer
		}
		if ddb.Pos().TXID != cur.TXID+1 {
			r.Inconclusive("donor out of step: %s vs %s", ddb.Pos(), cur)
			return
		}
		good, err := os.ReadFile(ddb.LTXPath(cur.TXID+1, cur.TXID+1))
		if err != nil {
			r.Inconclusive("read ltx: %v", err)
			return
		}
		post := func(body []byte) HTTPResult {
			return p.HTTP(context.Background(), "POST", fmt.Sprintf("/tx?name=%s&lockID=%d", h.name, lockID), map[string]string{"Litefs-Id": remoteID}, bytes.NewReader(body), false)
		}
		if t.Chance(1, 2) {
			bad, class := c06BadFile(r, t, good, cur, h.pageSize)
			if bad != nil {
				before := digestDB(db)
				res := post(bad)
				if !r.Check(!res.Panicked, "c06.panic", "offered %s file to /tx: handler panicked: %s", class, res.PanicMsg) {
					return
				}
				if !r.Check(!p.Exited, "c06.exit", "offered %s file to /tx: the primary stopped (Exit %d)", class, p.ExitCode) {
					return
				}
				after := digestDB(db)
				r.Check(res.Code != 200, "c06.bad-accepted", "offered %s file to /tx at %s was accepted", class, cur)
				if !r.Check(before == after, "c06.bad-changed", "offered %s file to /tx (answer %d) changed the primary:\n before %s\n after  %s", class, res.Code, before, after) {
					return
				}
				r.Count("c06.bad-refused")
				r.State("offered/tx/%s", class)
			}
		}
		res := post(good)
		if !r.Check(res.Code == 200 && !res.Panicked, "c06.good-refused", "the valid next file was refused by /tx at %s: %d %s", cur, res.Code, strings.TrimSpace(string(res.Body))) {
			return
		}
		r.Check(db.Pos() == ddb.Pos(), "c06.good-refused", "after the valid file the position is %s, want %s", db.Pos(), ddb.Pos())
		pim, _ := ReadDiskImage(p.Store.DBPath(h.name))
		if d := DiffImages(pim, hd.ref); d != "" {
			r.Failf("c06.identical", "primary after forwarded file differs from the donor's image: %s", d)
		}
		r.Count("c06.offered")
	}
	hd.closeConns()
}

// c06Cluster: the multi-node fault simulation with the apply monitor on every
// node (all orders of primary change and reconnect the scheduler produces).
func c06Cluster(r *Run) {
	t := r.Tape
	cs := newClusterSim(r, 2+t.Next(2), "c06")
	cs.wantTx = t.Range(4, 10)
	for _, n := range cs.cl.Nodes {
		n.PreOpen = func(n *Node) { installApplyMonitor(r, n, "c06") }
	}
	if !cs.openAll() {
		return
	}
	wt := t.Fork()
	cs.goActor("writer", func() { cs.writerLoop(wt) })
	faultW := []int{1, 3}[t.Next(2)]
	for step := 0; step < 3000 && !r.Failed(); step++ {
		cs.handleExits()
		cs.mu.Lock()
		done := cs.commits >= cs.wantTx
		cs.mu.Unlock()
		if done {
			break
		}
		cs.s.StepOnce(cs.faultActions(faultW), true)
	}
	if r.Failed() {
		return
	}
	cs.heal()
	if !cs.quiesce() {
		return
	}
	cs.settle(120 * time.Second)
	if r.Failed() {
		return
	}
	cs.audit()
	r.State("cluster/%d/faults%d", len(cs.cl.Nodes), faultW)
}

// c06PrimaryRestored: the history that changes is the primary's own. The
// primary has a backup service; a replica follows it over an open stream and is
// caught up (or a little behind). The service then holds another history of the
// database (a fork from nothing, or a continuation of an earlier state of the
// primary that the primary itself did not take) and the next backup sync makes
// the primary adopt the service's snapshot. The replica's position is now not
// on the primary's history - higher or equal transaction id with another
// checksum, or lower but on the old branch: without any further commit it has
// to receive a snapshot and end byte-identical to the primary at the primary's
// position; no incremental file may be applied on top of its old data; and it
// follows the primary's next commits.
func c06PrimaryRestored(r *Run) {
	t := r.Tape
	compress := t.Chance(1, 2)
	pr := newPair(r, compress, 0)
	dir := filepath.Join(r.Dir, "backup")
	bc := litefs.NewFileBackupClient(dir)
	if err := bc.Open(); err != nil {
		r.Inconclusive("backup open: %v", err)
		return
	}
	svc := &c14file{dir: dir, c: bc}
	pr.p.PreOpen = func(n *Node) { n.Store.BackupClient = bc }
	pr.p.Cfg.Tune = func(s *litefs.Store) {
		s.ReconnectDelay = 20 * time.Millisecond
		s.BackupDelay = 0 // syncs are explicit
		s.RetentionMonitorInterval = 0
	}
	pr.rep.PreOpen = func(n *Node) { installApplyMonitor(r, n, "c06") }
	if !pr.open() {
		return
	}
	h := &hist{r: r, n: pr.p, name: "db"}
	h.pageSize = []uint32{512, 1024, 4096}[t.Next(3)]
	h.jmode = []string{ModeDelete, ModeTruncate, ModePersist}[t.Next(3)]
	h.maxPages = 16
	if !h.openConns(1) {
		return
	}
	commits := func(n int) bool {
		for i := 0; i < n && !r.Failed(); i++ {
			h.commit(t)
		}
		return !r.Failed()
	}
	if !commits(t.Range(1, 5)) || h.ref.N() == 0 {
		return
	}
	ctx := context.Background()
	if t.Chance(1, 2) {
		// the service knows the primary's history so far
		h.closeConns()
		if err := pr.p.Store.SyncBackup(ctx); err != nil {
			r.Inconclusive("first sync: %v", err)
			return
		}
		if !h.openConns(1) {
			return
		}
	}
	// the other history: built now (branching here) or from nothing
	fork := t.Chance(1, 2)
	h.closeConns()
	names, data, ok := c14DonorFiles(r, t, h, compress, t.Range(0, 3), fork)
	if !ok {
		r.Count("c06.restored.no-donor") // (every drawn program of the other history rolled back)
		return
	}
	if !h.openConns(1) {
		return
	}
	// the primary goes its own way; the replica follows
	if !commits(t.Range(0, 7)) {
		return
	}
	behind := t.Chance(1, 4)
	if !behind && !pr.waitReplica(h.name, 20*time.Second) {
		r.Failf("c06.follow", "the replica did not reach the primary's position %s in 20 s (it is at %s)", posOf(pr.p, h.name), posOf(pr.rep, h.name))
		return
	}
	repBefore, priBefore := posOf(pr.rep, h.name), posOf(pr.p, h.name)
	// the service now holds the other history
	svc.wipe(h.name)
	for k := range names {
		svc.put(h.name, names[k], data[k])
	}
	spos, sIm, msg := c14chain(names, data)
	if msg != "" {
		r.Inconclusive("donor chain: %s", msg)
		return
	}
	h.closeConns()
	if err := pr.p.Store.SyncBackup(ctx); err != nil {
		r.Inconclusive("sync: %v", err)
		return
	}
	if r.Failed() {
		return
	}
	if pr.p.Exited || pr.rep.Exited {
		r.Failf("c06.exit", "a node stopped when the primary was restored from its backup service (primary exited=%v, replica exited=%v)", pr.p.Exited, pr.rep.Exited)
		return
	}
	ppos := posOf(pr.p, h.name)
	if ppos != spos {
		// no restore happened (the service could be extended after all)
		r.Count("c06.restored.not-restored")
		return
	}
	rel := "higher"
	switch {
	case repBefore.TXID == ppos.TXID:
		rel = "equal-id"
	case repBefore.TXID < ppos.TXID:
		rel = "lower"
	}
	r.Count("c06.forced-snapshot")
	r.Count("c06.restored." + rel)
	r.Logf("primary restored %s -> %s; replica was at %s (%s)", priBefore, ppos, repBefore, rel)
	if !waitPos(pr.rep, h.name, ppos, 30*time.Second) {
		r.Failf("c06.primary-restored", "the primary adopted its backup service's snapshot (%s -> %s) while the replica, at %s on the primary's former history, had an open stream; 30 s later and without a new commit the replica is still at %s: it has not been given a snapshot of the primary's state", priBefore, ppos, repBefore, posOf(pr.rep, h.name))
		return
	}
	if rdb := pr.rep.Store.DB(h.name); rdb != nil {
		disk, err := ReadDiskImage(rdb.Path())
		if r.Check(err == nil, "c06.read", "%v", err) {
			if d := DiffImages(disk, sIm); d != "" {
				r.Failf("c06.primary-restored-image", "after the primary was restored to %s the replica reports that position but its database differs from the primary's: %s", ppos, d)
				return
			}
		}
	}
	// and it keeps following
	h.ref, h.wal = sIm, false
	if sIm.N() > 0 {
		hh, _, _ := decodeDBHeader(sIm.Pages[0])
		h.wal = hh.WAL
	}
	if !h.openConns(1) {
		return
	}
	if !commits(t.Range(1, 3)) {
		return
	}
	if !pr.waitReplica(h.name, 20*time.Second) {
		r.Failf("c06.primary-restored-follow", "after the primary was restored to %s and committed again the replica did not reach its position %s (it is at %s)", ppos, posOf(pr.p, h.name), posOf(pr.rep, h.name))
		return
	}
	h.closeConns()
	if rdb := pr.rep.Store.DB(h.name); rdb != nil {
		disk, err := ReadDiskImage(rdb.Path())
		if err == nil && h.ref != nil && !h.wal {
			if d := DiffImages(disk, h.ref); d != "" {
				r.Failf("c06.primary-restored-image", "after the restore and %s the replica's database differs from the primary's: %s", posOf(pr.p, h.name), d)
			}
		}
	}
	r.State("restored/%s/%v/%v", rel, fork, behind)
}
