package verifsim

import (
	"bytes"
	"context"
	"encoding/binary"
	"fmt"
	"os"
	"strings"
	"sync"
	"syscall"
	"time"

	"github.com/superfly/litefs"
	"github.com/superfly/ltx"
)

func init() {
	register(&CheckDef{
		ID:    "C07",
		Level: "exploration",
		Rule:  "three seeded scenarios over real Stores. (1) replica matrix: a real replica following a real primary (rollback or WAL mode, connected, or with the primary gone) receives seeded sequences of every application-level mutation - whole PagerSim journal and WAL transactions of every shape, and single operations issued out of protocol at every lock state (none, SHARED, RESERVED/EXCLUSIVE attempt): database page write inside/beyond the file, database truncate and unlink, journal create/write/truncate/unlink, WAL write/truncate/unlink, POST /import. Every such operation must return an error (EACCES for page, journal and WAL writes) and the digest of position, raw image and ltx listing must be unchanged; the replica must still follow the primary afterwards. (2) authority loss: a real primary on the simulated lease service runs a PagerSim transaction; at a seeded SQLite file-operation boundary it is demoted or its lease session is expired and the harness waits until the node reports it is no longer primary; the transaction continues. If authority was lost before the commit step began nothing may be published (position and ltx listing unchanged) and after LiteFS's own recovery the raw database equals the last committed image. (3) the multi-node fault simulation with a publication monitor on every node: a local commit file (COMMITJOURNAL/COMMITWAL/DROP/IMPORT) must not be renamed into the log during a SQLite operation that started when the node had no write authority. evaluations = operations issued on non-writable nodes + transactions cut by a loss; distinct = distinct (scenario, mode, lock state, operation, errno) tuples; non-trivial = run with >= 1 refused mutation or >= 1 loss inside a transaction",
		Run:   runC07,
		NonTrivial: func(r *Run) bool {
			return r.Stats["c07.refused"]+r.Stats["c07.loss.in-tx"]+r.Stats["c07.monitor.commit-ok"] > 0
		},
		Assumptions: []string{"loss moments in scenario 2 are SQLite file-operation boundaries; moments inside a LiteFS handler are produced by the scheduler in scenario 3", "write authority as the node itself sees it (Store.IsPrimary or a remote halt lock), not as the lease service sees it"},
		Real:        []string{"fuse handlers (Write, Setattr, Create, Remove, Fsync, Lock), DB.Writeable gates, CommitJournal/CommitWAL re-checks, Store.Demote, lease monitor, state-change recovery, http /import"},
		Stub:        []string{"SimKernel", "PagerSim", "SimNet", "SimLease"},
	})
}

func runC07(r *Run) {
	switch r.Tape.Pick([]int{5, 4, 2}) {
	case 0:
		r.Cfg["scenario"] = "replica-matrix"
		c07Replica(r)
	case 1:
		r.Cfg["scenario"] = "authority-loss"
		c07Loss(r)
	default:
		r.Cfg["scenario"] = "cluster"
		c07Cluster(r)
	}
}

// c07Digest is what a refused operation must leave unchanged: position, raw
// image, transaction log listing (not the lock table).
func c07Digest(n *Node, name string) string {
	db := n.Store.DB(name)
	if db == nil {
		return "absent"
	}
	var sb strings.Builder
	fmt.Fprintf(&sb, "pos=%s", db.Pos())
	if im, err := ReadDiskImage(db.Path()); err == nil {
		fmt.Fprintf(&sb, " img=%d/%016x", im.N(), im.Checksum())
	} else {
		fmt.Fprintf(&sb, " img-err=%v", err)
	}
	files, _, _ := ListLTX(db.LTXDir())
	fmt.Fprintf(&sb, " ltx=%v", files)
	return sb.String()
}

func c07Replica(r *Run) {
	t := r.Tape
	pr := newPair(r, t.Chance(1, 2), 0)
	if !pr.open() {
		return
	}
	h := &hist{r: r, n: pr.p, name: "db"}
	h.pageSize = []uint32{512, 1024, 4096}[t.Next(3)]
	h.jmode = []string{ModeDelete, ModeTruncate, ModePersist}[t.Next(3)]
	h.maxPages = 30
	wal := t.Chance(1, 2)
	r.Cfg["page_size"], r.Cfg["jmode"], r.Cfg["wal"] = h.pageSize, h.jmode, wal
	if !h.openConns(1) {
		return
	}
	if !c06Commits(r, h, t, t.Range(1, 4), nil) || h.ref.N() == 0 {
		return
	}
	if wal {
		if !h.toWAL() {
			return
		}
		c06Commits(r, h, t, t.Range(1, 3), nil)
	}
	if r.Failed() {
		return
	}
	if !r.Check(pr.waitReplica(h.name, 10*time.Second), "c07.setup", "replica did not follow") {
		return
	}
	primaryGone := t.Chance(1, 4)
	r.Cfg["primary_gone"] = primaryGone
	if primaryGone {
		h.closeConns()
		pr.net.Partition(pr.p.ID, pr.rep.ID, true)
		time.Sleep(200 * time.Millisecond)
	}
	rep := pr.rep
	mode := "journal"
	if wal {
		mode = "wal"
	}
	nops := t.Range(4, 16)
	for i := 0; i < nops && !r.Failed(); i++ {
		r.Step()
		before := c07Digest(rep, h.name)
		desc, errno, mustEACCES, mustFail := c07Op(r, rep, h, t, wal)
		after := c07Digest(rep, h.name)
		r.Logf("op %d: %s => %v", i, desc, errno)
		if !r.Check(!rep.Exited, "c07.exit", "%s: the replica stopped (Exit %d)", desc, rep.ExitCode) {
			return
		}
		if !r.Check(before == after, "c07.changed", "%s on a replica (answer: %v) changed the database:\n before %s\n after  %s", desc, errno, before, after) {
			return
		}
		if mustFail {
			if !r.Check(errno != 0, "c07.not-refused", "%s on a replica succeeded", desc) {
				return
			}
			r.Count("c07.refused")
		}
		if mustEACCES && errno != 0 {
			r.Check(errno == syscall.EACCES, "c07.errno", "%s on a replica fails with %v (%d), want a read-only permission error (EACCES)", desc, errno, int(errno))
		}
		r.State("replica/%s/%s/%v", mode, strings.SplitN(desc, " ", 2)[0], errno)
	}
	if r.Failed() {
		return
	}
	// the replica still follows the primary and is byte-identical
	if primaryGone {
		pr.net.HealAll()
		if !h.openConns(1) {
			return
		}
	}
	if c06Commits(r, h, t, 1, nil) {
		np := h.db().Pos()
		if r.Check(waitPos(rep, h.name, np, 15*time.Second), "c07.follow", "after the refused operations the replica does not follow the primary to %s (it is at %s)", np, posOf(rep, h.name)) {
			rim, _ := ReadDiskImage(rep.Store.DBPath(h.name))
			if d := DiffImages(rim, h.ref); d != "" {
				r.Failf("c07.follow", "replica differs from the primary at %s: %s", np, d)
			}
		}
	}
	h.closeConns()
}

// c07Op issues one mutation on the replica and returns what happened.
func c07Op(r *Run, rep *Node, h *hist, t *Tape, wal bool) (desc string, errno syscall.Errno, mustEACCES, mustFail bool) {
	k := rep.K
	name := h.name
	ps := int64(h.pageSize)
	c := rep.NewConn(name, h.jmode, h.pageSize)
	if e := c.Open(); e != 0 {
		return "open-db", e, false, false
	}
	defer c.Close()
	cur, _ := ReadDiskImage(rep.Store.DBPath(name))
	// lock state the operation is issued in
	lock := t.Next(3)
	lockName := []string{"nolock", "shared", "reserved"}[lock]
	if lock >= 1 {
		if e := c.LockShared(); e != 0 {
			lockName = "shared-refused"
		}
	}
	if lock == 2 {
		if e := c.LockReserved(); e != 0 {
			lockName = "reserved-refused"
		}
	}
	defer func() {
		if c.dbf != nil {
			c.UnlockAll()
		}
	}()
	page := func(pg uint32) []byte {
		hdr := DBHeader{WAL: wal, ChangeCounter: 77, SizePages: maxU32(cur.N(), pg)}
		return MakePage(h.pageSize, c.ID, 9000, pg, 7, &hdr)
	}
	switch t.Next(13) {
	case 0: // whole journal-mode transaction
		if wal {
			if e := c.WalOpen(); e != 0 {
				return "wal-open " + lockName, e, false, false
			}
			prog := GenWalProgram(t, cur.N(), h.maxPages)
			prog.Outcome = OutCommit
			res := c.WalWriteTx(prog, cur)
			if res.Outcome == OutCommit {
				return "wal-transaction " + lockName, 0, false, true
			}
			e := res.Errno
			if e == 0 {
				e = syscall.EBUSY
			}
			return "wal-transaction(" + res.FailedAt + ") " + lockName, e, false, true
		}
		c.UnlockAll()
		prog := GenProgram(t, cur.N(), h.maxPages, LockPgno(h.pageSize))
		prog.Outcome = OutCommit
		res := c.WriteTx(prog, cur)
		if res.Outcome == OutCommit {
			return "journal-transaction", 0, false, true
		}
		e := res.Errno
		if e == 0 {
			e = syscall.EBUSY
		}
		return "journal-transaction(" + res.FailedAt + ")", e, false, true
	case 1:
		pg := uint32(t.Range(1, int(cur.N())))
		return fmt.Sprintf("db-write-page %s", lockName), c.dbf.Pwrite(int64(pg-1)*ps, page(pg)), true, true
	case 2:
		pg := cur.N() + uint32(t.Range(1, 3))
		return fmt.Sprintf("db-write-beyond %s", lockName), c.dbf.Pwrite(int64(pg-1)*ps, page(pg)), true, true
	case 3:
		return fmt.Sprintf("db-write-unaligned %s", lockName), c.dbf.Pwrite(int64(t.Range(1, 100)), []byte{1, 2, 3, 4}), false, true
	case 4:
		sz := int64(t.Next(int(cur.N()))) * ps
		return fmt.Sprintf("db-truncate %s", lockName), c.dbf.Truncate(sz), false, true
	case 5:
		return fmt.Sprintf("db-grow %s", lockName), c.dbf.Truncate(int64(cur.N()+2) * ps), false, true
	case 6:
		c.UnlockAll()
		c.Close()
		return "db-unlink", k.Unlink(name), false, true
	case 7:
		f, e := k.Open(name+"-journal", os.O_RDWR|os.O_CREATE, c.Owner)
		if e == 0 {
			// creation went through: a write must not
			hdrb := c.journalHeader(&jstate{nonce: 1, origSize: cur.N()}, false)
			e2 := f.Pwrite(0, hdrb)
			f.Close()
			k.Unlink(name + "-journal")
			if e2 == 0 {
				return fmt.Sprintf("journal-create+write %s", lockName), 0, true, true
			}
			return fmt.Sprintf("journal-create %s", lockName), 0, false, true
		}
		return fmt.Sprintf("journal-create %s", lockName), e, false, true
	case 8:
		return fmt.Sprintf("journal-unlink %s", lockName), k.Unlink(name + "-journal"), false, true
	case 9:
		return fmt.Sprintf("journal-truncate %s", lockName), k.TruncatePath(name+"-journal", 0), false, true
	case 10:
		f, e := k.Open(name+"-wal", os.O_RDWR|os.O_CREATE, c.Owner)
		if e != 0 {
			return fmt.Sprintf("wal-open %s", lockName), e, false, false
		}
		defer f.Close()
		wh := make([]byte, 32)
		binary.BigEndian.PutUint32(wh[0:], 0x377f0682)
		binary.BigEndian.PutUint32(wh[4:], 3007000)
		binary.BigEndian.PutUint32(wh[8:], h.pageSize)
		binary.BigEndian.PutUint32(wh[16:], 5)
		binary.BigEndian.PutUint32(wh[20:], 6)
		s0, s1 := walCksum(false, 0, 0, wh[:24])
		binary.BigEndian.PutUint32(wh[24:], s0)
		binary.BigEndian.PutUint32(wh[28:], s1)
		return fmt.Sprintf("wal-write %s", lockName), f.Pwrite(0, wh), true, true
	case 11:
		if t.Chance(1, 2) {
			return fmt.Sprintf("wal-truncate %s", lockName), k.TruncatePath(name+"-wal", 0), false, false
		}
		return fmt.Sprintf("wal-unlink %s", lockName), k.Unlink(name + "-wal"), false, false
	default:
		c.UnlockAll()
		c.Close()
		im := MakeImage(h.pageSize, uint32(t.Range(1, 5)), wal, 55)
		res := rep.HTTP(context.Background(), "POST", "/import?name="+name, nil, bytes.NewReader(im.Bytes()), false)
		if res.Panicked {
			r.Failf("c07.panic", "POST /import on a replica panicked: %s", res.PanicMsg)
		}
		if res.Code == 200 {
			return "import", 0, false, true
		}
		return "import", syscall.EROFS, false, true
	}
}

// pubMonitor is the scenario-3 monitor: the write authority a node had when a
// SQLite file operation started, per goroutine, checked when a local commit
// file is renamed into the log during that operation.
type pubMonitor struct {
	mu sync.Mutex
	m  map[uint64]bool
}

// nodeWritable: does the node have write authority right now? With a lease
// service in the run the answer does not come from LiteFS's own flag: a node
// that has closed (given back) every lease it was handed has none, whatever
// Store.IsPrimary() still says.
func nodeWritable(n *Node) bool {
	if n.Store == nil {
		return false
	}
	if n.Store.IsPrimary() {
		if sl, ok := n.Cfg.Leaser.(*SimLeaser); ok {
			if !sl.svc.HoldsUnclosedLease(n.ID) {
				n.r.Count("c07.monitor.primary-flag-without-lease")
				return false
			}
		}
		return true
	}
	for _, db := range n.Store.DBs() {
		if db.HasRemoteHaltLock() {
			return true
		}
	}
	return false
}

func installPubMonitor(r *Run, n *Node, oracle string) {
	pm := &pubMonitor{m: map[uint64]bool{}}
	prevOp := n.K.OnOp
	n.K.OnOp = func(detail string) {
		if prevOp != nil {
			prevOp(detail)
		}
		w := nodeWritable(n)
		pm.mu.Lock()
		pm.m[goid()] = w
		pm.mu.Unlock()
	}
	prev := n.OS.Hook
	n.OS.Hook = func(phase, call, op, path string) {
		if prev != nil {
			prev(phase, call, op, path)
		}
		if phase != "pre" || call != "rename" {
			return
		}
		switch op {
		case "COMMITJOURNAL:LTX", "COMMITWAL:LTX", "DROP:LTX", "IMPORTTOLTX":
		default:
			return
		}
		pm.mu.Lock()
		w, ok := pm.m[goid()]
		pm.mu.Unlock()
		if !ok {
			return
		}
		if w {
			r.Count("c07.monitor.commit-ok")
			return
		}
		r.Failf(oracle+".published", "%s publishes %s (%s) although it had no write authority when the SQLite operation started", n.Name, path[strings.LastIndex(path, "/dbs/")+1:], op)
	}
}

func c07Cluster(r *Run) {
	t := r.Tape
	cs := newClusterSim(r, 2+t.Next(2), "c07")
	cs.wantTx = t.Range(4, 10)
	// on the mutex-instrumented binary half of the runs are also interleaved at
	// (every, every third or every tenth of) LiteFS's mutex acquisitions
	if MutexYieldBuilt && t.Chance(1, 2) {
		r.MutexSeam, r.MutexEvery = true, []int{1, 3, 10}[t.Next(3)]
	}
	r.Cfg["mutex_seam"], r.Cfg["mutex_every"] = r.MutexSeam, r.MutexEvery
	for _, n := range cs.cl.Nodes {
		n.PreOpen = func(n *Node) { installPubMonitor(r, n, "c07") }
	}
	if !cs.openAll() {
		return
	}
	wt := t.Fork()
	cs.goActor("writer", func() { cs.writerLoop(wt) })
	faultW := []int{2, 4}[t.Next(2)]
	for step := 0; step < 3000 && !r.Failed(); step++ {
		cs.handleExits()
		cs.mu.Lock()
		done := cs.commits >= cs.wantTx
		cs.mu.Unlock()
		if done {
			break
		}
		// authority changes only: demotions, lease expiry, partitions, stream resets
		var acts []Action
		for _, a := range cs.faultActions(faultW) {
			if !strings.HasPrefix(a.Name, "crash") && !strings.HasPrefix(a.Name, "restart") {
				acts = append(acts, a)
			}
		}
		cs.s.StepOnce(acts, true)
	}
	if r.Failed() {
		return
	}
	cs.heal()
	if !cs.quiesce() {
		return
	}
	cs.settle(120 * time.Second)
	if r.Failed() {
		return
	}
	cs.audit()
	r.State("cluster/%d/faults%d", len(cs.cl.Nodes), faultW)
}

// c07Loss: scenario 2.
func c07Loss(r *Run) {
	t := r.Tape
	svc := NewSimLease(r, 2*time.Second, 0)
	n := r.NewNode(NodeCfg{Candidate: true, Compress: t.Chance(1, 2)})
	n.Cfg.Leaser = svc.Leaser(n)
	n.Cfg.Tune = func(s *litefs.Store) {
		s.ReconnectDelay = 50 * time.Millisecond
		s.DemoteDelay = 500 * time.Millisecond
	}
	if err := n.Open(); err != nil || !n.WaitPrimary(10*time.Second) {
		r.Inconclusive("open: %v", err)
		return
	}
	h := &hist{r: r, n: n, name: "db"}
	h.pageSize = []uint32{512, 1024, 4096}[t.Next(3)]
	h.jmode = []string{ModeDelete, ModeTruncate, ModePersist}[t.Next(3)]
	h.maxPages = 30
	wal := t.Chance(1, 2)
	how := []string{"demote", "expire"}[t.Next(2)]
	r.Cfg["page_size"], r.Cfg["jmode"], r.Cfg["wal"], r.Cfg["how"] = h.pageSize, h.jmode, wal, how
	if !h.openConns(1) {
		return
	}
	if !c06Commits(r, h, t, t.Range(1, 3), nil) || h.ref.N() == 0 {
		return
	}
	if wal {
		if !h.toWAL() {
			return
		}
		c06Commits(r, h, t, t.Range(0, 2), nil)
	}
	if r.Failed() {
		return
	}
	db := h.db()
	before := db.Pos()
	beforeRef := h.ref
	filesBefore, _, _ := ListLTX(db.LTXDir())

	// the loss fires at the B-th SQLite file operation of the transaction
	B := t.Range(1, 40)
	ops := 0
	lostAtOp := -1
	var posAtLoss ltx.Pos
	var commitOpsAfterLoss []string
	n.K.OnOp = func(detail string) {
		ops++
		if ops == B && lostAtOp < 0 {
			switch how {
			case "demote":
				n.Store.Demote()
			default:
				if _, id := svc.Holder(); id != "" {
					svc.ForceExpire(id)
				}
			}
			deadline := time.Now().Add(20 * time.Second)
			for n.Store.IsPrimary() && time.Now().Before(deadline) {
				time.Sleep(10 * time.Millisecond)
			}
			if n.Store.IsPrimary() {
				r.Count("c07.loss.not-observed")
				return
			}
			lostAtOp = ops
			posAtLoss = db.Pos()
			// out-of-protocol probes on the descriptors the transaction holds:
			// page, journal and WAL writes are refused from now on
			hook := n.K.OnOp
			n.K.OnOp = nil
			pc := h.conns[0]
			probe := func(what string, e syscall.Errno) {
				r.Count("c07.refused")
				r.Check(e == syscall.EACCES, "c07.errno", "%s right after write authority was lost (%s) returns %v (%d), want a read-only permission error (EACCES)", what, how, e, int(e))
				r.State("loss-probe/%s/%v", what, e)
			}
			if pc.jf != nil {
				sz, _ := pc.jf.Size()
				probe("journal-write", pc.jf.Pwrite(sz, []byte{0, 0, 0, 9}))
			}
			if pc.wal != nil && pc.wal.walf != nil {
				sz, _ := pc.wal.walf.Size()
				probe("wal-write", pc.wal.walf.Pwrite(sz, make([]byte, 24+int(h.pageSize))))
			}
			if pc.dbf != nil {
				probe("db-write-page", pc.dbf.Pwrite(0, append([]byte(nil), beforeRef.Pages[0]...)))
			}
			n.K.OnOp = hook
			r.Count("c07.loss.in-tx")
			r.Logf("write authority lost (%s) before SQLite operation %d: %s", how, ops, detail)
		}
		if lostAtOp >= 0 {
			commitOpsAfterLoss = append(commitOpsAfterLoss, opClass(detail))
		}
	}
	c := h.conns[0]
	var res TxResult
	var prog string
	if h.wal {
		p := GenWalProgram(t, h.ref.N(), h.maxPages)
		p.Outcome = OutCommit
		res = c.WalWriteTx(p, h.ref)
		prog = fmt.Sprintf("wal %d->%d", h.ref.N(), p.NewSize)
	} else {
		c.Mode = h.jmode
		p := GenProgram(t, h.ref.N(), h.maxPages, LockPgno(h.pageSize))
		p.Outcome = OutCommit
		res = c.WriteTx(p, h.ref)
		prog = fmt.Sprintf("journal %d->%d spill=%d", h.ref.N(), p.NewSize, len(p.SpillAt))
	}
	n.K.OnOp = nil
	r.Logf("transaction %s: %s at %q (%v); ops=%d lost at %d", prog, res.Outcome, res.FailedAt, res.Errno, ops, lostAtOp)
	if n.Exited {
		// CommitWAL cannot make SQLite roll back (the commit is the release of
		// the write lock), so by design it stops the process when the node lost
		// write authority; restart recovery drops the unpublished frames. That
		// is a refusal. Anything else that stops the node is not.
		if !r.Check(h.wal && lostAtOp >= 0 && n.ExitCode == 99, "c07.exit", "the node stopped (Exit %d) in transaction %s (%s at %q)", n.ExitCode, prog, res.Outcome, res.FailedAt) {
			return
		}
		r.Count("c07.loss.wal-exit")
		h.closeConns()
		n.Close()
		if err := n.RestartFrom(n.ExitImage); err != nil {
			r.Failf("c07.restart", "restart after the refused WAL commit failed: %v", err)
			return
		}
		db = n.Store.DB(h.name)
		if !r.Check(db != nil, "c07.restart", "database missing after restart") {
			return
		}
		r.Check(db.Pos() == posAtLoss, "c07.published", "after the refused WAL commit and a restart the position is %s, it was %s when write authority was lost", db.Pos(), posAtLoss)
		if posAtLoss == before {
			disk, err := ReadDiskImage(n.Store.DBPath(h.name))
			if r.Check(err == nil, "c07.recovered", "read: %v", err) {
				if d := DiffImages(disk.LogicalCut(), beforeRef); d != "" {
					r.Failf("c07.recovered", "after the refused WAL commit and a restart the database is not the committed image at %s: %s", before, d)
				}
			}
		}
		r.State("loss/%s/wal-exit", how)
		return
	}
	if lostAtOp < 0 {
		// the transaction ended before the B-th operation: an ordinary commit
		r.Check(res.Outcome == OutCommit, "hist.commit-refused", "commit refused at %s: %v", res.FailedAt, res.Errno)
		r.State("loss/none")
		h.closeConns()
		return
	}
	after := db.Pos()
	r.State("loss/%s/wal%v/%s/%s", how, wal, res.Outcome, res.FailedAt)
	// Authority was lost before operation lostAtOp started, i.e. before any
	// commit step that a later operation triggers.
	if res.Outcome == OutCommit {
		// SQLite believes it committed: only legal if LiteFS published it, and
		// LiteFS may only have published it if the commit step began before the
		// loss - impossible here unless the loss fell after the last operation.
		r.Check(after != before, "c07.phantom-commit", "SQLite's %s commit was acknowledged without an error but nothing was published (position stays %s)", prog, before)
	}
	if after != posAtLoss {
		r.Failf("c07.published", "transaction %s: write authority was lost (%s) before SQLite operation %d of %d at position %s, yet the position moved to %s afterwards (operations after the loss: %v)", prog, how, lostAtOp, ops, posAtLoss, after, commitOpsAfterLoss)
		return
	}
	if posAtLoss != before {
		// the commit step ran before the loss: an ordinary commit
		r.Count("c07.loss.after-commit")
		r.State("loss/after-commit")
		if res.Outcome == OutCommit {
			h.ref = res.After
		}
		h.closeConns()
		return
	}
	filesAfter, _, _ := ListLTX(db.LTXDir())
	r.Check(fmt.Sprint(filesBefore) == fmt.Sprint(filesAfter), "c07.published", "transaction %s cut by a %s: ltx listing changed %v -> %v", prog, how, filesBefore, filesAfter)
	// after LiteFS's own recovery the database is the committed image again
	h.closeConns()
	ok := false
	var last string
	deadline := time.Now().Add(30 * time.Second)
	for time.Now().Before(deadline) {
		disk, err := ReadDiskImage(n.Store.DBPath(h.name))
		jb, _ := os.ReadFile(n.Store.DBPath(h.name) + "/journal")
		hot := len(jb) >= 8 && bytes.Equal(jb[:8], journalMagic)
		if err == nil && !hot {
			if last = DiffImages(disk.LogicalCut(), beforeRef); last == "" {
				ok = true
				break
			}
		} else if hot {
			last = "hot journal still present"
		}
		time.Sleep(100 * time.Millisecond)
	}
	r.Check(ok, "c07.recovered", "30 s after the %s cut transaction %s the raw database is still not the committed image at %s: %s", how, prog, before, last)
	r.Check(db.Pos() == before, "c07.published", "position moved to %s during recovery", db.Pos())
	_ = ltx.Pos{}
}
