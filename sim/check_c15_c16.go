package verifsim

import (
	"bytes"
	"context"
	"fmt"
	"io"
	"os"
	"path/filepath"
	"strings"
	"time"

	"github.com/superfly/litefs"
	"github.com/superfly/ltx"
)

// pair is a primary and a replica (static lease) connected through SimNet,
// driven sequentially: the driver acts on the primary and waits (in simulated
// time) for the replica to follow.
type pair struct {
	r   *Run
	net *SimNet
	p   *Node
	rep *Node
}

func newPair(r *Run, compress bool, retention time.Duration) *pair {
	pr := &pair{r: r, net: NewSimNet(r)}
	tune := func(s *litefs.Store) {
		s.ReconnectDelay = 20 * time.Millisecond
		if retention > 0 {
			s.Retention = retention
		}
	}
	pr.p = r.NewNode(NodeCfg{Candidate: true, Compress: compress, Tune: tune})
	pr.p.Cfg.Leaser = litefs.NewStaticLeaser(true, pr.p.Name, pr.p.URL())
	pr.p.Cfg.Client = pr.net.Attach(pr.p)
	pr.rep = r.NewNode(NodeCfg{Candidate: false, Compress: compress, Tune: tune})
	pr.rep.Cfg.Leaser = litefs.NewStaticLeaser(false, pr.p.Name, pr.p.URL())
	pr.rep.Cfg.Client = pr.net.Attach(pr.rep)
	r.OnCleanup(func() {
		for _, c := range pr.net.LiveConns() {
			c.reset("teardown")
		}
	})
	return pr
}

func (pr *pair) open() bool {
	if err := pr.p.Open(); err != nil {
		pr.r.Inconclusive("open primary: %v", err)
		return false
	}
	if !pr.p.WaitPrimary(5 * time.Second) {
		pr.r.Inconclusive("primary not primary")
		return false
	}
	if err := pr.rep.Open(); err != nil {
		pr.r.Inconclusive("open replica: %v", err)
		return false
	}
	return true
}

// waitReplica waits until the replica reports the primary's position of db.
func (pr *pair) waitReplica(name string, d time.Duration) bool {
	db := pr.p.Store.DB(name)
	if db == nil {
		return true
	}
	return waitPos(pr.rep, name, db.Pos(), d)
}

// restartReplica restarts the replica (clean or crash) on its data directory.
func (pr *pair) restartReplica(crash bool, tag string) bool {
	if crash {
		img, err := pr.rep.Kill(tag)
		pr.net.ResetNode(pr.rep.ID)
		if err != nil {
			pr.r.Inconclusive("image: %v", err)
			return false
		}
		pr.rep.Close()
		if err := pr.rep.RestartFrom(img); err != nil {
			pr.r.Failf("pair.restart", "replica restart failed: %v", err)
			return false
		}
		return true
	}
	pr.net.ResetNode(pr.rep.ID)
	if err := pr.rep.Close(); err != nil {
		pr.r.Failf("pair.restart", "replica close failed: %v", err)
		return false
	}
	if err := pr.rep.Open(); err != nil {
		pr.r.Failf("pair.restart", "replica reopen failed: %v", err)
		return false
	}
	return true
}

func init() {
	register(&CheckDef{
		ID:    "C15",
		Level: "exploration",
		Rule:  "seeded histories on a primary with a replica attached through the simulated network: create / write / drop / recreate cycles (any number, rollback-journal and WAL mode, recreation with the same or a different page size), with the replica connected, disconnected during the drop (joins later), or restarted (clean or crash) around it; in a third of the cycles a node with an empty disk joins after the drop, from a primary that has or has not been restarted since. Oracle after every drop: the primary's position is previous+1 with exactly the empty checksum, database/journal/WAL/shm files are gone on the primary and - after convergence - on the replica, the name disappears from directory listings on both; after recreation the first commit has TXID drop+1, the log stays one chain, and the replica converges to the identical image. Crash points inside the drop are C05's tombstone shapes. evaluations = runs; distinct = distinct (mode, replica state at drop, recreate page-size relation, cycle count) tuples; non-trivial = run with >= 1 drop checked on both nodes",
		Run:   runC15,
		NonTrivial: func(r *Run) bool {
			return r.Stats["c15.drop.checked"] > 0
		},
		Assumptions: []string{"the kernel effect of LiteFS's NotifyDelete (dentries of -journal/-wal/-shm dropped) is applied by the simulated kernel itself because the unmounted FUSE server cannot observe it"},
		Real:        []string{"litefs.DB.Drop, ApplyLTXNoLock (tombstone), Store.CreateDB re-use, fuse.RootNode.Remove/Create/ReadDirAll, http stream"},
		Stub:        []string{"SimKernel", "PagerSim", "SimNet"},
	})
	register(&CheckDef{
		ID:    "C16",
		Level: "exploration",
		Rule:  "seeded images (every page size, 1..600 pages incl. checksum-block boundaries, rollback or WAL header, truncated and garbage inputs) imported over POST /import into an absent, empty, dropped or populated database (rollback or WAL mode, with committed un-checkpointed WAL frames or a leftover hot journal, same or different page size) on a primary with a replica; exports over GET /export. Oracle: a successful import is exactly one new TXID, the export equals the input except bytes 24..27 and 40..43 of page 1, the replica converges to the identical image and checksum; a failed import leaves image, position and log unchanged, does not stop the node, and a fresh Store still opens the directory; the export of an idle database equals the committed image of the position it is taken at. One run in five is two overlapping imports of one database (the first paused in the middle of its upload while it holds the write lock, the second queued behind it; same or different page sizes; new or existing database): each ends as it would have alone after the other, the node keeps running and restarts; one in eleven is an import that is waiting for the write lock (an application connection is in a write transaction) when the node is demoted: it is answered with an error, the handler does not panic, nothing changes. evaluations = imports+exports; distinct = distinct (target state, image class, outcome) tuples; non-trivial = run with >= 1 successful import verified on the replica",
		Run:   runC16,
		NonTrivial: func(r *Run) bool {
			return r.Stats["c16.import.ok"] > 0
		},
		Assumptions: []string{"requests go through the real API handler in-process"},
		Real:        []string{"litefs.DB.Import/importToLTX/Export, http handlers, replication of the import LTX"},
		Stub:        []string{"SimKernel", "PagerSim", "SimNet"},
	})
}

func fileExists(p string) bool {
	_, err := os.Stat(p)
	return err == nil
}

func runC15(r *Run) {
	t := r.Tape
	pr := newPair(r, t.Chance(1, 2), 0)
	if !pr.open() {
		return
	}
	h := &hist{r: r, n: pr.p, name: "db"}
	h.pageSize = []uint32{512, 1024, 4096}[t.Next(3)]
	h.jmode = []string{ModeDelete, ModeTruncate, ModePersist}[t.Next(3)]
	h.maxPages = 30
	r.Cfg["page_size"], r.Cfg["jmode"] = h.pageSize, h.jmode
	cycles := t.Range(1, 3)
	var log []string
	for cyc := 0; cyc < cycles && !r.Failed(); cyc++ {
		r.Step()
		if !h.openConns(1) {
			return
		}
		// create + write
		wal := t.Chance(1, 2)
		for i := 0; i < t.Range(1, 4); i++ {
			desc, _ := h.commit(t)
			log = append(log, desc)
			if r.Failed() {
				return
			}
		}
		if h.ref.N() == 0 {
			h.commit(t)
		}
		if wal && h.ref.N() > 0 {
			if !h.toWAL() {
				return
			}
			h.commit(t)
		}
		if r.Failed() || h.ref.N() == 0 {
			return
		}
		db := pr.p.Store.DB(h.name)
		// replica state at the time of the drop
		repState := []string{"connected", "lagging", "absent", "restarting"}[t.Next(4)]
		switch repState {
		case "connected":
			if !r.Check(pr.waitReplica(h.name, 5*time.Second), "c15.replicate", "replica did not reach %s before the drop", db.Pos()) {
				return
			}
			// replica-side image check before the drop
			disk, _ := ReadDiskImage(pr.rep.Store.DBPath(h.name))
			if d := DiffImages(disk, h.ref); d != "" {
				r.Failf("c15.replica-image", "replica image before the drop: %s", d)
				return
			}
		case "lagging":
			// no wait: the tombstone follows right behind the data
		case "absent":
			pr.net.Partition(pr.p.ID, pr.rep.ID, true)
		case "restarting":
			pr.waitReplica(h.name, 5*time.Second)
		}
		before := db.Pos()
		h.closeConns()
		if e := pr.p.K.Unlink(h.name); e != 0 {
			r.Failf("c15.drop", "unlink of the database on the primary failed: %v", e)
			return
		}
		log = append(log, "drop ("+repState+")")
		after := db.Pos()
		r.Check(after.TXID == before.TXID+1, "c15.drop-txid", "drop moved the position from %s to %s", before, after)
		r.Check(uint64(after.PostApplyChecksum) == checksumFlag, "c15.drop-checksum", "position after the drop has checksum %s, want 8000000000000000", after.PostApplyChecksum)
		for _, f := range []string{"database", "journal", "wal", "shm"} {
			r.Check(!fileExists(pr.p.Store.DBPath(h.name)+"/"+f), "c15.drop-files", "primary still has the %s file after the drop", f)
		}
		names, _ := pr.p.K.ReadDir()
		for _, nm := range names {
			r.Check(nm != h.name && nm != h.name+"-wal" && nm != h.name+"-journal" && nm != h.name+"-shm" && nm != h.name+"-pos", "c15.drop-listing", "primary still lists %q after the drop", nm)
		}
		if _, e := pr.p.K.Stat(h.name); e == 0 {
			r.Failf("c15.drop-listing", "primary: stat of the dropped database succeeds")
		}
		if msg := CheckChain(pr.p.Store.DBPath(h.name), after); msg != "" {
			r.Failf("c15.chain", "primary after the drop: %s", msg)
		}
		// the replica
		switch repState {
		case "absent":
			time.Sleep(time.Duration(t.Range(10, 500)) * time.Millisecond)
			pr.net.HealAll()
		case "restarting":
			if !pr.restartReplica(t.Chance(1, 2), fmt.Sprintf("c%d", cyc)) {
				return
			}
		}
		if !r.Check(waitPos(pr.rep, h.name, after, 10*time.Second), "c15.replica-drop", "replica (%s during the drop) did not reach the tombstone position %s", repState, after) {
			return
		}
		if t.Chance(1, 3) {
			// a replica that restarts after the drop must still not have the database
			if !pr.restartReplica(t.Chance(1, 2), fmt.Sprintf("r%d", cyc)) {
				return
			}
			if !r.Check(waitPos(pr.rep, h.name, after, 10*time.Second), "c15.replica-drop", "replica restarted after the drop reports a different position than %s", after) {
				return
			}
		}
		for _, f := range []string{"database", "journal", "wal", "shm"} {
			r.Check(!fileExists(pr.rep.Store.DBPath(h.name)+"/"+f), "c15.drop-files", "replica still has the %s file after the tombstone (%s)", f, repState)
		}
		rnames, _ := pr.rep.K.ReadDir()
		for _, nm := range rnames {
			r.Check(nm != h.name && nm != h.name+"-pos", "c15.drop-listing", "replica still lists %q after the tombstone", nm)
		}
		r.Check(!pr.rep.Exited && !pr.p.Exited, "c15.exit", "a node exited")
		r.Count("c15.drop.checked")
		// A node that joins afterwards with nothing on its disk needs a snapshot
		// of the dropped database - possibly from a primary that has itself been
		// restarted since the drop (and knows the database only from its log).
		if t.Chance(1, 3) && !r.Failed() {
			restarted := t.Chance(1, 2)
			if restarted {
				crash := t.Chance(1, 2)
				pr.net.ResetNode(pr.p.ID)
				if crash {
					img, err := pr.p.Kill(fmt.Sprintf("p%d", cyc))
					if err != nil {
						r.Inconclusive("image: %v", err)
						return
					}
					pr.p.Close()
					if err := pr.p.RestartFrom(img); err != nil {
						r.Failf("c15.primary-restart", "the primary does not restart after the drop: %v", err)
						return
					}
				} else {
					if err := pr.p.Close(); err != nil {
						r.Failf("c15.primary-restart", "closing the primary after the drop failed: %v", err)
						return
					}
					if err := pr.p.Open(); err != nil {
						r.Failf("c15.primary-restart", "the primary does not restart after the drop: %v", err)
						return
					}
				}
				pr.p.WaitPrimary(5 * time.Second)
				db = pr.p.Store.DB(h.name)
				if !r.Check(db != nil && db.Pos() == after, "c15.primary-restart", "the restarted primary is not at the tombstone position %s", after) {
					return
				}
			}
			blank := r.NewNode(NodeCfg{Candidate: false, Compress: pr.p.Cfg.Compress, Tune: pr.rep.Cfg.Tune})
			blank.Cfg.Leaser = litefs.NewStaticLeaser(false, pr.p.Name, pr.p.URL())
			blank.Cfg.Client = pr.net.Attach(blank)
			if err := blank.Open(); err != nil {
				r.Inconclusive("open blank replica: %v", err)
				return
			}
			ok := waitPos(blank, h.name, after, 10*time.Second)
			r.Check(ok, "c15.replica-drop", "a node that joined with an empty disk after the drop (primary restarted since: %v) did not reach the tombstone position %s", restarted, after)
			if ok {
				for _, f := range []string{"database", "journal", "wal", "shm"} {
					r.Check(!fileExists(blank.Store.DBPath(h.name)+"/"+f), "c15.drop-files", "the node that joined after the drop has a %s file", f)
				}
				r.Count("c15.drop.blank-join")
			}
			r.Check(!blank.Exited, "c15.exit", "the joining node exited")
			pr.net.ResetNode(blank.ID)
			blank.Fence()
			blank.Close()
			if r.Failed() {
				return
			}
			// the old replica follows the restarted primary again
			if !r.Check(waitPos(pr.rep, h.name, after, 10*time.Second), "c15.replica-drop", "after the primary's restart the replica is not at %s", after) {
				return
			}
		}
		// recreate (possibly with another page size)
		h.ref, h.wal = nil, false
		samePS := t.Chance(2, 3)
		if !samePS {
			h.pageSize = []uint32{512, 1024, 4096, 8192}[t.Next(4)]
		}
		r.State("%v/%s/samePS%v/cycle%d", wal, repState, samePS, cyc)
		if !h.openConns(1) {
			return
		}
		desc, ok := h.commit(t)
		for i := 0; !ok && i < 4 && !r.Failed(); i++ {
			desc, ok = h.commit(t)
		}
		log = append(log, "recreate: "+desc)
		if r.Failed() {
			return
		}
		if ok {
			np := db.Pos()
			r.Check(np.TXID == after.TXID+1, "c15.recreate-txid", "first commit after recreation has TXID %s, the tombstone was %s", np.TXID, after.TXID)
			if msg := CheckChain(pr.p.Store.DBPath(h.name), np); msg != "" {
				r.Failf("c15.chain", "primary after recreation: %s", msg)
			}
			if r.Check(pr.waitReplica(h.name, 10*time.Second), "c15.recreate-replicate", "replica did not follow the recreated database to %s", np) {
				disk, _ := ReadDiskImage(pr.rep.Store.DBPath(h.name))
				if d := DiffImages(disk, h.ref); d != "" {
					r.Failf("c15.replica-image", "replica image after recreation: %s", d)
				}
			}
		}
		checkNodeHealthy(r, pr.p, "c15")
	}
	h.closeConns()
	r.Sample = map[string]any{"history": log}
}

// journalLooksHot reports whether the database directory holds a journal file
// that starts with the journal magic.
func journalLooksHot(dbDir string) bool {
	f, err := os.Open(filepath.Join(dbDir, "journal"))
	if err != nil {
		return false
	}
	defer f.Close()
	var b [8]byte
	if _, err := io.ReadFull(f, b[:]); err != nil {
		return false
	}
	return bytes.Equal(b[:], journalMagic)
}

// c16Overlap: two imports of one database overlap - the first is still
// uploading (and holds the write lock) when the second arrives and queues
// behind it. Each must end as it would have alone after the other: a success
// replaces the database whole, a refusal changes nothing, the node keeps
// running and can be restarted.
func c16Overlap(r *Run) {
	t := r.Tape
	pr := newPair(r, t.Chance(1, 2), 0)
	if !pr.open() {
		return
	}
	const name = "db"
	psA := []uint32{512, 1024, 4096, 8192}[t.Next(4)]
	psB := psA
	if t.Chance(1, 2) {
		psB = []uint32{512, 1024, 4096, 8192}[t.Next(4)]
	}
	imA := MakeImage(psA, uint32(t.Range(2, 12)), t.Chance(1, 3), 700)
	imB := MakeImage(psB, uint32(t.Range(1, 12)), t.Chance(1, 3), 800)
	// sometimes the database exists already (then a foreign page size is refused at once)
	var pre *Image
	if t.Chance(1, 3) {
		pre = MakeImage(psA, uint32(t.Range(1, 6)), false, 600)
		res := pr.p.HTTP(context.Background(), "POST", "/import?name="+name, nil, bytes.NewReader(pre.Bytes()), false)
		if res.Code != 200 {
			r.Inconclusive("initial import: %d", res.Code)
			return
		}
		pre = pre.ImportedForm()
	}
	r.Cfg["ps_a"], r.Cfg["ps_b"], r.Cfg["preexisting"] = psA, psB, pre != nil
	bodyA := imA.Bytes()
	cut := t.Range(1, len(bodyA)-1)
	prd, pwr := io.Pipe()
	type done struct {
		res HTTPResult
		at  time.Duration
	}
	chA, chB := make(chan done, 1), make(chan done, 1)
	go func() {
		res := pr.p.HTTP(context.Background(), "POST", "/import?name="+name, nil, prd, false)
		chA <- done{res, r.SimNow()}
	}()
	go func() { _, _ = pwr.Write(bodyA[:cut]) }()
	time.Sleep(time.Duration(t.Range(1, 30)) * time.Millisecond)
	go func() {
		ctx, cancel := context.WithTimeout(context.Background(), 20*time.Second)
		defer cancel()
		res := pr.p.HTTP(ctx, "POST", "/import?name="+name, nil, bytes.NewReader(imB.Bytes()), false)
		chB <- done{res, r.SimNow()}
	}()
	time.Sleep(time.Duration(t.Range(1, 300)) * time.Millisecond)
	go func() { _, _ = pwr.Write(bodyA[cut:]); pwr.Close() }()
	var a, b done
	for i := 0; i < 2; i++ {
		select {
		case a = <-chA:
		case b = <-chB:
		case <-time.After(60 * time.Second):
			if pr.p.Exited {
				r.Failf("c16.exit", "two overlapping imports (A: ps %d, %d pages; B: ps %d, %d pages; existing database: %v): the node stopped (Exit %d)", psA, imA.N(), psB, imB.N(), pre != nil, pr.p.ExitCode)
				return
			}
			r.Failf("c16.overlap", "two overlapping imports: no answer after 60 s")
			return
		}
	}
	desc := fmt.Sprintf("overlapping imports A (ps %d, %d pages, upload paused after %d bytes) => %d at %v and B (ps %d, %d pages) => %d at %v, existing database: %v", psA, imA.N(), cut, a.res.Code, a.at, psB, imB.N(), b.res.Code, b.at, pre != nil)
	r.Logf("%s", desc)
	if !r.Check(!a.res.Panicked && !b.res.Panicked, "c16.panic", "%s: handler panicked: %s %s", desc, a.res.PanicMsg, b.res.PanicMsg) {
		return
	}
	if !r.Check(!pr.p.Exited, "c16.exit", "%s: the node stopped (Exit %d)", desc, pr.p.ExitCode) {
		return
	}
	// what the database must be: the image of the import that succeeded last
	want := pre
	n := 0
	if pre != nil {
		n = 1
	}
	first, second := a, b
	fi, si := imA, imB
	if b.at < a.at {
		first, second, fi, si = b, a, imB, imA
	}
	if first.res.Code == 200 {
		want, n = fi.ImportedForm(), n+1
	}
	if second.res.Code == 200 {
		want, n = si.ImportedForm(), n+1
	}
	db := pr.p.Store.DB(name)
	if want == nil {
		r.Count("c16.overlap.both-refused")
		return
	}
	if !r.Check(db != nil, "c16.overlap", "%s: no database", desc) {
		return
	}
	pos := db.Pos()
	r.Check(int(pos.TXID) == n, "c16.overlap", "%s: %d imports succeeded, the position is %s", desc, n, pos)
	r.Check(uint64(pos.PostApplyChecksum) == want.Checksum(), "c16.checksum", "%s: position checksum %s, from-scratch checksum of the image that was imported last %016x", desc, pos.PostApplyChecksum, want.Checksum())
	exp := pr.p.HTTP(context.Background(), "GET", "/export?name="+name, nil, nil, false)
	if r.Check(exp.Code == 200 && !exp.Panicked, "c16.export", "%s: export failed: %d %s", desc, exp.Code, exp.PanicMsg) {
		r.Check(bytes.Equal(exp.Body, want.Bytes()), "c16.export-image", "%s: export is not the image that was imported last (%d bytes vs %d)", desc, len(exp.Body), len(want.Bytes()))
	}
	if msg := CheckChain(pr.p.Store.DBPath(name), pos); msg != "" {
		r.Failf("c16.chain", "%s: %s", desc, msg)
	}
	if r.Check(pr.waitReplica(name, 10*time.Second), "c16.replica", "%s: replica did not reach %s", desc, pos) {
		disk, _ := ReadDiskImage(pr.rep.Store.DBPath(name))
		if d := DiffImages(disk, want); d != "" {
			r.Failf("c16.replica-image", "%s: replica image differs: %s", desc, d)
		}
	}
	r.Check(!pr.rep.Exited, "c16.exit", "%s: the replica stopped", desc)
	if img, err := pr.p.Image("ov"); err == nil {
		if v, err := c17Open(r, img); err != nil {
			r.Failf("c16.failed-restart", "%s: a fresh Store cannot open the data directory: %v", desc, err)
		} else {
			v.Fence()
			v.Close()
		}
	}
	r.Count("c16.overlap.checked")
	r.Count("c16.import.ok")
	r.State("overlap/%v/%v/%d/%d", psA == psB, pre != nil, a.res.Code, b.res.Code)
}

// c16ImportLosesPrimary: an import is waiting for the write lock (an application
// connection is in a write transaction) when the node stops being primary. The
// import must be refused with an error, must not touch the database, and the
// handler must not panic; the application's transaction is not disturbed.
func c16ImportLosesPrimary(r *Run) {
	t := r.Tape
	pr := newPair(r, false, 0)
	if !pr.open() {
		return
	}
	h := &hist{r: r, n: pr.p, name: "db"}
	h.pageSize = []uint32{512, 4096}[t.Next(2)]
	h.jmode = ModeDelete
	h.maxPages = 10
	if !h.openConns(1) {
		return
	}
	h.commit(t)
	h.commit(t)
	if r.Failed() || h.ref.N() == 0 {
		return
	}
	wal := t.Chance(1, 2)
	if wal {
		if !h.toWAL() {
			return
		}
		h.commit(t)
	}
	db := pr.p.Store.DB(h.name)
	before := db.Pos()
	// the application holds the write lock
	c := h.conns[0]
	ok := c.LockShared() == 0
	if ok && wal {
		if _, e := c.WalBeginRead(); e != 0 {
			ok = false
		} else if _, e := c.WalBeginWrite(); e != 0 {
			ok = false
		}
	} else if ok {
		ok = c.LockReserved() == 0
	}
	if !ok {
		return
	}
	im := MakeImage(h.pageSize, uint32(t.Range(1, 8)), false, 900)
	done := make(chan HTTPResult, 1)
	go func() {
		ctx, cancel := context.WithTimeout(context.Background(), 30*time.Second)
		defer cancel()
		done <- pr.p.HTTP(ctx, "POST", "/import?name="+h.name, nil, bytes.NewReader(im.Bytes()), false)
	}()
	time.Sleep(time.Duration(t.Range(5, 200)) * time.Millisecond)
	// in half of the runs the application lets go of the lock once the node has
	// lost the role: an import that is still waiting then must not go ahead
	releaseAfter := t.Chance(1, 2)
	pr.p.Store.Demote()
	released := false
	if releaseAfter {
		for dl := time.Now().Add(5 * time.Second); time.Now().Before(dl) && pr.p.Store.IsPrimary(); {
			time.Sleep(time.Millisecond)
		}
		if !pr.p.Store.IsPrimary() {
			time.Sleep(time.Duration(t.Range(0, 50)) * time.Millisecond)
			if wal {
				c.WalEndWrite()
				c.WalEndRead()
			}
			c.UnlockAll()
			released = true
		}
	}
	var res HTTPResult
	select {
	case res = <-done:
	case <-time.After(40 * time.Second):
		r.Failf("c16.import-demoted", "an import that was waiting for the write lock when the node was demoted has not been answered after 40 s")
		return
	}
	desc := fmt.Sprintf("POST /import waiting for the write lock (WAL mode %v) when the node is demoted (lock released after the role was lost: %v) => %d %s", wal, released, res.Code, strings.TrimSpace(string(res.Body)))
	r.Logf("%s", desc)
	if !r.Check(!res.Panicked, "c16.panic", "%s: handler panicked: %s", desc, res.PanicMsg) {
		return
	}
	if !r.Check(!pr.p.Exited, "c16.exit", "%s: the node stopped (Exit %d)", desc, pr.p.ExitCode) {
		return
	}
	if released {
		if !r.Check(res.Code != 200, "c16.import-demoted", "%s: the import was carried out on a node that had lost the primary role while the request was waiting", desc) {
			return
		}
	} else if !r.Check(res.Code != 200, "c16.import-demoted", "%s: the import was carried out although an application connection held the write lock the whole time", desc) {
		return
	}
	r.Check(db.Pos() == before, "c16.failed-changed", "%s: the position moved %s -> %s", desc, before, db.Pos())
	// the application's transaction ends; the database is what it was
	if !released {
		if wal {
			c.WalEndWrite()
			c.WalEndRead()
		}
		c.UnlockAll()
	}
	disk, err := ReadDiskImage(pr.p.Store.DBPath(h.name))
	if r.Check(err == nil, "c16.failed-changed", "%s: %v", desc, err) {
		if d := DiffImages(disk, h.ref); d != "" {
			r.Failf("c16.failed-changed", "%s: the refused import changed the database: %s", desc, d)
		}
	}
	r.Count("c16.import.refused")
	r.Count("c16.import-demoted.checked")
	r.State("import-demoted/%v/%v/%d", wal, released, res.Code)
}

func runC16(r *Run) {
	switch r.Tape.Pick([]int{16, 4, 2}) {
	case 1:
		r.Cfg["scenario"] = "overlap"
		c16Overlap(r)
		return
	case 2:
		r.Cfg["scenario"] = "import-demoted"
		c16ImportLosesPrimary(r)
		return
	}
	if false {
		return
	}
	t := r.Tape
	pr := newPair(r, t.Chance(1, 2), 0)
	if !pr.open() {
		return
	}
	h := &hist{r: r, n: pr.p, name: "db"}
	h.pageSize = pickPageSize(t)
	if h.pageSize > 8192 {
		h.pageSize = 4096
	}
	h.jmode = []string{ModeDelete, ModeTruncate, ModePersist}[t.Next(3)]
	h.maxPages = 40
	r.Cfg["page_size"], r.Cfg["jmode"] = h.pageSize, h.jmode
	var log []string
	steps := t.Range(3, 10)
	for i := 0; i < steps && !r.Failed(); i++ {
		r.Step()
		// target state
		target := []string{"absent", "populated", "populated-wal-pending", "hot-journal", "dropped"}[t.Pick([]int{2, 4, 3, 2, 2})]
		if i == 0 && target != "absent" {
			target = "populated"
		}
		db := pr.p.Store.DB(h.name)
		switch target {
		case "populated", "populated-wal-pending", "hot-journal":
			if h.conns == nil && !h.openConns(1) {
				return
			}
			if h.ref.N() == 0 {
				h.commit(t)
				h.commit(t)
			}
			if r.Failed() || h.ref.N() == 0 {
				return
			}
			if target == "populated-wal-pending" {
				if !h.wal && !h.toWAL() {
					return
				}
				h.commit(t)
				h.commit(t) // committed frames, not checkpointed
			} else if target == "hot-journal" && !h.wal {
				c05AbandonTx(h.conns[0], t, h.ref)
				h.conns = nil
			}
		case "dropped":
			if db == nil || h.ref.N() == 0 {
				target = "absent"
				break
			}
			h.closeConns()
			if e := pr.p.K.Unlink(h.name); e != 0 {
				r.Failf("c16.setup", "drop failed: %v", e)
				return
			}
			h.ref, h.wal = nil, false
		}
		if r.Failed() {
			return
		}
		h.closeConns()
		db = pr.p.Store.DB(h.name)
		var before ltx.Pos
		if db != nil {
			before = db.Pos()
		}
		if target == "absent" { // "leave as it is": name the actual state
			switch {
			case db == nil:
			case db.PageN() == 0:
				target = "empty"
			default:
				target = "populated"
			}
		}
		beforeRef := h.ref
		// the image
		ps := h.pageSize
		diffPS := t.Chance(1, 5)
		if diffPS {
			ps = []uint32{512, 1024, 2048, 4096, 8192}[t.Next(5)]
		}
		npages := uint32(t.Range(1, 30))
		if t.Chance(1, 6) && ps <= 1024 {
			npages = []uint32{255, 256, 257, 513}[t.Next(4)]
		}
		im := MakeImage(ps, npages, t.Chance(1, 3), 100+i)
		body := im.Bytes()
		class := "valid"
		switch t.Pick([]int{60, 15, 15, 10}) {
		case 1:
			body = body[:t.Range(1, len(body)-1)]
			class = "truncated"
		case 2:
			body = make([]byte, t.Range(1, 2000))
			t.Bytes(body)
			class = "garbage"
		case 3:
			body = nil
			class = "empty"
		}
		res := pr.p.HTTP(context.Background(), "POST", "/import?name="+h.name, nil, bytes.NewReader(body), false)
		desc := fmt.Sprintf("import %s ps=%d n=%d into %s (samePS=%v) => %d", class, ps, npages, target, !diffPS, res.Code)
		log = append(log, desc)
		r.Logf("%s", desc)
		if !r.Check(!res.Panicked, "c16.panic", "%s: handler panicked: %s", desc, res.PanicMsg) {
			return
		}
		if !r.Check(!pr.p.Exited, "c16.exit", "%s: the node stopped (Exit %d)", desc, pr.p.ExitCode) {
			return
		}
		db = pr.p.Store.DB(h.name)
		var after ltx.Pos
		if db != nil {
			after = db.Pos()
		}
		outcome := "ok"
		if res.Code == 200 {
			want := im.ImportedForm()
			if !r.Check(class == "valid", "c16.accepted-bad", "%s: an unusable image was accepted", desc) {
				return
			}
			r.Check(after.TXID == before.TXID+1, "c16.one-txid", "%s: position went %s -> %s", desc, before, after)
			exp := pr.p.HTTP(context.Background(), "GET", "/export?name="+h.name, nil, nil, false)
			if r.Check(exp.Code == 200 && !exp.Panicked, "c16.export", "%s: export failed: %d %s", desc, exp.Code, exp.PanicMsg) {
				if !bytes.Equal(exp.Body, want.Bytes()) {
					got := &Image{PageSize: ps}
					for o := 0; o+int(ps) <= len(exp.Body); o += int(ps) {
						got.Pages = append(got.Pages, exp.Body[o:o+int(ps)])
					}
					r.Failf("c16.export-image", "%s: export after the import is not the imported image (modulo the 8 reset bytes): %d bytes vs %d; %s", desc, len(exp.Body), len(want.Bytes()), DiffImages(got, want))
				}
			}
			r.Check(uint64(after.PostApplyChecksum) == want.Checksum(), "c16.checksum", "%s: position checksum %s, from-scratch %016x", desc, after.PostApplyChecksum, want.Checksum())
			if msg := CheckChain(pr.p.Store.DBPath(h.name), after); msg != "" {
				r.Failf("c16.chain", "%s: %s", desc, msg)
			}
			if r.Check(pr.waitReplica(h.name, 10*time.Second), "c16.replica", "%s: replica did not reach %s", desc, after) {
				disk, _ := ReadDiskImage(pr.rep.Store.DBPath(h.name))
				if d := DiffImages(disk, want); d != "" {
					r.Failf("c16.replica-image", "%s: replica image differs from the imported image: %s", desc, d)
				}
				r.Count("c16.import.ok")
			}
			r.Check(!pr.rep.Exited, "c16.exit", "%s: the replica stopped", desc)
			h.ref, h.pageSize = want, ps
			hh, _, _ := decodeDBHeader(want.Pages[0])
			h.wal = hh.WAL
		} else {
			outcome = "refused"
			r.Count("c16.import.refused")
			// nothing may have changed (logical image, position, log)
			if target != "absent" && target != "dropped" {
				r.Check(after == before, "c16.failed-changed", "%s: a failed import moved the position %s -> %s", desc, before, after)
				disk, err := ReadDiskImage(pr.p.Store.DBPath(h.name))
				if hot := journalLooksHot(pr.p.Store.DBPath(h.name)); hot {
					// the interrupted transaction's journal is still there: the raw
					// file is not the logical image until somebody rolls it back,
					// which a refused import is not obliged to do
					r.Count("c16.failed.hot-journal-left")
				} else if r.Check(err == nil, "c16.failed-changed", "%s: %v", desc, err) {
					if d := DiffImages(disk, beforeRef); d != "" {
						r.Failf("c16.failed-changed", "%s: a failed import changed the database: %s", desc, d)
					}
				}
				if msg := CheckChain(pr.p.Store.DBPath(h.name), after); msg != "" {
					r.Failf("c16.failed-changed", "%s: %s", desc, msg)
				}
			}
			// a later restart must still work
			if t.Chance(1, 2) {
				img, err := pr.p.Image(fmt.Sprintf("f%d", i))
				if err == nil {
					if v, err := c17Open(r, img); err != nil {
						r.Failf("c16.failed-restart", "%s: after the failed import a fresh Store cannot open the data directory: %v", desc, err)
					} else {
						v.Fence()
						v.Close()
					}
				}
			}
		}
		r.State("%s/%s/%s/samePS%v", target, class, outcome, !diffPS)
		// an idle export equals the committed image
		if h.ref.N() > 0 && t.Chance(1, 2) {
			exp := pr.p.HTTP(context.Background(), "GET", "/export?name="+h.name, nil, nil, false)
			if exp.Code == 200 && !bytes.Equal(exp.Body, h.ref.Bytes()) {
				r.Failf("c16.export-idle", "%s: export of the idle database differs from the committed image", desc)
			}
		}
	}
	h.closeConns()
	r.Sample = map[string]any{"history": log}
}
