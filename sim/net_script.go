package verifsim

import (
	"bytes"
	"context"
	"errors"
	"fmt"
	"io"
	"sync"
	"time"

	"github.com/superfly/litefs"
	"github.com/superfly/litefs/internal/chunk"
	"github.com/superfly/ltx"
)

// ScriptClient is a litefs.Client whose replication stream is fed by the
// check: a scripted primary. It is used where the sender's bytes are what is
// being chosen (crash points inside an apply, crafted transaction files).
type ScriptClient struct {
	r         *Run
	ClusterID string

	mu      sync.Mutex
	streams []*ScriptStream
	// halt / commit calls are refused by default
	HaltErr error
}

var _ litefs.Client = (*ScriptClient)(nil)

// ScriptStream is one /stream connection opened by a replica.
type ScriptStream struct {
	c       *ScriptClient
	NodeID  uint64
	PosMap  map[string]ltx.Pos
	Filter  []string
	mu      sync.Mutex
	buf     bytes.Buffer
	err     error
	closed  bool
	wake    chan struct{}
	Closed  bool // closed by the replica
	ReadN   int64
	cluster string
}

func NewScriptClient(r *Run, clusterID string) *ScriptClient {
	return &ScriptClient{r: r, ClusterID: clusterID}
}

func (c *ScriptClient) AcquireHaltLock(ctx context.Context, primaryURL string, nodeID uint64, name string, lockID int64) (*litefs.HaltLock, error) {
	return nil, errors.New("scripted primary: halt not available")
}

func (c *ScriptClient) ReleaseHaltLock(ctx context.Context, primaryURL string, nodeID uint64, name string, lockID int64) error {
	return errors.New("scripted primary: halt not available")
}

func (c *ScriptClient) Commit(ctx context.Context, primaryURL string, nodeID uint64, name string, lockID int64, r io.Reader) error {
	return errors.New("scripted primary: commit not available")
}

func (c *ScriptClient) Stream(ctx context.Context, primaryURL string, nodeID uint64, posMap map[string]ltx.Pos, filter []string) (litefs.Stream, error) {
	st := &ScriptStream{c: c, NodeID: nodeID, PosMap: posMap, Filter: filter, wake: make(chan struct{}, 1), cluster: c.ClusterID}
	c.mu.Lock()
	c.streams = append(c.streams, st)
	c.mu.Unlock()
	c.r.Count("script.stream.open")
	go func() {
		<-ctx.Done()
		st.Fail(context.Cause(ctx))
	}()
	return st, nil
}

// Current returns the most recent stream that is still open, or nil.
func (c *ScriptClient) Current() *ScriptStream {
	c.mu.Lock()
	defer c.mu.Unlock()
	for i := len(c.streams) - 1; i >= 0; i-- {
		st := c.streams[i]
		st.mu.Lock()
		dead := st.Closed || st.closed
		st.mu.Unlock()
		if !dead {
			return st
		}
	}
	return nil
}

// WaitStream advances simulated time until the replica has an open stream.
func (c *ScriptClient) WaitStream(d time.Duration) *ScriptStream {
	deadline := time.Now().Add(d)
	for {
		if st := c.Current(); st != nil {
			return st
		}
		if time.Now().After(deadline) {
			return nil
		}
		time.Sleep(time.Millisecond)
	}
}

func (s *ScriptStream) ClusterID() string { return s.cluster }

func (s *ScriptStream) Read(p []byte) (int, error) {
	for {
		s.mu.Lock()
		if s.buf.Len() > 0 {
			n, _ := s.buf.Read(p)
			s.ReadN += int64(n)
			s.mu.Unlock()
			return n, nil
		}
		if s.err != nil {
			err := s.err
			s.mu.Unlock()
			return 0, err
		}
		if s.closed {
			s.mu.Unlock()
			return 0, io.EOF
		}
		s.mu.Unlock()
		<-s.wake
	}
}

func (s *ScriptStream) Close() error {
	s.mu.Lock()
	s.Closed = true
	s.closed = true
	s.mu.Unlock()
	s.poke()
	return nil
}

func (s *ScriptStream) poke() {
	select {
	case s.wake <- struct{}{}:
	default:
	}
}

// Push makes more bytes readable.
func (s *ScriptStream) Push(b []byte) {
	s.mu.Lock()
	s.buf.Write(b)
	s.mu.Unlock()
	s.poke()
}

// End ends the stream cleanly (EOF after the buffered bytes).
func (s *ScriptStream) End() {
	s.mu.Lock()
	s.closed = true
	s.mu.Unlock()
	s.poke()
}

// Fail ends the stream with an error after the buffered bytes (connection reset).
func (s *ScriptStream) Fail(err error) {
	s.mu.Lock()
	if s.err == nil {
		s.err = err
	}
	s.mu.Unlock()
	s.poke()
}

// Drained reports whether the replica consumed everything pushed so far.
func (s *ScriptStream) Drained() bool {
	s.mu.Lock()
	defer s.mu.Unlock()
	return s.buf.Len() == 0
}

// frame encoders ---------------------------------------------------------------

// EncodeLTXFrame returns the wire bytes of an LTX stream frame carrying the
// given transaction file as a chunked body.
func EncodeLTXFrame(name string, ltxBytes []byte) []byte {
	var b bytes.Buffer
	_ = litefs.WriteStreamFrame(&b, &litefs.LTXStreamFrame{Name: name})
	cw := chunk.NewWriter(&b)
	_, _ = cw.Write(ltxBytes)
	_ = cw.Close()
	return b.Bytes()
}

// EncodeFrame returns the wire bytes of any frame.
func EncodeFrame(f litefs.StreamFrame) []byte {
	var b bytes.Buffer
	_ = litefs.WriteStreamFrame(&b, f)
	return b.Bytes()
}

// SnapshotBytes asks a database for an LTX snapshot of its current state.
func SnapshotBytes(db *litefs.DB) ([]byte, ltx.Pos, error) {
	var b bytes.Buffer
	h, tr, err := db.WriteSnapshotTo(context.Background(), &b)
	if err != nil {
		return nil, ltx.Pos{}, err
	}
	return b.Bytes(), ltx.Pos{TXID: h.MaxTXID, PostApplyChecksum: tr.PostApplyChecksum}, nil
}

// BuildLTX encodes a transaction file from explicit fields (crafted inputs).
func BuildLTX(h ltx.Header, pages map[uint32][]byte, post ltx.Checksum) ([]byte, error) {
	var b bytes.Buffer
	enc := ltx.NewEncoder(&b)
	if err := enc.EncodeHeader(h); err != nil {
		return nil, fmt.Errorf("header: %w", err)
	}
	var pgnos []uint32
	for pg := range pages {
		pgnos = append(pgnos, pg)
	}
	sortU32(pgnos)
	for _, pg := range pgnos {
		if err := enc.EncodePage(ltx.PageHeader{Pgno: pg}, pages[pg]); err != nil {
			return nil, fmt.Errorf("page %d: %w", pg, err)
		}
	}
	enc.SetPostApplyChecksum(post)
	if err := enc.Close(); err != nil {
		return nil, fmt.Errorf("close: %w", err)
	}
	return b.Bytes(), nil
}

func sortU32(a []uint32) {
	for i := 1; i < len(a); i++ {
		for j := i; j > 0 && a[j-1] > a[j]; j-- {
			a[j-1], a[j] = a[j], a[j-1]
		}
	}
}

// waitPos advances simulated time until db reaches pos (TXID and checksum).
func waitPos(n *Node, name string, pos ltx.Pos, d time.Duration) bool {
	deadline := time.Now().Add(d)
	for {
		if db := n.Store.DB(name); db != nil && db.Pos() == pos {
			return true
		}
		if n.Exited || time.Now().After(deadline) {
			return false
		}
		time.Sleep(200 * time.Microsecond)
	}
}
