package verifsim

import (
	"time"
	"bytes"
	"context"
	"fmt"
	"syscall"

	"github.com/superfly/litefs"
	"github.com/superfly/ltx"
)

func init() {
	register(&CheckDef{
		ID:    "C04",
		Level: "exploration",
		Rule:  "seeded single-node histories mixing every way a position changes or a database is rewritten: rollback-journal commits (3 finalisation modes), switch to WAL, WAL commits, application checkpoints (4 modes), LiteFS checkpoints/recover (role-change path), clean restart, crash restart at a quiescent point, import over /import (same and different page size, rollback/WAL header), drop and recreate; sizes straddle 256/257/512/513 pages; at every stable point the reported PostApplyChecksum is compared with a stdlib CRC64 recomputed from the raw database+WAL bytes (own WAL scanner) and a dropped/empty database must report exactly 1<<63. The replica-side and snapshot parts of the property are exercised by the same monitor inside the C01 runs. A case is one executed history step; distinct = distinct (step kind, journal mode, page size, size class) tuple; non-trivial = run with >= 3 position changes checked",
		Run:   runC04,
		NonTrivial: func(r *Run) bool {
			return r.Stats["c04.checked.changed"] >= 3
		},
		Assumptions: []string{"PagerSim fidelity (DESIGN §4.2)", "crash = process death with the data directory as the kernel holds it; power loss is not simulated"},
		Real:        []string{"litefs.Store/DB incl. checksum cache, Import, Drop, recover, Open", "litefs/fuse", "litefs/http handler for /import", "superfly/ltx"},
		Stub:        []string{"SimKernel", "PagerSim"},
	})
}

// hist drives one database on one node through arbitrary single-node history.
type hist struct {
	r        *Run
	n        *Node
	name     string
	pageSize uint32
	jmode    string // rollback finalisation mode used while not in WAL
	wal      bool
	conns    []*Conn
	ref      *Image
	maxPages uint32
	log      []string
	dropped  bool
}

func (h *hist) db() *litefs.DB { return h.n.Store.DB(h.name) }

func (h *hist) closeConns() {
	for _, c := range h.conns {
		c.Close()
	}
	h.conns = nil
}

// openConns (re)creates nconn connections appropriate for the current mode.
func (h *hist) openConns(nconn int) bool {
	h.closeConns()
	for i := 0; i < nconn; i++ {
		c := h.n.NewConn(h.name, h.jmode, h.pageSize)
		if e := c.Open(); e != 0 {
			h.r.Failf("hist.open", "open database: %v", e)
			return false
		}
		if h.wal {
			if e := c.WalOpen(); e != 0 {
				h.r.Failf("hist.open", "open wal: %v", e)
				return false
			}
		}
		h.conns = append(h.conns, c)
	}
	return true
}

// commit performs one committed write transaction in the current mode.
// busyRetry is the application's busy handler (busy_timeout = 2 s of simulated
// time): LiteFS itself holds read locks now and then (a snapshot being streamed
// to a replica, an export), and a writer that meets them waits and tries again.
func (h *hist) busyRetry(tx func() TxResult) TxResult {
	res := tx()
	for i := 0; i < 100 && res.Outcome == "busy"; i++ {
		h.r.Count("hist.busy-retry")
		time.Sleep(20 * time.Millisecond)
		res = tx()
	}
	return res
}

func (h *hist) commit(t *Tape) (string, bool) {
	c := h.conns[t.Next(len(h.conns))]
	if h.wal {
		prog := GenWalProgram(t, h.ref.N(), h.maxPages)
		res := h.busyRetry(func() TxResult { return c.WalWriteTx(prog, h.ref) })
		if res.Outcome == OutCommit {
			h.ref = res.After
		}
		if res.Outcome == "error" || res.Outcome == "busy" {
			if prog.Outcome == OutCommit {
				h.r.Failf("hist.commit-refused", "WAL commit refused at %s: %v", res.FailedAt, res.Errno)
			}
			return "wal-" + res.Outcome, false
		}
		return fmt.Sprintf("wal-%s %d->%d", res.Outcome, h.ref.N(), prog.NewSize), res.Outcome == OutCommit
	}
	c.Mode = h.jmode
	prog := GenProgram(t, h.ref.N(), h.maxPages, LockPgno(h.pageSize))
	before := h.ref.N()
	res := h.busyRetry(func() TxResult { return c.WriteTx(prog, h.ref) })
	if res.Outcome == OutCommit {
		h.ref = res.After
	}
	if res.Outcome == "error" || res.Outcome == "busy" {
		if prog.Outcome == OutCommit {
			h.r.Failf("hist.commit-refused", "journal commit refused at %s: %v", res.FailedAt, res.Errno)
		}
		return "journal-" + res.Outcome, false
	}
	return fmt.Sprintf("journal-%s %d->%d", res.Outcome, before, prog.NewSize), res.Outcome == OutCommit
}

// toWAL switches the database to WAL mode via the header transaction.
func (h *hist) toWAL() bool {
	c := h.conns[0]
	c.Mode = h.jmode
	res := h.busyRetry(func() TxResult {
		return c.WriteTx(TxProgram{NewSize: maxU32(h.ref.N(), 1), Outcome: OutCommit, SetWAL: 1}, h.ref)
	})
	if res.Outcome != OutCommit {
		h.r.Failf("hist.commit-refused", "switch to WAL refused at %s: %v", res.FailedAt, res.Errno)
		return false
	}
	h.ref = res.After
	h.wal = true
	return h.openConns(len(h.conns))
}

// toRollback leaves WAL mode the way OP_JournalMode does: the log is closed as
// the last connection (checkpoint, -wal and -shm unlinked) and the header is
// rewritten by a rollback-journal transaction.
func (h *hist) toRollback() bool {
	n := len(h.conns)
	for len(h.conns) > 1 {
		h.conns[len(h.conns)-1].Close()
		h.conns = h.conns[:len(h.conns)-1]
	}
	c := h.conns[0]
	if at, e := c.WalCloseLast(h.ref); e != 0 || at != "" {
		h.r.Failf("hist.commit-refused", "closing the WAL as the last connection failed at %q: %v", at, e)
		return false
	}
	c.UnlockAll()
	c.Mode = h.jmode
	res := h.busyRetry(func() TxResult {
		return c.WriteTx(TxProgram{NewSize: h.ref.N(), Outcome: OutCommit, SetWAL: 2}, h.ref)
	})
	if res.Outcome != OutCommit {
		h.r.Failf("hist.commit-refused", "switch back to a rollback journal refused at %s: %v", res.FailedAt, res.Errno)
		return false
	}
	h.ref = res.After
	h.wal = false
	return h.openConns(n)
}

func maxU32(a, b uint32) uint32 {
	if a > b {
		return a
	}
	return b
}

// importImage posts an image to /import.
func (h *hist) importImage(im *Image) HTTPResult {
	return h.n.HTTP(context.Background(), "POST", "/import?name="+h.name, nil, bytes.NewReader(im.Bytes()), false)
}

// checksumOracle is the C04 oracle at a stable point.
func (h *hist) checksumOracle(oracle, after string) {
	r := h.r
	db := h.db()
	if db == nil {
		return
	}
	pos := db.Pos()
	disk, err := ReadDiskImage(h.n.Store.DBPath(h.name))
	if !r.Check(err == nil, oracle+".disk", "reading raw files after %s: %v", after, err) {
		return
	}
	if pos.TXID == 0 {
		return
	}
	want := disk.Checksum()
	r.Check(uint64(pos.PostApplyChecksum) == want, oracle+".checksum", "after %s: reported checksum %s at TXID %s, from-scratch CRC64 of database+WAL bytes %016x (%d pages)", after, pos.PostApplyChecksum, pos.TXID, want, disk.N())
	if disk.N() == 0 {
		r.Check(uint64(pos.PostApplyChecksum) == checksumFlag, oracle+".empty", "after %s: empty database reports %s, want exactly 8000000000000000", after, pos.PostApplyChecksum)
	}
	if d := DiffImages(disk, h.ref); d != "" {
		r.Failf(oracle+".image", "after %s: raw image differs from what SQLite committed: %s", after, d)
	}
}

func sizeClass(n uint32) string {
	switch {
	case n == 0:
		return "0"
	case n == 1:
		return "1"
	case n < 256:
		return "<256"
	case n == 256:
		return "256"
	case n == 257:
		return "257"
	case n < 512:
		return "<512"
	case n == 512:
		return "512"
	case n == 513:
		return "513"
	default:
		return ">513"
	}
}

func runC04(r *Run) {
	t := r.Tape
	h := &hist{r: r, name: "db"}
	h.pageSize = pickPageSize(t)
	h.jmode = []string{ModeDelete, ModeTruncate, ModePersist}[t.Next(3)]
	h.maxPages = 60
	if h.pageSize <= 1024 {
		h.maxPages = 700
	}
	compress := t.Chance(1, 2)
	nsteps := t.Range(6, 30)
	if r.Thorough() {
		nsteps = t.Range(10, 70)
	}
	nconn := t.Range(1, 2)
	r.Cfg["page_size"], r.Cfg["jmode"], r.Cfg["lz4"], r.Cfg["steps"] = h.pageSize, h.jmode, compress, nsteps
	h.n = newStaticPrimary(r, compress, nil)
	if h.n == nil {
		return
	}
	if !h.openConns(nconn) {
		return
	}
	if h.maxPages >= 700 && t.Chance(1, 3) {
		// start beyond the first checksum block
		c := h.conns[0]
		c.Mode = h.jmode
		res := c.WriteTx(TxProgram{NewSize: BigSize(t, h.maxPages), Outcome: OutCommit}, nil)
		if res.Outcome != OutCommit {
			r.Failf("hist.commit-refused", "creating a large database was refused at %s: %v", res.FailedAt, res.Errno)
			return
		}
		h.ref = res.After
		r.Cfg["big_start"] = h.ref.N()
	}
	var lastPos ltx.Pos
	for i := 0; i < nsteps && !r.Failed(); i++ {
		r.Step()
		var desc string
		modeName := h.jmode
		if h.wal {
			modeName = "WAL"
		}
		kinds := []int{50, 6, 8, 6, 6, 6, 6, 4} // commit, toWAL, ckpt, litefs-recover, clean restart, crash restart, import, drop
		if h.ref.N() == 0 {
			kinds = []int{100, 0, 0, 0, 4, 4, 6, 0}
		}
		if !h.wal {
			kinds[2] = 0
		}
		k := t.Pick(kinds)
		switch k {
		case 0:
			desc, _ = h.commit(t)
		case 1:
			if h.wal {
				desc = "switch-to-rollback"
				if !h.toRollback() {
					return
				}
				break
			}
			desc = "switch-to-wal"
			if !h.toWAL() {
				return
			}
		case 2:
			mode := []string{CkptPassive, CkptFull, CkptRestart, CkptTruncate}[t.Next(4)]
			at, e := h.conns[0].WalCheckpoint(mode)
			desc = fmt.Sprintf("app-checkpoint %s %s %v", mode, at, e)
			if e != 0 && e != syscall.EAGAIN {
				r.Failf("c04.ckpt-refused", "checkpoint %s refused at %s: %v", mode, at, e)
			}
		case 3:
			err := h.n.Store.Recover(context.Background())
			desc = fmt.Sprintf("litefs-recover %v", err)
			r.Check(err == nil, "c04.recover", "Store.Recover failed: %v", err)
		case 4:
			desc = "clean-restart"
			h.closeConns()
			if err := h.n.Close(); err != nil {
				r.Failf("c04.restart", "clean close failed: %v", err)
				return
			}
			if err := h.n.Open(); err != nil {
				r.Failf("c04.restart", "reopening after a clean stop failed: %v", err)
				return
			}
			h.n.WaitPrimary(5e9)
			if !h.openConns(nconn) {
				return
			}
		case 5:
			desc = "crash-restart"
			h.closeConns()
			img, err := h.n.Kill(fmt.Sprintf("c%d", i))
			if err != nil {
				r.Inconclusive("image: %v", err)
				return
			}
			h.n.Close()
			if err := h.n.RestartFrom(img); err != nil {
				r.Failf("c04.restart", "restart after a crash at a quiescent point failed: %v", err)
				return
			}
			h.n.WaitPrimary(5e9)
			if !h.openConns(nconn) {
				return
			}
		case 6:
			ps := h.pageSize
			imWAL := h.wal != t.Chance(1, 4) // mostly the current mode, sometimes the other one
			im := MakeImage(ps, uint32(t.Range(1, 40)), imWAL, i)
			if t.Chance(1, 5) {
				im = MakeImage(ps, []uint32{255, 256, 257, 513}[t.Next(4)], imWAL, i)
			}
			h.closeConns()
			res := h.importImage(im)
			desc = fmt.Sprintf("import %d pages => %d", im.N(), res.Code)
			if r.Check(!res.Panicked, "c04.import-panic", "import panicked: %s", res.PanicMsg) && r.Check(res.Code == 200, "c04.import", "import of a valid image failed: %d %s", res.Code, res.Body) {
				h.ref = im.ImportedForm()
				h.dropped = false
				h.wal = imWAL
			}
			if !h.openConns(nconn) {
				return
			}
		case 7:
			desc = "drop"
			h.closeConns()
			if e := h.n.K.Unlink(h.name); e != 0 {
				r.Failf("c04.drop", "unlink of the database failed: %v", e)
				return
			}
			h.ref, h.wal, h.dropped = nil, false, true
			if !h.openConns(nconn) {
				return
			}
		}
		if r.Failed() {
			break
		}
		checkNodeHealthy(r, h.n, "c04")
		pos := h.db().Pos()
		h.log = append(h.log, desc)
		r.Logf("step %d [%s]: %s -> %s (%d pages)", i, modeName, desc, pos, h.ref.N())
		r.State("%d/%s/%s/%s", k, modeName, fmt.Sprint(h.pageSize), sizeClass(h.ref.N()))
		h.checksumOracle("c04", desc)
		if pos != lastPos {
			r.Count("c04.checked.changed")
		} else {
			r.Count("c04.checked.same")
		}
		lastPos = pos
	}
	h.closeConns()
	r.Sample = map[string]any{"history": h.log}
}
