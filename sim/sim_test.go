package verifsim

import "testing"

// TestSim is the single entry point of the simulation binary; everything is
// selected through SIM_* environment variables (see runner.go).
func TestSim(t *testing.T) { SimMain(t) }
