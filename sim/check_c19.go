package verifsim

import (
	"context"
	"fmt"
	"io"
	"net"
	"net/http"
	"strings"
	"sync"
	"time"

	"github.com/superfly/litefs"
	lhttp "github.com/superfly/litefs/http"
	"github.com/superfly/ltx"
)

func init() {
	register(&CheckDef{
		ID:    "C19",
		Level: "exploration",
		Rule:  "a real primary and a real replica (simulated network; static leaser, or the simulated lease service so that 'no primary known' exists), each with the real ProxyServer handler in front of a stub application reached through the proxy's own http.Transport over in-memory pipes. The stub records every request it receives together with the position of the tracked database at arrival, and on a write request on the primary commits a transaction (PagerSim) before it answers. Seeded requests: method (GET, HEAD, POST, PUT, PATCH, DELETE, OPTIONS) x path (plain, matching a passthrough pattern, matching an always-forward pattern, /litefs/health) x cookie (absent, malformed, behind, equal, ahead by 1-3) x node (primary, replica, replica that knows no primary) x replication timing (the primary commits the awaited transaction before / during / after the proxy's poll time-out; the replica connected or partitioned). Oracles: a read with a valid cookie T reaches the application only when the local position is >= T at arrival, otherwise it ends with 504 not earlier than the poll time-out and the application never sees it; a non-read on a replica that does not match a passthrough pattern never reaches the local application and is answered with 'fly-replay: instance=<primary>' or 503 without a known primary; an always-forward GET is treated like a write; passthrough requests always reach the application; the cookie set after a write on the primary names a TXID >= the transaction the application committed for that request. evaluations = requests; distinct = distinct (role, method class, path class, cookie class, timing, outcome) tuples; non-trivial = run with >= 1 read that had to wait for replication and >= 1 redirected write",
		Run:   runC19,
		NonTrivial: func(r *Run) bool {
			return r.Stats["c19.read.waited"] > 0 || r.Stats["c19.write.redirected"] > 0
		},
		Assumptions: []string{"the proxy handler is invoked in-process (net/http's server side is not under test); the upstream side uses the proxy's real http.Transport over net.Pipe"},
		Real:        []string{"http.ProxyServer.serveHTTP / serveRead / serveNonRead / proxyToTarget, Store.PrimaryInfoWithContext, replication between the two nodes"},
		Stub:        []string{"application (records requests, commits on writes)", "SimNet", "SimLease", "SimKernel", "PagerSim"},
	})
}

type c19seen struct {
	node   string
	method string
	path   string
	pos    ltx.Pos // local position of the tracked database at arrival
	id     string
}

type c19app struct {
	mu      sync.Mutex
	seen    []c19seen
	onWrite func(node string) ltx.TXID // commits; returns the TXID of the write (0 = none)
	wrote   map[string]ltx.TXID        // request id -> TXID committed for it
}

// pipeListener hands the server side of in-memory pipes to an http.Server.
type pipeListener struct {
	ch   chan net.Conn
	done chan struct{}
	once sync.Once
}

func (l *pipeListener) Accept() (net.Conn, error) {
	select {
	case c := <-l.ch:
		return c, nil
	case <-l.done:
		return nil, io.EOF
	}
}
func (l *pipeListener) Close() error   { l.once.Do(func() { close(l.done) }); return nil }
func (l *pipeListener) Addr() net.Addr { return &net.TCPAddr{IP: net.IPv4(127, 0, 0, 1), Port: 8080} }

// The configured expressions (asterisk wildcards on the request path) ...
var c19Passthrough = []string{"/static/*", "*.css"}
var c19AlwaysForward = []string{"/forward/*"}

// ... and the request targets: plain ones, ones matching an expression, and
// near misses whose query string or inner segments look like a match.
var c19Paths = []string{
	"/api/items", "/api/items?f=site.css", "/api/items?next=/static/app.js", "/api/static/x", "/api/items.css/edit", "/api/items?to=/forward/login", "/api/forward/login", "/api/items?a=1&b=.css",
	"/static/app.js", "/theme/site.css", "/static/app.js?v=3", "/theme/site.css?x=1",
	"/forward/login", "/forward/login?u=a",
	"/litefs/health",
}
var c19PathWeights = []int{12, 4, 4, 3, 3, 3, 3, 3, 3, 3, 2, 2, 5, 3, 4}

// c19Glob matches an asterisk-only wildcard expression against the whole of s.
func c19Glob(expr, s string) bool {
	if expr == "" {
		return s == ""
	}
	if expr[0] == '*' {
		for i := 0; i <= len(s); i++ {
			if c19Glob(expr[1:], s[i:]) {
				return true
			}
		}
		return false
	}
	return s != "" && s[0] == expr[0] && c19Glob(expr[1:], s[1:])
}

// c19Classify is the specification's view of a request target.
func c19Classify(target string) string {
	path := target
	if i := strings.IndexByte(path, '?'); i >= 0 {
		path = path[:i]
	}
	if path == "/litefs/health" {
		return "health"
	}
	for _, e := range c19Passthrough {
		if c19Glob(e, path) {
			return "passthrough"
		}
	}
	for _, e := range c19AlwaysForward {
		if c19Glob(e, path) {
			return "forward"
		}
	}
	return "plain"
}

// c19proxy builds the real proxy in front of node n with the stub application behind it.
func c19proxy(r *Run, n *Node, app *c19app, dbName string) (http.Handler, func()) {
	ps := lhttp.NewProxyServer(n.Store)
	ps.Target = "app-" + n.Name + ":8080"
	ps.DBName = dbName
	ps.Addr = ":0"
	// compiled from the user-facing expressions the way the configuration loader does
	for _, e := range c19Passthrough {
		re, err := lhttp.CompileMatch(e)
		if err != nil {
			r.Inconclusive("compile %q: %v", e, err)
		}
		ps.Passthroughs = append(ps.Passthroughs, re)
	}
	for _, e := range c19AlwaysForward {
		re, err := lhttp.CompileMatch(e)
		if err != nil {
			r.Inconclusive("compile %q: %v", e, err)
		}
		ps.AlwaysForward = append(ps.AlwaysForward, re)
	}
	ps.PollTXIDInterval = time.Millisecond
	ps.PollTXIDTimeout = 500 * time.Millisecond
	ps.PrimaryRedirectTimeout = 300 * time.Millisecond
	ln := &pipeListener{ch: make(chan net.Conn), done: make(chan struct{})}
	srv := &http.Server{Handler: http.HandlerFunc(func(w http.ResponseWriter, req *http.Request) {
		s := c19seen{node: n.Name, method: req.Method, path: req.URL.Path, id: req.Header.Get("X-Req")}
		if n.Store != nil {
			if db := n.Store.DB(dbName); db != nil {
				s.pos = db.Pos()
			}
		}
		app.mu.Lock()
		app.seen = append(app.seen, s)
		app.mu.Unlock()
		if req.Method != http.MethodGet && req.Method != http.MethodHead && req.Method != http.MethodOptions && app.onWrite != nil {
			if tx := app.onWrite(n.Name); tx != 0 {
				app.mu.Lock()
				app.wrote[s.id] = tx
				app.mu.Unlock()
			}
		}
		w.Header().Set("X-App", n.Name)
		w.WriteHeader(200)
		_, _ = io.WriteString(w, "app:"+n.Name)
	})}
	go func() { _ = srv.Serve(ln) }()
	ps.HTTPTransport = &http.Transport{
		DisableKeepAlives: true,
		DialContext: func(ctx context.Context, network, addr string) (net.Conn, error) {
			c1, c2 := net.Pipe()
			select {
			case ln.ch <- c2:
				return c1, nil
			case <-ctx.Done():
				return nil, ctx.Err()
			case <-ln.done:
				return nil, io.EOF
			}
		},
	}
	return ps.VerifHandler(), func() { _ = srv.Close(); _ = ln.Close(); ps.HTTPTransport.CloseIdleConnections() }
}

func runC19(r *Run) {
	t := r.Tape
	dynamic := t.Chance(1, 3)
	r.Cfg["dynamic_lease"] = dynamic
	net := NewSimNet(r)
	tune := func(s *litefs.Store) { s.ReconnectDelay = 20 * time.Millisecond }
	p := r.NewNode(NodeCfg{Candidate: true, Tune: tune})
	rep := r.NewNode(NodeCfg{Candidate: false, Tune: tune})
	p.Cfg.Client, rep.Cfg.Client = net.Attach(p), net.Attach(rep)
	var svc *SimLease
	var q *Node // a second candidate, for the change of primary at the end
	if dynamic {
		svc = NewSimLease(r, 2*time.Second, 500*time.Millisecond)
		p.Cfg.Leaser, rep.Cfg.Leaser = svc.Leaser(p), svc.Leaser(rep)
		if t.Chance(1, 2) {
			tune2 := func(s *litefs.Store) {
				s.ReconnectDelay = 20 * time.Millisecond
				s.DemoteDelay = 300 * time.Millisecond
			}
			p.Cfg.Tune = tune2
			q = r.NewNode(NodeCfg{Candidate: true, Tune: tune2})
			q.Cfg.Client = net.Attach(q)
			q.Cfg.Leaser = svc.Leaser(q)
		}
	} else {
		p.Cfg.Leaser = litefs.NewStaticLeaser(true, p.Name, p.URL())
		rep.Cfg.Leaser = litefs.NewStaticLeaser(false, p.Name, p.URL())
	}
	r.OnCleanup(func() {
		for _, c := range net.LiveConns() {
			c.reset("teardown")
		}
	})
	if err := p.Open(); err != nil || !p.WaitPrimary(10*time.Second) {
		r.Inconclusive("primary: %v", err)
		return
	}
	const dbName = "db"
	h := &hist{r: r, n: p, name: dbName, pageSize: 512, jmode: ModeDelete, maxPages: 10}
	if !h.openConns(1) {
		return
	}
	if !c06Commits(r, h, t, t.Range(1, 3), nil) || h.ref.N() == 0 || p.Store.DB(dbName) == nil || p.Store.DB(dbName).Pos().TXID == 0 {
		return // (every drawn program rolled back: nothing to track)
	}
	if err := rep.Open(); err != nil {
		r.Inconclusive("replica: %v", err)
		return
	}
	pdb := func() *litefs.DB { return p.Store.DB(dbName) }
	if !r.Check(waitPos(rep, dbName, pdb().Pos(), 10*time.Second), "c19.setup", "replica did not follow") {
		return
	}
	app := &c19app{wrote: map[string]ltx.TXID{}}
	app.onWrite = func(node string) ltx.TXID {
		if node != p.Name || !p.Store.IsPrimary() {
			return 0
		}
		before := pdb().Pos()
		for i := 0; i < 5; i++ {
			h.commit(t)
			if pdb().Pos() != before {
				return pdb().Pos().TXID
			}
		}
		return 0
	}
	hp, closeP := c19proxy(r, p, app, dbName)
	hr, closeR := c19proxy(r, rep, app, dbName)
	defer closeP()
	defer closeR()

	nreq := t.Range(6, 20)
	for i := 0; i < nreq && !r.Failed(); i++ {
		r.Step()
		id := fmt.Sprintf("q%d", i)
		onReplica := t.Chance(2, 3)
		n, handler := p, hp
		if onReplica {
			n, handler = rep, hr
		}
		method := []string{"GET", "GET", "HEAD", "POST", "PUT", "PATCH", "DELETE", "OPTIONS"}[t.Next(8)]
		// request target: a path and sometimes a query string; the class is
		// decided by the harness's own glob matcher on the path alone
		path := c19Paths[t.Pick(c19PathWeights)]
		pathClass := c19Classify(path)
		// no primary known: the replica loses its primary for this request
		noPrimary := dynamic && onReplica && t.Chance(1, 4)
		if noPrimary {
			svc.mu.Lock()
			svc.Down[p.ID] = true
			svc.mu.Unlock()
			p.Store.Demote()
			for dl := time.Now().Add(10 * time.Second); time.Now().Before(dl); time.Sleep(20 * time.Millisecond) {
				if _, info := rep.Store.PrimaryInfo(); info == nil && !p.Store.IsPrimary() {
					break
				}
			}
			if _, info := rep.Store.PrimaryInfo(); info != nil {
				noPrimary = false
			}
		}
		// cookie
		ldb := n.Store.DB(dbName)
		var lpos ltx.Pos
		if ldb != nil {
			lpos = ldb.Pos()
		}
		cookieClass := []string{"absent", "malformed", "behind", "equal", "ahead"}[t.Pick([]int{3, 1, 2, 2, 4})]
		var want ltx.TXID
		cookie := ""
		switch cookieClass {
		case "malformed":
			cookie = []string{"zzzz", "", "-1", "0000000000000000"}[t.Next(4)]
		case "behind":
			want = lpos.TXID - ltx.TXID(t.Range(0, int(lpos.TXID)-1))
			if want > lpos.TXID || want == 0 {
				want = 1
			}
			cookie = want.String()
		case "equal":
			want = lpos.TXID
			cookie = want.String()
		case "ahead":
			want = lpos.TXID + ltx.TXID(t.Range(1, 3))
			cookie = want.String()
		}
		// replication timing for a cookie that is ahead: commits on the primary
		// after a delay, with the replica connected or cut off
		timing := "none"
		var bg sync.WaitGroup
		if cookieClass == "ahead" && !noPrimary && p.Store.IsPrimary() {
			timing = []string{"early", "late", "never", "partitioned"}[t.Next(4)]
			delay := map[string]time.Duration{"early": 50 * time.Millisecond, "late": 900 * time.Millisecond}[timing]
			if timing == "partitioned" {
				net.Partition(p.ID, rep.ID, true)
				delay = 50 * time.Millisecond
			}
			if timing != "never" {
				need := int(want) - int(pdb().Pos().TXID)
				bg.Add(1)
				go func() {
					defer bg.Done()
					time.Sleep(delay)
					for k := 0; k < need+2 && pdb().Pos().TXID < want; k++ {
						h.commit(t)
					}
				}()
			}
		}
		req, _ := http.NewRequest(method, "http://proxy"+path, http.NoBody)
		req.RequestURI = path
		req.Header.Set("X-Req", id)
		if cookieClass != "absent" {
			req.AddCookie(&http.Cookie{Name: lhttp.TXIDCookieName, Value: cookie})
		}
		app.mu.Lock()
		seenBefore := len(app.seen)
		app.mu.Unlock()
		start := time.Now()
		w := newSimResp()
		panicked := ""
		func() {
			defer func() {
				if rec := recover(); rec != nil {
					panicked = fmt.Sprint(rec)
				}
			}()
			handler.ServeHTTP(w, req)
		}()
		took := time.Since(start)
		bg.Wait()
		if timing == "partitioned" {
			net.HealAll()
		}
		if !r.Check(panicked == "", "c19.panic", "%s %s panicked: %s", method, path, panicked) {
			return
		}
		code := w.code
		if code == 0 {
			code = 200
		}
		app.mu.Lock()
		var got *c19seen
		for k := seenBefore; k < len(app.seen); k++ {
			if app.seen[k].id == id {
				s := app.seen[k]
				got = &s
			}
		}
		wroteTX := app.wrote[id]
		app.mu.Unlock()
		role := "primary"
		if onReplica {
			role = "replica"
			if noPrimary {
				role = "replica-no-primary"
			}
		}
		isRead := method == "GET" || method == "HEAD"
		desc := fmt.Sprintf("%s %s on the %s (cookie %s %q, local position %s, timing %s) => %d after %v, application saw it: %v", method, path, role, cookieClass, cookie, lpos.TXID, timing, code, took, got != nil)
		r.Logf("%s", desc)
		outcome := "forwarded"
		if got == nil {
			outcome = fmt.Sprint(code)
		}
		switch {
		case pathClass == "passthrough":
			r.Check(got != nil, "c19.passthrough", "%s: a passthrough request must reach the application", desc)
		case pathClass == "health" && method == "GET":
			r.Check(got == nil, "c19.health", "%s: the health endpoint is answered by the proxy", desc)
		case isRead && pathClass != "forward":
			// read: read-your-writes
			if want != 0 {
				if got != nil {
					if !r.Check(got.pos.TXID >= want, "c19.read-your-writes", "%s: the application received the read at local position %s, the cookie asks for %s", desc, got.pos.TXID, want) {
						return
					}
					if cookieClass == "ahead" {
						r.Count("c19.read.waited")
					}
				} else {
					r.Check(code == http.StatusGatewayTimeout, "c19.read-refused", "%s: a read that was not forwarded must end in 504", desc)
					r.Check(took >= 500*time.Millisecond, "c19.read-refused", "%s: gave up before the poll time-out", desc)
					r.Count("c19.read.timed-out")
					// was that justified? the local position right now
					if ldb != nil {
						r.Check(ldb.Pos().TXID < want || took >= 500*time.Millisecond, "c19.read-refused", "%s: refused although the position was reached", desc)
					}
				}
			} else {
				r.Check(got != nil, "c19.read-no-cookie", "%s: a read without a usable cookie goes to the application", desc)
			}
		default:
			// write (or always-forward read)
			if onReplica {
				if !r.Check(got == nil, "c19.write-on-replica", "%s: a write reached the application on a replica", desc) {
					return
				}
				if noPrimary {
					// (the replica may have learned of a primary again while the proxy was waiting)
					r.Check(code == http.StatusServiceUnavailable || w.hdr.Get("fly-replay") != "", "c19.write-no-primary", "%s: want 503 without a known primary (or a redirect if one turned up)", desc)
					if code == http.StatusServiceUnavailable {
						r.Count("c19.write.no-primary-503")
					}
				} else {
					fr := w.hdr.Get("fly-replay")
					_, info := rep.Store.PrimaryInfo()
					if info != nil {
						r.Check(fr == "instance="+info.Hostname, "c19.write-redirect", "%s: fly-replay header %q, the primary is %q", desc, fr, info.Hostname)
					} else {
						r.Check(fr != "" || code == http.StatusServiceUnavailable, "c19.write-redirect", "%s: neither a redirect nor 503", desc)
					}
					r.Count("c19.write.redirected")
				}
			} else if p.Store.IsPrimary() {
				if r.Check(got != nil, "c19.write-on-primary", "%s: a write on the primary must reach the application", desc) && wroteTX != 0 {
					// cookie >= the write
					var ck ltx.TXID
					for _, c := range (&http.Response{Header: w.hdr}).Cookies() {
						if c.Name == lhttp.TXIDCookieName {
							ck, _ = ltx.ParseTXID(c.Value)
						}
					}
					r.Check(ck >= wroteTX, "c19.cookie", "%s: the application committed TXID %s for this request, the cookie says %s", desc, wroteTX, ck)
					r.Count("c19.write.cookie-checked")
				}
			}
		}
		r.State("%s/%v/%s/%s/%s/%s", role, isRead, pathClass, cookieClass, timing, outcome)
		if noPrimary {
			svc.mu.Lock()
			delete(svc.Down, p.ID)
			svc.mu.Unlock()
			if !p.WaitPrimary(20 * time.Second) {
				r.Inconclusive("the primary did not come back")
				return
			}
			h.closeConns()
			if !h.openConns(1) {
				return
			}
		}
		// keep the replica in step for the next request
		if p.Store.IsPrimary() {
			waitPos(rep, dbName, pdb().Pos(), 5*time.Second)
		}
		r.Check(!p.Exited && !rep.Exited, "c19.exit", "a node stopped")
	}
	h.closeConns()
	_ = strings.TrimSpace
	if q != nil && !r.Failed() && p.Store.IsPrimary() {
		c19PrimaryChange(r, t, svc, p, q, hp, app, dbName)
	}
}

// c19PrimaryChange: the node in front of which the proxy runs stops being the
// primary - it is demoted and another candidate takes over; in one variant it
// then wins the lease once more but the promotion fails at the lease service's
// next answer and the other node is elected again. From then on the node is a
// replica (the lease service's record says who the primary is): a write that
// reaches its proxy must not be handed to the local application, it is
// redirected to the primary (or refused with 503 while none is known).
func c19PrimaryChange(r *Run, t *Tape, svc *SimLease, p, q *Node, hp http.Handler, app *c19app, dbName string) {
	failedPromotion := t.Chance(1, 2)
	nreq := t.Range(1, 4)
	if err := q.Open(); err != nil {
		r.Inconclusive("second candidate: %v", err)
		return
	}
	pdb := p.Store.DB(dbName)
	if pdb == nil || !waitPos(q, dbName, pdb.Pos(), 10*time.Second) {
		r.Inconclusive("second candidate did not follow")
		return
	}
	holder := func() int { n, _ := svc.Holder(); return n }
	waitFor := func(d time.Duration, cond func() bool) bool {
		for dl := time.Now().Add(d); time.Now().Before(dl); time.Sleep(10 * time.Millisecond) {
			if cond() {
				return true
			}
		}
		return cond()
	}
	p.Store.Demote()
	if !waitFor(20*time.Second, func() bool { return holder() == q.ID && q.Store.IsPrimary() }) {
		r.Inconclusive("the second candidate did not take over")
		return
	}
	r.Count("c19.primary-change")
	if failedPromotion {
		// q steps down, p is elected, p's promotion fails at the next answer of
		// the lease service, p cannot reach the service for a moment, q is elected
		svc.mu.Lock()
		svc.FailClusterID[p.ID] = 1
		svc.DownAfterClusterIDFail = true
		svc.mu.Unlock()
		q.Store.Demote()
		consumed := waitFor(10*time.Second, func() bool {
			svc.mu.Lock()
			defer svc.mu.Unlock()
			return svc.FailClusterID[p.ID] == 0
		})
		svc.mu.Lock()
		svc.FailClusterID[p.ID] = 0
		svc.DownAfterClusterIDFail = false
		svc.Down[p.ID] = true
		svc.mu.Unlock()
		// (p stays cut off from the lease service - a partition - while the
		// requests below arrive; whether q is elected or nobody is, the record
		// says that p is not the primary once its session has run out)
		ok := waitFor(8*time.Second, func() bool { return holder() == q.ID && q.Store.IsPrimary() })
		defer func() {
			svc.mu.Lock()
			delete(svc.Down, p.ID)
			svc.mu.Unlock()
		}()
		if !ok && holder() == p.ID {
			return // p holds the lease after all: not this scenario
		}
		// (if nobody was elected the lease record still says that p is not the
		// primary: the requests below are judged by the record)
		if consumed {
			r.Count("c19.failed-promotion")
		}
	}
	// p learns of the primary (a correct node needs a moment; one that still
	// believes it is the primary never does - the requests below tell)
	waitFor(2*time.Second, func() bool {
		_, info := p.Store.PrimaryInfo()
		return info != nil && info.Hostname == q.Name
	})
	for i := 0; i < nreq && !r.Failed(); i++ {
		if holder() == p.ID {
			return // (p is the primary again: not this scenario)
		}
		id := fmt.Sprintf("pc%d", i)
		method := []string{"POST", "PUT", "PATCH", "DELETE"}[t.Next(4)]
		req, _ := http.NewRequest(method, "http://proxy/api/items", http.NoBody)
		req.RequestURI = "/api/items"
		req.Header.Set("X-Req", id)
		app.mu.Lock()
		seenBefore := len(app.seen)
		app.mu.Unlock()
		w := newSimResp()
		hp.ServeHTTP(w, req)
		if holder() == p.ID {
			return
		}
		app.mu.Lock()
		reached := false
		for k := seenBefore; k < len(app.seen); k++ {
			if app.seen[k].id == id {
				reached = true
			}
		}
		app.mu.Unlock()
		isPrimary, info := p.Store.PrimaryInfo()
		desc := fmt.Sprintf("%s /api/items on %s after %s took over as primary (failed promotion of the former in between: %v; %s reports isPrimary=%v, primary=%v) => %d, fly-replay %q, application saw it: %v", method, p.Name, q.Name, failedPromotion, p.Name, isPrimary, info, w.code, w.hdr.Get("fly-replay"), reached)
		r.Logf("%s", desc)
		if !r.Check(!reached, "c19.write-on-replica", "%s: a write reached the application on a node that is not the primary", desc) {
			return
		}
		fr := w.hdr.Get("fly-replay")
		r.Check(fr != "" || w.code == http.StatusServiceUnavailable, "c19.write-redirect", "%s: want a redirect to the primary or 503", desc)
		if holder() == q.ID && fr != "" {
			r.Check(fr == "instance="+q.Name, "c19.write-redirect", "%s: the primary is %s", desc, q.Name)
		}
		r.Count("c19.write.redirected-after-change")
		r.State("primary-change/%v/%s/%d", failedPromotion, method, w.code)
	}
}
