package verifsim

import (
	"math/rand"
	"sync"
)

// Tape is the single source of every decision in a run. In generation mode
// values are drawn from one PRNG seeded with the run's seed and recorded; in
// replay mode recorded values are returned, and once the tape is exhausted the
// value is always 0, which by convention is the "boring" choice (keep running
// the same goroutine, no fault, smallest size). Minimisation edits the tape.
type Tape struct {
	mu     sync.Mutex
	rng    *rand.Rand
	vals   []uint32
	pos    int
	replay bool
}

// NewTape returns a generating tape.
func NewTape(seed int64) *Tape {
	return &Tape{rng: rand.New(rand.NewSource(seed))}
}

// ReplayTape returns a tape that replays vals and then yields zeros.
func ReplayTape(vals []uint32) *Tape {
	return &Tape{vals: append([]uint32(nil), vals...), replay: true}
}

// Next returns a value in [0,n). n<=1 returns 0 without consuming the tape.
func (t *Tape) Next(n int) int {
	if n <= 1 {
		return 0
	}
	t.mu.Lock()
	defer t.mu.Unlock()
	if t.replay {
		if t.pos >= len(t.vals) {
			t.pos++
			return 0
		}
		v := int(t.vals[t.pos]) % n
		t.pos++
		return v
	}
	v := t.rng.Intn(n)
	t.vals = append(t.vals, uint32(v))
	t.pos++
	return v
}

// Chance returns true with probability num/den. A tape value of 0 is false.
func (t *Tape) Chance(num, den int) bool {
	if num <= 0 {
		return false
	}
	if num >= den {
		return true
	}
	return t.Next(den) >= den-num
}

// Range returns a value in [lo,hi] (inclusive); 0 on the tape maps to lo.
func (t *Tape) Range(lo, hi int) int {
	if hi <= lo {
		return lo
	}
	return lo + t.Next(hi-lo+1)
}

// Pick returns an index chosen by integer weights; index 0 is the boring one.
func (t *Tape) Pick(weights []int) int {
	sum := 0
	for _, w := range weights {
		if w > 0 {
			sum += w
		}
	}
	if sum == 0 {
		return 0
	}
	v := t.Next(sum)
	for i, w := range weights {
		if w <= 0 {
			continue
		}
		if v < w {
			return i
		}
		v -= w
	}
	return len(weights) - 1
}

// Bytes fills b with tape-derived bytes (cheaply: one draw seeds a local PRNG).
// Content bytes do not need to be minimised individually.
func (t *Tape) Bytes(b []byte) {
	s := t.Next(1 << 30)
	x := uint64(s)*2862933555777941757 + 3037000493
	for i := range b {
		x ^= x << 13
		x ^= x >> 7
		x ^= x << 17
		b[i] = byte(x >> 24)
	}
}

// Used returns the values consumed so far (generation) or the replayed prefix.
func (t *Tape) Used() []uint32 {
	if t.replay {
		n := t.pos
		if n > len(t.vals) {
			n = len(t.vals)
		}
		return append([]uint32(nil), t.vals[:n]...)
	}
	return append([]uint32(nil), t.vals...)
}

// Pos returns the number of draws made.
func (t *Tape) Pos() int { return t.pos }

// Fork draws one value from this tape and returns an independent generating
// tape seeded with it. Goroutines that run concurrently with others (actors,
// connections, files) draw from their own fork so that the order in which
// they happen to run within one scheduler step cannot change anyone's values;
// a replay regenerates every fork from the recorded seed.
func (t *Tape) Fork() *Tape {
	return NewTape(int64(t.Next(1<<31-1)) + 1)
}
