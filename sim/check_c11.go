package verifsim

import (
	"bytes"
	"context"
	"encoding/binary"
	"fmt"
	"os"
	"path/filepath"
	"sort"
	"strconv"
	"strings"
	"sync/atomic"
	"syscall"
	"time"

	"bazil.org/fuse"
	"github.com/superfly/litefs"
	"github.com/superfly/ltx"
)

func init() {
	register(&CheckDef{
		ID:    "C11",
		Level: "exploration",
		Rule:  "(1) lock-table walk: on a real node with a database in rollback or WAL mode, 2-3 simulated processes issue seeded sequences of the lock requests SQLite's protocols are made of (PENDING/SHARED/RESERVED read, write, upgrade, downgrade, 2-byte and whole-file unlocks; DMS, WRITE, CKPT, RECOVER, CKPT+RECOVER, READ0-4 singly and as a range; close), interleaved in every order the seed produces with LiteFS's own write-lock attempts and releases (TryAcquireWriteLock), timed AcquireWriteLock users (checkpoint, recover, import) and out-of-protocol WAL writes. Every request's result is compared with an independent POSIX byte-range-lock specification of the client side (all-or-nothing per request, EAGAIN on conflict, plus the property's own rule that an exclusive CKPT is refused while another owner holds WRITE); LiteFS's write lock may only succeed when no client holds a read or write transaction lock, a failed attempt must leave the lock states unchanged, and while it is held no client can obtain SHARED/RESERVED (rollback) or a READ mark, WRITE, CKPT or RECOVER (WAL). Every database page write or truncation LiteFS performs outside a client's own system call is checked against the client lock table. (2) the multi-node fault simulation with the same internal-write monitor on every node, fed by the simulated kernel's own record of granted locks. evaluations = lock requests + internal write sections checked; distinct = distinct (mode, abstract lock-table state, request, result) tuples; non-trivial = run with >= 1 refused request and >= 1 internal write section",
		Run:   runC11,
		NonTrivial: func(r *Run) bool {
			return r.Stats["c11.refused"] > 0 || r.Stats["c11.internal-write.checked"] > 0 || r.Stats["c11.flip.checked"] > 0 || (r.Stats["c11.halt.probe"] > 0 && r.Stats["c11.halt.local-busy"] > 0) || r.Stats["c11.hot-journal.left"] > 0 || (r.Stats["c11.mode-change.left-wal"] > 0 && r.Stats["c11.mode-change.granted"] > 0)
		},
		Assumptions: []string{"the client side of the specification is POSIX fcntl semantics per lock byte as SQLite uses them; what LiteFS's internal owner holds is not assumed but constrained by the property's statements only"},
		Real:        []string{"fuse DatabaseHandle/SHMHandle Lock/Unlock/Flush, litefs lock(), DB.TryLock/TryRLock/Unlock/CanLock, TryAcquireWriteLock/AcquireWriteLock, Checkpoint, Recover, Import, replica apply (scenario 2)"},
		Stub:        []string{"SimKernel", "PagerSim (scenario 2)", "SimNet/SimLease (scenario 2)"},
	})
}

func runC11(r *Run) {
	pick := r.Tape.Pick([]int{13, 6, 1, 5, 3, 3})
	if v := os.Getenv("SIM_C11_SCENARIO"); v != "" { // developer override
		pick, _ = strconv.Atoi(v)
	}
	switch pick {
	case 0:
		r.Cfg["scenario"] = "walk"
		c11Walk(r)
	case 1:
		r.Cfg["scenario"] = "cluster"
		c11Cluster(r)
	case 2:
		r.Cfg["scenario"] = "mode-flip"
		c11ModeFlip(r)
	case 3:
		r.Cfg["scenario"] = "halt-race"
		c11HaltRace(r)
	case 4:
		r.Cfg["scenario"] = "hot-journal-race"
		c11HotJournalRace(r)
	default:
		r.Cfg["scenario"] = "mode-change-race"
		c11ModeChangeRace(r)
	}
}

// c11ModeFlip: a replica applies the transaction that takes a WAL database back
// to a rollback journal (or the other way round) while an application opens a
// new connection on the replica. The applier is held up (a stalled thread)
// at a seeded page operation; the new connection does what SQLite does - SHARED,
// page 1, then the locks of the journal mode page 1 names - and, if it is not
// refused, reads the whole database. Whatever it reads must be the committed
// image of the position the replica reports while the connection holds its locks.
func c11ModeFlip(r *Run) {
	t := r.Tape
	pr := newPair(r, t.Chance(1, 2), 0)
	if !pr.open() {
		return
	}
	h := &hist{r: r, n: pr.p, name: "db"}
	h.pageSize = []uint32{512, 4096}[t.Next(2)]
	h.jmode = []string{ModeDelete, ModeTruncate, ModePersist}[t.Next(3)]
	h.maxPages = 12
	toRollback := t.Chance(2, 3)
	r.Cfg["page_size"], r.Cfg["to_rollback"] = h.pageSize, toRollback
	if !h.openConns(1) {
		return
	}
	h.commit(t)
	if r.Failed() {
		return
	}
	if h.ref.N() < 4 {
		c := h.conns[0]
		c.Mode = h.jmode
		res := c.WriteTx(TxProgram{NewSize: uint32(t.Range(4, 10)), Outcome: OutCommit}, h.ref)
		if res.Outcome != OutCommit {
			r.Inconclusive("growing the database was refused at %s: %v", res.FailedAt, res.Errno)
			return
		}
		h.ref = res.After
	}
	if toRollback {
		if !h.toWAL() {
			return
		}
		for i := t.Range(1, 3); i > 0 && !r.Failed(); i-- {
			h.commit(t)
		}
	}
	if r.Failed() || !pr.waitReplica(h.name, 10*time.Second) {
		return
	}
	rdb := pr.rep.Store.DB(h.name)
	if rdb == nil {
		return
	}
	images := map[ltx.Pos]*Image{rdb.Pos(): h.ref}
	// the applier stalls at its stopAt-th page operation
	stopAt := int32(t.Range(1, int(h.ref.N())+1))
	var ops atomic.Int32
	pr.rep.SetPageOpHook(func(db *litefs.DB, op string, pgno uint32) error {
		if ops.Add(1) == stopAt {
			r.Count("fault.applier_stalled")
			time.Sleep(40 * time.Millisecond)
		}
		return nil
	})
	defer pr.rep.SetPageOpHook(nil)
	// the application on the replica. In one run out of four the connection is
	// "in flight" when the applier takes its locks: it already holds SHARED and
	// has not read page 1 yet (in SQLite a handful of system calls lie between
	// the two).
	inFlight := t.Chance(1, 4)
	r.Cfg["in_flight_open"] = inFlight
	oracle := "c11.flip"
	if inFlight {
		oracle = "c11.flip.in-flight-open"
	}
	done := make(chan struct{})
	early := make(chan struct{})
	go func() {
		defer close(done)
		c := pr.rep.NewConn(h.name, h.jmode, h.pageSize)
		if c.Open() != 0 {
			close(early)
			return
		}
		defer c.Close()
		if inFlight {
			if c.LockShared() != 0 {
				close(early)
				return
			}
			defer c.UnlockAll()
		}
		close(early)
		for dl := time.Now().Add(5 * time.Second); ops.Load() < stopAt; time.Sleep(time.Millisecond) {
			if time.Now().After(dl) {
				return
			}
		}
		if !inFlight {
			if c.LockShared() != 0 {
				r.Count("c11.flip.reader-refused")
				return
			}
			defer c.UnlockAll()
		}
		hdr, ok, e := c.ReadHeader()
		if e != 0 || !ok {
			return
		}
		var im *Image
		pos := rdb.Pos()
		if hdr.WAL {
			if c.WalOpen() != 0 {
				r.Count("c11.flip.reader-refused")
				return
			}
			if _, e := c.WalBeginRead(); e != 0 {
				r.Count("c11.flip.reader-refused")
				return
			}
			pos = rdb.Pos()
			im, e = c.WalReadImageLocked()
			c.WalEndRead()
		} else {
			im, e = c.ReadImageLocked()
		}
		if e != 0 || im == nil {
			return
		}
		r.Count("c11.flip.reader-read")
		if after := rdb.Pos(); after != pos {
			r.Failf(oracle, "a connection opened on the replica while it applied the journal-mode change held its read locks (page 1 said WAL=%v) and the replica's position moved from %s to %s underneath it", hdr.WAL, pos, after)
			return
		}
		want, known := images[pos]
		if !known {
			return
		}
		if d := DiffImages(im, want); d != "" {
			r.Failf(oracle, "a connection opened on the replica while it applied the journal-mode change (applier stalled at its page operation %d; page 1 said WAL=%v) read, under its locks, something else than the image of position %s: %s", stopAt, hdr.WAL, pos, d)
		}
	}()
	<-early
	// the primary changes the journal mode, touching every page
	c := h.conns[0]
	var res TxResult
	all := make([]uint32, 0, h.ref.N())
	for pg := uint32(1); pg <= h.ref.N(); pg++ {
		all = append(all, pg)
	}
	if toRollback {
		if at, e := c.WalCloseLast(h.ref); e != 0 || at != "" {
			r.Inconclusive("closing the WAL as the last connection failed at %q: %v", at, e)
			return
		}
		c.UnlockAll()
		c.Mode = h.jmode
		res = c.WriteTx(TxProgram{NewSize: h.ref.N(), Outcome: OutCommit, SetWAL: 2, Modify: all}, h.ref)
	} else {
		c.Mode = h.jmode
		res = c.WriteTx(TxProgram{NewSize: h.ref.N(), Outcome: OutCommit, SetWAL: 1, Modify: all}, h.ref)
	}
	if res.Outcome != OutCommit {
		r.Inconclusive("the journal-mode change was refused at %s: %v", res.FailedAt, res.Errno)
		return
	}
	h.ref = res.After
	images[pr.p.Store.DB(h.name).Pos()] = h.ref
	select {
	case <-done:
	case <-time.After(20 * time.Second):
		r.Failf("c11.flip", "the connection on the replica has not finished 20 s after the journal-mode change")
		return
	}
	if r.Failed() {
		return
	}
	if !r.Check(pr.waitReplica(h.name, 10*time.Second), "c11.flip", "the replica does not reach the primary's position after the journal-mode change") {
		return
	}
	r.Count("c11.flip.checked")
	r.State("flip/%v/%d", toRollback, stopAt)
}

const (
	lbPending  = uint64(0x40000000)
	lbReserved = uint64(0x40000001)
	lbShared   = uint64(0x40000002)
	lbWrite    = uint64(120)
	lbCkpt     = uint64(121)
	lbRecover  = uint64(122)
	lbRead0    = uint64(123)
	lbDMS      = uint64(128)
)

func lbName(b uint64) string {
	switch b {
	case lbPending:
		return "PENDING"
	case lbReserved:
		return "RESERVED"
	case lbShared:
		return "SHARED"
	case lbWrite:
		return "WRITE"
	case lbCkpt:
		return "CKPT"
	case lbRecover:
		return "RECOVER"
	case lbDMS:
		return "DMS"
	}
	if b >= lbRead0 && b <= lbRead0+4 {
		return fmt.Sprintf("READ%d", b-lbRead0)
	}
	return fmt.Sprint(b)
}

// conflictingClientLocks lists client-held locks that mean "a connection is
// reading, writing or checkpointing": any database-file lock in rollback
// mode; WRITE, CKPT, RECOVER or a read mark in WAL mode.
func conflictingClientLocks(wal bool, dbLocks, shmLocks map[uint64]map[uint64]int) []string {
	var out []string
	if !wal {
		for o, m := range dbLocks {
			for b := range m {
				out = append(out, fmt.Sprintf("owner %d holds %s", o, lbName(b)))
			}
		}
	} else {
		for o, m := range shmLocks {
			for b := range m {
				if b != lbDMS {
					out = append(out, fmt.Sprintf("owner %d holds %s", o, lbName(b)))
				}
			}
		}
	}
	sort.Strings(out)
	return out
}

// rawWALMode reads the journal mode from page 1 of the raw database file.
func rawWALMode(dbDir string) bool {
	f, err := os.Open(filepath.Join(dbDir, "database"))
	if err != nil {
		return false
	}
	defer f.Close()
	var b [20]byte
	if _, err := f.ReadAt(b[:], 0); err != nil {
		return false
	}
	return b[18] == 2 && b[19] == 2
}

// installInternalWriteMonitor flags database page writes / truncations that
// LiteFS performs outside a client's system call while a client holds a
// conflicting lock according to the kernel's own lock table.
func installInternalWriteMonitor(r *Run, n *Node, oracle string, modeOf func(db *litefs.DB) (wal, known bool)) {
	inClient := map[uint64]int{}
	prevOp := n.K.OnOp
	n.K.OnOp = func(detail string) {
		if prevOp != nil {
			prevOp(detail)
		}
	}
	n.K.OnCall = func(what string, enter bool) {
		// only the application's own writes and truncations of the file; what
		// LiteFS does on its own inside any other call (a lock release, a
		// close, an unlink) is LiteFS's doing
		if what != "write" && what != "setattr" {
			return
		}
		n.K.Locks.mu.Lock()
		if enter {
			inClient[goid()]++
		} else {
			inClient[goid()]--
		}
		n.K.Locks.mu.Unlock()
	}
	prev := pageOpHookOf(n)
	gen := n.K // the kernel (process generation) this monitor belongs to
	n.SetPageOpHook(func(db *litefs.DB, op string, pgno uint32) error {
		if prev != nil {
			if err := prev(db, op, pgno); err != nil {
				return err
			}
		}
		if n.K != gen {
			// a goroutine of the process that was killed (its file operations
			// fail, it is winding down): the lock table is the new process's
			return nil
		}
		n.K.Locks.mu.Lock()
		client := inClient[goid()] > 0
		n.K.Locks.mu.Unlock()
		if client {
			return nil // the application's own write / truncate
		}
		// the journal mode of the committed image the clients work with (an
		// interrupted mode-switching transaction leaves any header in the file)
		wal, known := modeOf(db)
		if !known {
			return nil
		}
		bad := conflictingClientLocks(wal, n.K.Locks.Held(db.Name()), n.K.Locks.Held(db.Name()+"-shm"))
		r.Count("c11.internal-write.checked")
		if len(bad) > 0 {
			r.Failf(oracle+".internal-write-under-client-lock", "%s: LiteFS %ss page %d of %s (WAL mode %v) on its own while %s", n.Name, op, pgno, db.Name(), wal, strings.Join(bad, ", "))
		}
		return nil
	})
}

type c11owner struct {
	id   uint64
	dbf  *File
	shmf *File
	db   map[uint64]int // spec: lock byte -> 1/2
	shm  map[uint64]int
}

func c11Walk(r *Run) {
	t := r.Tape
	h := &hist{r: r, name: "db"}
	h.pageSize = []uint32{512, 4096}[t.Next(2)]
	h.jmode = []string{ModeDelete, ModeTruncate, ModePersist}[t.Next(3)]
	h.maxPages = 12
	wal := t.Chance(1, 2)
	r.Cfg["wal"], r.Cfg["page_size"] = wal, h.pageSize
	h.n = newStaticPrimary(r, false, nil)
	if h.n == nil {
		return
	}
	n := h.n
	if !h.openConns(1) {
		return
	}
	if !c06Commits(r, h, t, t.Range(1, 3), nil) || h.ref.N() == 0 {
		return
	}
	if wal {
		if !h.toWAL() {
			return
		}
		c06Commits(r, h, t, t.Range(1, 2), nil) // leaves frames in the log for checkpoints
	}
	if r.Failed() {
		return
	}
	// the setup connection stays around as an idle WAL connection would; close it
	// for rollback mode
	h.closeConns()
	db := n.Store.DB(h.name)
	installInternalWriteMonitor(r, n, "c11", func(*litefs.DB) (bool, bool) { return wal, true })

	nown := t.Range(2, 3)
	var owners []*c11owner
	for i := 0; i < nown; i++ {
		o := &c11owner{id: n.NewOwner(), db: map[uint64]int{}, shm: map[uint64]int{}}
		f, e := n.K.Open(h.name, os.O_RDWR, o.id)
		if e != 0 {
			r.Failf("c11.open", "open database: %v", e)
			return
		}
		o.dbf = f
		if wal {
			sf, e := n.K.Open(h.name+"-shm", os.O_RDWR|os.O_CREATE, o.id)
			if e != 0 {
				r.Failf("c11.open", "open shm: %v", e)
				return
			}
			o.shmf = sf
		}
		owners = append(owners, o)
	}
	defer func() {
		for _, o := range owners {
			if o.shmf != nil {
				o.shmf.Close()
			}
			if o.dbf != nil {
				o.dbf.Close()
			}
		}
	}()
	var guard *litefs.GuardSet // LiteFS's own write lock, when held
	release := func() {
		if guard != nil {
			guard.Unlock()
			guard = nil
		}
	}
	defer release()

	held := func(skip *c11owner) (dbl, shml map[uint64]map[uint64]int) {
		dbl, shml = map[uint64]map[uint64]int{}, map[uint64]map[uint64]int{}
		for _, o := range owners {
			if o == skip {
				continue
			}
			if len(o.db) > 0 {
				dbl[o.id] = o.db
			}
			if len(o.shm) > 0 {
				shml[o.id] = o.shm
			}
		}
		return
	}
	abstract := func() string {
		var parts []string
		for _, o := range owners {
			var ls []string
			for b, v := range o.db {
				ls = append(ls, fmt.Sprintf("%s%d", lbName(b), v))
			}
			for b, v := range o.shm {
				ls = append(ls, fmt.Sprintf("%s%d", lbName(b), v))
			}
			sort.Strings(ls)
			parts = append(parts, strings.Join(ls, "+"))
		}
		sort.Strings(parts)
		g := ""
		if guard != nil {
			g = "|L"
		}
		return strings.Join(parts, "/") + g
	}

	type lockReq struct {
		shm        bool
		typ        fuse.LockType
		start, end uint64
		name       string
	}
	dbReqs := []lockReq{
		{false, fuse.LockRead, lbPending, lbPending, "rd PENDING"},
		{false, fuse.LockRead, lbShared, lbShared + 509, "rd SHARED"},
		{false, fuse.LockUnlock, lbPending, lbPending, "un PENDING"},
		{false, fuse.LockWrite, lbReserved, lbReserved, "wr RESERVED"},
		{false, fuse.LockWrite, lbPending, lbPending, "wr PENDING"},
		{false, fuse.LockWrite, lbShared, lbShared + 509, "wr SHARED"},
		{false, fuse.LockUnlock, lbPending, lbReserved, "un PENDING+RESERVED"},
		{false, fuse.LockUnlock, 0, ^uint64(0), "un db *"},
	}
	shmReqs := []lockReq{
		{true, fuse.LockRead, lbDMS, lbDMS, "rd DMS"},
		{true, fuse.LockWrite, lbDMS, lbDMS, "wr DMS"},
		{true, fuse.LockWrite, lbWrite, lbWrite, "wr WRITE"},
		{true, fuse.LockUnlock, lbWrite, lbWrite, "un WRITE"},
		{true, fuse.LockWrite, lbCkpt, lbCkpt, "wr CKPT"},
		{true, fuse.LockRead, lbCkpt, lbCkpt, "rd CKPT"},
		{true, fuse.LockUnlock, lbCkpt, lbCkpt, "un CKPT"},
		{true, fuse.LockWrite, lbCkpt, lbRecover, "wr CKPT+RECOVER"},
		{true, fuse.LockUnlock, lbCkpt, lbRecover, "un CKPT+RECOVER"},
		{true, fuse.LockWrite, lbRecover, lbRecover, "wr RECOVER"},
		{true, fuse.LockUnlock, lbRecover, lbRecover, "un RECOVER"},
		{true, fuse.LockWrite, lbRead0 + 1, lbRead0 + 4, "wr READ1-4"},
		{true, fuse.LockUnlock, lbRead0 + 1, lbRead0 + 4, "un READ1-4"},
		{true, fuse.LockUnlock, lbWrite, lbRead0 + 4, "un shm 120-127"},
	}
	for i := uint64(0); i < 5; i++ {
		shmReqs = append(shmReqs,
			lockReq{true, fuse.LockRead, lbRead0 + i, lbRead0 + i, fmt.Sprintf("rd READ%d", i)},
			lockReq{true, fuse.LockWrite, lbRead0 + i, lbRead0 + i, fmt.Sprintf("wr READ%d", i)},
			lockReq{true, fuse.LockUnlock, lbRead0 + i, lbRead0 + i, fmt.Sprintf("un READ%d", i)})
	}
	bytesIn := func(q lockReq) []uint64 {
		var out []uint64
		for _, lb := range lockBytes {
			if q.start <= lb.last && lb.b <= q.end {
				if (lb.b >= lbPending) != !q.shm { // database bytes for db requests, shm bytes for shm requests
					continue
				}
				out = append(out, lb.b)
			}
		}
		return out
	}

	steps := t.Range(20, 80)
	for i := 0; i < steps && !r.Failed(); i++ {
		r.Step()
		k := t.Pick([]int{70, 10, 8, 6, 6})
		switch k {
		case 0: // a client lock request
			o := owners[t.Next(len(owners))]
			reqs := dbReqs
			if wal && t.Chance(2, 3) {
				reqs = shmReqs
			}
			// bias towards protocol order: mostly requests whose precondition holds
			q := reqs[t.Next(len(reqs))]
			for try := 0; try < 4; try++ {
				ok := true
				switch q.name {
				case "rd SHARED":
					ok = o.db[lbPending] != 0 || o.db[lbShared] != 0
				case "wr RESERVED":
					ok = o.db[lbShared] != 0 && !wal
				case "wr PENDING":
					ok = o.db[lbShared] != 0
				case "wr SHARED":
					ok = o.db[lbPending] == 2
				case "wr WRITE":
					ok = len(o.shm) > 0
				}
				if strings.HasPrefix(q.name, "un ") {
					ok = false
					m := o.db
					if q.shm {
						m = o.shm
					}
					for _, b := range bytesIn(q) {
						if m[b] != 0 {
							ok = true
						}
					}
				}
				if ok {
					break
				}
				q = reqs[t.Next(len(reqs))]
			}
			f, spec := o.dbf, o.db
			if q.shm {
				f, spec = o.shmf, o.shm
			}
			// expected result from the client-side specification
			dbl, shml := held(o)
			others := dbl
			if q.shm {
				others = shml
			}
			conflict := ""
			if q.typ != fuse.LockUnlock {
				for _, b := range bytesIn(q) {
					for oid, m := range others {
						if v := m[b]; v == 2 || (v == 1 && q.typ == fuse.LockWrite) {
							conflict = fmt.Sprintf("owner %d holds %s (%d)", oid, lbName(b), v)
						}
					}
					if b == lbCkpt && q.typ == fuse.LockWrite {
						for oid, m := range shml {
							if m[lbWrite] != 0 {
								conflict = fmt.Sprintf("owner %d holds WRITE (checkpoint gating)", oid)
							}
						}
					}
				}
			}
			before := db.VerifLockStates()
			e := f.Lock(q.typ, q.start, q.end)
			desc := fmt.Sprintf("owner %d: %s => %v [%s]", o.id, q.name, e, abstract())
			r.Logf("%s", desc)
			if guard != nil && q.typ != fuse.LockUnlock {
				// LiteFS holds its write lock: nobody may begin reading or writing
				begins := false
				for _, b := range bytesIn(q) {
					if !wal && (b == lbShared || b == lbReserved) {
						begins = true
					}
					if wal && (b == lbWrite || b == lbCkpt || b == lbRecover || (b >= lbRead0 && b <= lbRead0+4)) {
						begins = true
					}
				}
				if begins {
					if !r.Check(e != 0, "c11.granted-during-internal-write", "%s was granted while LiteFS holds its write lock", desc) {
						return
					}
				}
				if conflict == "" && e != 0 {
					// refused because of LiteFS's own lock: fine, nothing to record
					r.Count("c11.refused")
					r.State("walk/%v/L/%s/%v", wal, q.name, e)
					continue
				}
			}
			if conflict != "" {
				if !r.Check(e != 0, "c11.granted", "%s must be refused: %s", desc, conflict) {
					return
				}
				r.Check(e == syscall.EAGAIN, "c11.errno", "%s is refused with %v, want EAGAIN", desc, e)
				after := db.VerifLockStates()
				r.Check(fmt.Sprint(before) == fmt.Sprint(after), "c11.partial", "%s was refused but changed the lock states: %v -> %v", desc, before, after)
				r.Count("c11.refused")
			} else if guard == nil {
				if !r.Check(e == 0, "c11.refused-without-conflict", "%s: nobody holds a conflicting lock", desc) {
					return
				}
			}
			if e == 0 {
				for _, b := range bytesIn(q) {
					switch q.typ {
					case fuse.LockUnlock:
						delete(spec, b)
					case fuse.LockRead:
						spec[b] = 1
					case fuse.LockWrite:
						spec[b] = 2
					}
				}
				r.Count("c11.granted")
			}
			r.State("walk/%v/%s/%s/%v", wal, abstract(), q.name, e != 0)
		case 1: // LiteFS tries its write lock / releases it
			if guard != nil {
				if t.Chance(1, 3) {
					// a second internal writer while the first holds the write
					// lock: refused, and nothing changes hands
					before := db.VerifLockStates()
					second := db.TryAcquireWriteLock()
					after := db.VerifLockStates()
					r.Logf("L2: try => %v", second != nil)
					if !r.Check(second == nil, "c11.internal-writers-overlap", "a second internal writer was granted the write lock while the first still holds it") {
						return
					}
					r.Check(fmt.Sprint(before) == fmt.Sprint(after), "c11.partial", "a refused second internal write-lock attempt changed the lock states: %v -> %v", before, after)
					r.Count("c11.internal-lock.second-refused")
					continue
				}
				release()
				r.Logf("L: release")
				continue
			}
			dbl, shml := held(nil)
			bad := conflictingClientLocks(wal, dbl, shml)
			before := db.VerifLockStates()
			guard = db.TryAcquireWriteLock()
			r.Logf("L: try => %v [%s]", guard != nil, abstract())
			if guard != nil {
				if !r.Check(len(bad) == 0, "c11.internal-lock-granted", "LiteFS's write lock was granted while %s", strings.Join(bad, ", ")) {
					return
				}
				r.Count("c11.internal-lock.granted")
			} else {
				after := db.VerifLockStates()
				r.Check(fmt.Sprint(before) == fmt.Sprint(after), "c11.partial", "LiteFS's failed write-lock attempt changed the lock states: %v -> %v", before, after)
				if len(bad) == 0 {
					r.Count("c11.internal-lock.refused-without-client-transaction")
				} else {
					r.Count("c11.refused")
				}
			}
			r.State("walk/%v/%s/L-try/%v", wal, abstract(), guard != nil)
		case 2: // a timed AcquireWriteLock user
			heldByFirst := guard != nil
			var statesBefore any
			if heldByFirst {
				// another internal writer holds the write lock: this one has to
				// time out and leave everything as it was
				statesBefore = fmt.Sprint(db.VerifLockStates())
			}
			ctx, cancel := context.WithTimeout(context.Background(), 30*time.Millisecond)
			var err error
			what := []string{"checkpoint", "recover", "import"}[t.Next(3)]
			switch what {
			case "checkpoint":
				err = db.Checkpoint(ctx)
			case "recover":
				err = db.Recover(ctx)
			default:
				im := MakeImage(h.pageSize, uint32(t.Range(1, 6)), wal, 300+i)
				res := n.HTTP(ctx, "POST", "/import?name="+h.name, nil, bytes.NewReader(im.Bytes()), false)
				if res.Code != 200 {
					err = fmt.Errorf("status %d", res.Code)
				}
			}
			cancel()
			if heldByFirst {
				if !r.Check(err != nil, "c11.internal-writers-overlap", "LiteFS's %s ran to completion while another internal writer held the write lock", what) {
					return
				}
				r.Check(fmt.Sprint(db.VerifLockStates()) == statesBefore, "c11.internal-writers-overlap", "a %s that had to wait for another internal writer changed the lock states: %v -> %v", what, statesBefore, db.VerifLockStates())
				r.Count("c11.internal-lock.second-refused")
				continue
			}
			r.Logf("L: %s => %v [%s]", what, err, abstract())
			r.State("walk/%v/%s/L-%s/%v", wal, abstract(), what, err == nil)
			// the internal-write monitor judges what it wrote; the lock states must be back
			if err != nil {
				r.Count("c11.refused")
			}
		case 3: // close and reopen a process's descriptors (drops its locks)
			o := owners[t.Next(len(owners))]
			if o.shmf != nil && t.Chance(1, 2) {
				o.shmf.Close()
				o.shm = map[uint64]int{}
				sf, e := n.K.Open(h.name+"-shm", os.O_RDWR|os.O_CREATE, o.id)
				if e != 0 {
					r.Failf("c11.open", "reopen shm: %v", e)
					return
				}
				o.shmf = sf
			} else {
				o.dbf.Close()
				o.db = map[uint64]int{}
				f, e := n.K.Open(h.name, os.O_RDWR, o.id)
				if e != 0 {
					r.Failf("c11.open", "reopen database: %v", e)
					return
				}
				o.dbf = f
			}
			r.Logf("owner %d: close+reopen [%s]", o.id, abstract())
		case 4: // WAL write without the write lock
			if !wal {
				continue
			}
			o := owners[t.Next(len(owners))]
			// Only while nobody holds WRITE: LiteFS tests the state of the
			// lock, not the identity of its holder, and a connection that
			// follows SQLite's protocol never writes the log while another one
			// holds the lock (observation recorded in DESIGN.md).
			someoneWrites := guard != nil
			for _, x := range owners {
				if x.shm[lbWrite] != 0 {
					someoneWrites = true
				}
			}
			if someoneWrites {
				continue
			}
			wf, e := n.K.Open(h.name+"-wal", os.O_RDWR|os.O_CREATE, o.id)
			if e != 0 {
				continue
			}
			sz, _ := wf.Size()
			before, _ := os.ReadFile(filepath.Join(db.Path(), "wal"))
			var what string
			switch t.Next(3) {
			case 0: // a new log header
				what = "header"
				wh := make([]byte, 32)
				binary.BigEndian.PutUint32(wh[0:], 0x377f0682)
				binary.BigEndian.PutUint32(wh[4:], 3007000)
				binary.BigEndian.PutUint32(wh[8:], h.pageSize)
				binary.BigEndian.PutUint32(wh[16:], 77)
				binary.BigEndian.PutUint32(wh[20:], 78)
				s0, s1 := walCksum(false, 0, 0, wh[:24])
				binary.BigEndian.PutUint32(wh[24:], s0)
				binary.BigEndian.PutUint32(wh[28:], s1)
				e = wf.Pwrite(0, wh)
			case 1: // a frame header at the end of the log
				what = "frame header"
				fh := make([]byte, 24)
				fh[3] = 1
				if sz < 32 {
					sz = 32
				}
				e = wf.Pwrite(sz, fh)
			default: // frame header and page in one write
				what = "frame"
				frame := make([]byte, 24+int(h.pageSize))
				frame[3] = 1
				if sz < 32 {
					sz = 32
				}
				e = wf.Pwrite(sz, frame)
			}
			_ = what
			after, _ := os.ReadFile(filepath.Join(db.Path(), "wal"))
			wf.Close()
			r.Logf("owner %d: wal write without WRITE => %v", o.id, e)
			r.Check(e != 0, "c11.wal-write-without-lock", "owner %d appended a frame to the WAL without holding the write lock (other holders: %s)", o.id, abstract())
			r.Check(bytes.Equal(before, after), "c11.wal-write-without-lock", "a refused WAL write changed the file")
			r.Count("c11.refused")
		}
		r.Check(!n.Exited, "c11.exit", "the node stopped")
	}
}

func c11Cluster(r *Run) {
	t := r.Tape
	cs := newClusterSim(r, 2+t.Next(2), "c11")
	// on the mutex-instrumented binary a third of the runs are also interleaved
	// at (every third or tenth of) LiteFS's mutex acquisitions
	if MutexYieldBuilt && t.Chance(1, 3) {
		r.MutexSeam, r.MutexEvery = true, []int{3, 10}[t.Next(2)]
	}
	r.Cfg["mutex_seam"], r.Cfg["mutex_every"] = r.MutexSeam, r.MutexEvery
	cs.wantTx = t.Range(5, 12)
	for _, n := range cs.cl.Nodes {
		n.PreOpen = nil
	}
	if !cs.openAll() {
		return
	}
	modeOf := func(db *litefs.DB) (bool, bool) {
		pos := db.Pos()
		if pos.TXID == 0 {
			return false, false
		}
		im, ok := cs.ims.Get(db.Name(), pos)
		if !ok || im.N() == 0 {
			return false, false
		}
		hdr, _, ok := decodeDBHeader(im.Pages[0])
		return hdr.WAL, ok
	}
	for _, n := range cs.cl.Nodes {
		installInternalWriteMonitor(r, n, "c11", modeOf)
	}
	cs.onRestart = func(n *Node) { installInternalWriteMonitor(r, n, "c11", modeOf) }
	wt := t.Fork()
	cs.goActor("writer", func() { cs.writerLoop(wt) })
	for _, n := range cs.cl.Nodes {
		n, rt := n, t.Fork()
		cs.goActor("reader-"+n.Name, func() { cs.readerLoop(n, rt) })
	}
	faultW := []int{0, 1, 3}[t.Next(3)]
	for step := 0; step < 4000 && !r.Failed(); step++ {
		cs.handleExits()
		cs.mu.Lock()
		done := cs.commits >= cs.wantTx
		cs.mu.Unlock()
		if done {
			break
		}
		var acts []Action
		if faultW > 0 {
			acts = cs.faultActions(faultW)
		}
		cs.s.StepOnce(acts, true)
	}
	if r.Failed() {
		return
	}
	cs.heal()
	if !cs.quiesce() {
		return
	}
	cs.settle(60 * time.Second)
	r.State("cluster/%d/faults%d", len(cs.cl.Nodes), faultW)
}
