package verifsim

import (
	"context"
	"fmt"
	"os"
	"runtime/debug"
	"sort"
	"strings"
	"sync"
	"syscall"
	"time"

	"bazil.org/fuse"
	"bazil.org/fuse/fs"
	lfuse "github.com/superfly/litefs/fuse"
)

// Kernel models the parts of the Linux VFS/FUSE client that LiteFS's
// properties depend on: name resolution with a positive dentry cache, a page
// cache that is refreshed only by LiteFS's explicit invalidations (the mount
// uses ExplicitInvalidateData and OpenKeepCache), attribute revalidation on
// every access (attr Valid=0), write-through writes, POSIX lock owners, and
// close semantics (Flush drops the owner's locks, Release on last close).
// It dispatches to the real litefs/fuse nodes and handles and converts handler
// errors with bazil's own fuse.ToErrno, as the real server does.
type Kernel struct {
	r    *Run
	node int
	fsys *lfuse.FileSystem
	root *lfuse.RootNode

	mu       sync.Mutex
	inodes   map[fs.Node]*inode
	dentries map[string]*dentry
	shms     map[fs.Node]*shmMap
	opens    map[fs.Node]int
	forgetQ  []fs.Node // FORGETs are asynchronous in the kernel; delivered at the next syscall

	// Panics holds handler panics (bazil recovers them and answers EIO).
	Panics []string

	// EvictPct is the per-read chance (percent) that a clean cached page is
	// evicted before use (always legal for a kernel).
	EvictPct int
	// OnOp, if set, is called at the entry of every simulated system call.
	OnOp func(detail string)
	// OnCall, if set, brackets every handler invocation made on behalf of a
	// simulated process (enter=true before, false after).
	OnCall  func(what string, enter bool)
	NoCache bool // bypass the page cache entirely (every read goes to LiteFS)

	// Locks is the kernel's own record of the POSIX locks it granted to
	// simulated processes (what fcntl returned 0 for), independent of LiteFS.
	Locks LockTable
}

// LockTable records granted byte-range locks per (file name, owner).
type LockTable struct {
	mu sync.Mutex
	m  map[string]map[uint64]map[uint64]int // file -> owner -> lock byte -> 1 read / 2 write
}

// lock bytes that matter (one per SQLite lock; the SHARED range is keyed by its first byte)
var lockBytes = []struct {
	b    uint64
	last uint64
}{
	{0x40000000, 0x40000000}, {0x40000001, 0x40000001}, {0x40000002, 0x40000002 + 509},
	{120, 120}, {121, 121}, {122, 122}, {123, 123}, {124, 124}, {125, 125}, {126, 126}, {127, 127}, {128, 128},
}

func (lt *LockTable) set(file string, owner uint64, typ fuse.LockType, start, end uint64) {
	lt.mu.Lock()
	defer lt.mu.Unlock()
	if lt.m == nil {
		lt.m = map[string]map[uint64]map[uint64]int{}
	}
	if lt.m[file] == nil {
		lt.m[file] = map[uint64]map[uint64]int{}
	}
	if lt.m[file][owner] == nil {
		lt.m[file][owner] = map[uint64]int{}
	}
	for _, lb := range lockBytes {
		if start <= lb.last && lb.b <= end {
			switch typ {
			case fuse.LockUnlock:
				delete(lt.m[file][owner], lb.b)
			case fuse.LockRead:
				lt.m[file][owner][lb.b] = 1
			case fuse.LockWrite:
				lt.m[file][owner][lb.b] = 2
			}
		}
	}
}

func (lt *LockTable) drop(file string, owner uint64) {
	lt.mu.Lock()
	defer lt.mu.Unlock()
	if lt.m != nil && lt.m[file] != nil {
		delete(lt.m[file], owner)
	}
}

// Held returns a copy of the locks granted on a file: owner -> lock byte -> mode.
func (lt *LockTable) Held(file string) map[uint64]map[uint64]int {
	lt.mu.Lock()
	defer lt.mu.Unlock()
	out := map[uint64]map[uint64]int{}
	for o, m := range lt.m[file] {
		if len(m) == 0 {
			continue
		}
		out[o] = map[uint64]int{}
		for b, v := range m {
			out[o][b] = v
		}
	}
	return out
}

const kpage = 4096

type inode struct {
	pages map[int64][]byte // 4 KiB page index -> bytes as read (may be short at EOF)
	size  int64            // last size seen (for truncate_pagecache on shrink)
}

type dentry struct {
	node fs.Node
	at   time.Duration
}

var kernelsMu sync.Mutex
var kernels = map[*lfuse.FileSystem]*Kernel{}

func init() {
	lfuse.VerifInvalidate = func(fsys *lfuse.FileSystem, kind string, node fs.Node, name string, off, size int64) {
		kernelsMu.Lock()
		k := kernels[fsys]
		kernelsMu.Unlock()
		if k != nil {
			k.invalidate(kind, node, name, off, size)
		}
	}
}

// NewKernel attaches a simulated kernel to an unmounted LiteFS file system.
func NewKernel(r *Run, node int, fsys *lfuse.FileSystem) *Kernel {
	fsys.VerifAttachNullServer()
	k := &Kernel{r: r, node: node, fsys: fsys, root: fsys.VerifRoot(),
		inodes: map[fs.Node]*inode{}, dentries: map[string]*dentry{}, shms: map[fs.Node]*shmMap{}, opens: map[fs.Node]int{}}
	kernelsMu.Lock()
	kernels[fsys] = k
	kernelsMu.Unlock()
	return k
}

// Detach unregisters the kernel.
func (k *Kernel) Detach() {
	kernelsMu.Lock()
	delete(kernels, k.fsys)
	kernelsMu.Unlock()
}

func (k *Kernel) invalidate(kind string, node fs.Node, name string, off, size int64) {
	// Invalidation calls are scheduler yield points: a reader may be scheduled
	// between two page writes of an apply.
	if k.r.Sched != nil {
		k.r.Sched.Yield(k.node, "inval", kind)
	}
	k.mu.Lock()
	defer k.mu.Unlock()
	k.r.Count("kernel.invalidate." + kind)
	switch kind {
	case "entry":
		k.dropDentryLocked(name)
	case "data":
		if sm := k.shms[node]; sm != nil {
			sm.invalidated()
		}
		ino := k.inodes[node]
		if ino == nil {
			return
		}
		if size < 0 {
			ino.pages = map[int64][]byte{}
			return
		}
		if size == 0 {
			return // attributes only
		}
		first, last := off/kpage, (off+size-1)/kpage
		for p := first; p <= last; p++ {
			delete(ino.pages, p)
		}
	}
}

// errno converts a handler error exactly as the bazil server does.
func errno(err error) syscall.Errno {
	if err == nil {
		return 0
	}
	return syscall.Errno(fuse.ToErrno(err))
}

// call runs a handler, recovering panics the way bazil's server does (logged,
// answered with EIO). A node exit (Store.Exit) unwinds through here too.
func (k *Kernel) call(what string, fn func() error) (e syscall.Errno) {
	if oc := k.OnCall; oc != nil {
		oc(what, true)
		defer oc(what, false)
	}
	defer func() {
		if rec := recover(); rec != nil {
			if _, ok := rec.(nodeExit); ok {
				e = syscall.EIO
				return
			}
			msg := fmt.Sprintf("%s: %v\n%s", what, rec, debug.Stack())
			k.mu.Lock()
			k.Panics = append(k.Panics, msg)
			k.mu.Unlock()
			k.r.Logf("n%d handler panic in %s: %v", k.node, what, rec)
			e = syscall.EIO
		}
	}()
	return errno(fn())
}

// dropDentryLocked removes a name from the dentry cache; an inode that is no
// longer referenced by a dentry or an open file is evicted, which makes the
// kernel send FORGET (asynchronously).
func (k *Kernel) dropDentryLocked(name string) {
	d := k.dentries[name]
	if d == nil {
		return
	}
	delete(k.dentries, name)
	if k.opens[d.node] == 0 {
		k.evictLocked(d.node)
	}
}

func (k *Kernel) evictLocked(node fs.Node) {
	for _, d := range k.dentries {
		if d.node == node {
			return
		}
	}
	delete(k.inodes, node)
	delete(k.shms, node)
	k.forgetQ = append(k.forgetQ, node)
}

func (k *Kernel) flushForgets() {
	k.mu.Lock()
	q := k.forgetQ
	k.forgetQ = nil
	k.mu.Unlock()
	for _, n := range q {
		if fg, ok := n.(fs.NodeForgetter); ok {
			fg.Forget()
			k.r.Count("kernel.forget")
		}
	}
}

func (k *Kernel) yield(detail string) {
	k.flushForgets()
	if k.OnOp != nil {
		k.OnOp(detail)
	}
	if k.r.Sched != nil {
		k.r.Sched.Yield(k.node, "fuse", detail)
	}
}

// File is an open file description of a simulated process.
type File struct {
	k         *Kernel
	Name      string
	node      fs.Node
	h         fs.Handle
	owner     fuse.LockOwner
	closed    bool
	ino       *inode
	t         *Tape // eviction choices of this descriptor
	ownerTape *Tape
}

func (k *Kernel) lookup(name string) (fs.Node, syscall.Errno) {
	k.mu.Lock()
	if d := k.dentries[name]; d != nil {
		if k.r.SimNow()-d.at < time.Minute {
			k.mu.Unlock()
			return d.node, 0
		}
		delete(k.dentries, name)
	}
	k.mu.Unlock()
	var node fs.Node
	e := k.call("lookup", func() (err error) {
		node, err = k.root.Lookup(context.Background(), name)
		return err
	})
	if e != 0 {
		return nil, e
	}
	// The LOOKUP reply carries the node's attributes: bazil calls Attr and a
	// failure there fails the lookup.
	if _, e := k.attr(node); e != 0 {
		return nil, e
	}
	k.mu.Lock()
	k.dentries[name] = &dentry{node: node, at: k.r.SimNow()}
	k.mu.Unlock()
	return node, 0
}

func (k *Kernel) inodeOf(node fs.Node) *inode {
	k.mu.Lock()
	defer k.mu.Unlock()
	ino := k.inodes[node]
	if ino == nil {
		ino = &inode{pages: map[int64][]byte{}}
		k.inodes[node] = ino
	}
	return ino
}

// Open opens (and with O_CREATE possibly creates) a file in the mount root.
func (k *Kernel) Open(name string, flags int, owner uint64) (*File, syscall.Errno) {
	k.yield("open " + name)
	node, e := k.lookup(name)
	if e == syscall.ENOENT && flags&os.O_CREATE != 0 {
		var h fs.Handle
		resp := &fuse.CreateResponse{}
		e = k.call("create", func() (err error) {
			node, h, err = k.root.Create(context.Background(), &fuse.CreateRequest{Name: name, Flags: fuse.OpenFlags(flags), Mode: 0o644}, resp)
			return err
		})
		if e != 0 {
			return nil, e
		}
		if _, e := k.attr(node); e != 0 { // the CREATE reply carries attributes too
			return nil, e
		}
		k.mu.Lock()
		k.dentries[name] = &dentry{node: node, at: k.r.SimNow()}
		k.mu.Unlock()
		ino := k.inodeOf(node)
		if resp.Flags&fuse.OpenKeepCache == 0 {
			k.mu.Lock()
			ino.pages = map[int64][]byte{}
			k.mu.Unlock()
		}
		k.mu.Lock()
		k.opens[node]++
		k.mu.Unlock()
		return &File{k: k, Name: name, node: node, h: h, owner: fuse.LockOwner(owner), ino: ino}, 0
	}
	if e != 0 {
		return nil, e
	}
	if flags&os.O_CREATE != 0 && flags&os.O_EXCL != 0 {
		return nil, syscall.EEXIST
	}
	opener, ok := node.(fs.NodeOpener)
	if !ok {
		return nil, syscall.ENOSYS
	}
	var h fs.Handle
	resp := &fuse.OpenResponse{}
	e = k.call("open", func() (err error) {
		h, err = opener.Open(context.Background(), &fuse.OpenRequest{Flags: fuse.OpenFlags(flags)}, resp)
		return err
	})
	if e != 0 {
		if e == syscall.ENOENT {
			// stale dentry: the kernel drops it on ENOENT from open
			k.mu.Lock()
			k.dropDentryLocked(name)
			k.mu.Unlock()
		}
		return nil, e
	}
	ino := k.inodeOf(node)
	if resp.Flags&fuse.OpenKeepCache == 0 {
		k.mu.Lock()
		ino.pages = map[int64][]byte{}
		k.mu.Unlock()
	}
	k.mu.Lock()
	k.opens[node]++
	k.mu.Unlock()
	return &File{k: k, Name: name, node: node, h: h, owner: fuse.LockOwner(owner), ino: ino}, 0
}

// tape returns the descriptor's choice source: its own fork under a scheduler
// (forked lazily by the goroutine using the descriptor), else the run's tape.
func (f *File) tape() *Tape {
	if f.t == nil {
		if f.k.r.Sched != nil && f.ownerTape != nil {
			f.t = f.ownerTape.Fork()
		} else {
			f.t = f.k.r.Tape
		}
	}
	return f.t
}

// Attr returns the node's attributes (never cached: Valid=0).
func (k *Kernel) attr(node fs.Node) (fuse.Attr, syscall.Errno) {
	var a fuse.Attr
	e := k.call("attr", func() error { return node.Attr(context.Background(), &a) })
	return a, e
}

// Stat resolves a name and returns its attributes.
func (k *Kernel) Stat(name string) (fuse.Attr, syscall.Errno) {
	k.yield("stat " + name)
	node, e := k.lookup(name)
	if e != 0 {
		return fuse.Attr{}, e
	}
	a, e := k.attr(node)
	if e == syscall.ENOENT {
		k.mu.Lock()
		k.dropDentryLocked(name)
		k.mu.Unlock()
	}
	return a, e
}

// Size returns the current file size via getattr.
func (f *File) Size() (int64, syscall.Errno) {
	f.k.yield("getattr " + f.Name)
	a, e := f.k.attr(f.node)
	if e != 0 {
		return 0, e
	}
	f.noteSize(int64(a.Size))
	return int64(a.Size), 0
}

func (f *File) noteSize(size int64) {
	k := f.k
	k.mu.Lock()
	defer k.mu.Unlock()
	ino := f.ino
	if size < ino.size {
		// truncate_pagecache: drop pages wholly beyond the new size and cut
		// the page containing the new EOF.
		for p, b := range ino.pages {
			if p*kpage >= size {
				delete(ino.pages, p)
			} else if p*kpage+int64(len(b)) > size {
				ino.pages[p] = b[:size-p*kpage]
			}
		}
	}
	ino.size = size
}

// rawRead issues a FUSE read to the handle.
func (f *File) rawRead(off int64, n int) ([]byte, syscall.Errno) {
	rd, ok := f.h.(fs.HandleReader)
	if !ok {
		return nil, syscall.ENOSYS
	}
	resp := &fuse.ReadResponse{Data: make([]byte, 0, n)}
	e := f.k.call("read", func() error {
		return rd.Read(context.Background(), &fuse.ReadRequest{Offset: off, Size: n, LockOwner: f.owner}, resp)
	})
	if e != 0 {
		return nil, e
	}
	return resp.Data, 0
}

// Pread reads through the page cache. Short reads at EOF, like pread(2).
func (f *File) Pread(off int64, n int) ([]byte, syscall.Errno) {
	k := f.k
	k.yield("read " + f.Name)
	a, e := k.attr(f.node)
	if e != 0 {
		return nil, e
	}
	size := int64(a.Size)
	f.noteSize(size)
	if off >= size {
		return nil, 0
	}
	if off+int64(n) > size {
		n = int(size - off)
	}
	out := make([]byte, n)
	for p := off / kpage; p*kpage < off+int64(n); p++ {
		var page []byte
		if !k.NoCache {
			k.mu.Lock()
			page = f.ino.pages[p]
			evicted := false
			if page != nil && k.EvictPct > 0 && f.tape().Chance(k.EvictPct, 100) {
				delete(f.ino.pages, p)
				page = nil
				evicted = true
			}
			k.mu.Unlock()
			if evicted {
				k.r.Count("kernel.evict")
			}
		}
		if page == nil {
			want := kpage
			if p*kpage+int64(want) > size {
				want = int(size - p*kpage)
			}
			data, e := f.rawRead(p*kpage, want)
			if e != 0 {
				return nil, e
			}
			page = append([]byte(nil), data...)
			if !k.NoCache {
				k.mu.Lock()
				f.ino.pages[p] = page
				k.mu.Unlock()
			}
			k.r.Count("kernel.read.miss")
		} else {
			k.r.Count("kernel.read.hit")
		}
		// copy the overlap; bytes beyond len(page) read as zeros
		lo, hi := p*kpage, p*kpage+kpage
		if lo < off {
			lo = off
		}
		if hi > off+int64(n) {
			hi = off + int64(n)
		}
		for i := lo; i < hi; i++ {
			idx := i - p*kpage
			if idx < int64(len(page)) {
				out[i-off] = page[idx]
			}
		}
	}
	return out, 0
}

// Pwrite writes through to the handle and updates cached pages.
func (f *File) Pwrite(off int64, data []byte) syscall.Errno {
	k := f.k
	k.yield("write " + f.Name)
	wr, ok := f.h.(fs.HandleWriter)
	if !ok {
		return syscall.ENOSYS
	}
	resp := &fuse.WriteResponse{}
	e := k.call("write", func() error {
		return wr.Write(context.Background(), &fuse.WriteRequest{Offset: off, Data: data, LockOwner: f.owner}, resp)
	})
	if e != 0 {
		return e
	}
	if resp.Size != len(data) {
		return syscall.EIO
	}
	k.mu.Lock()
	defer k.mu.Unlock()
	end := off + int64(len(data))
	if end > f.ino.size {
		f.ino.size = end
	}
	for p := off / kpage; p*kpage < end; p++ {
		page, ok := f.ino.pages[p]
		if !ok {
			continue
		}
		lo, hi := p*kpage, p*kpage+kpage
		if lo < off {
			lo = off
		}
		if hi > end {
			hi = end
		}
		if need := int(hi - p*kpage); need > len(page) {
			page = append(page, make([]byte, need-len(page))...)
		}
		copy(page[lo-p*kpage:hi-p*kpage], data[lo-off:hi-off])
		f.ino.pages[p] = page
	}
	return 0
}

// Truncate sets the file size (ftruncate).
func (f *File) Truncate(size int64) syscall.Errno {
	k := f.k
	k.yield("truncate " + f.Name)
	sa, ok := f.node.(fs.NodeSetattrer)
	if !ok {
		return syscall.ENOSYS
	}
	resp := &fuse.SetattrResponse{}
	e := k.call("setattr", func() error {
		return sa.Setattr(context.Background(), &fuse.SetattrRequest{Valid: fuse.SetattrSize, Size: uint64(size)}, resp)
	})
	if e != 0 {
		return e
	}
	f.noteSize(size)
	return 0
}

// Fsync syncs the file.
func (f *File) Fsync() syscall.Errno {
	k := f.k
	k.yield("fsync " + f.Name)
	fn, ok := f.node.(fs.NodeFsyncer)
	if !ok {
		return 0
	}
	return k.call("fsync", func() error { return fn.Fsync(context.Background(), &fuse.FsyncRequest{}) })
}

// Lock issues a non-blocking POSIX byte-range lock request (F_SETLK).
// typ is fuse.LockRead, fuse.LockWrite or fuse.LockUnlock; end is inclusive.
func (f *File) Lock(typ fuse.LockType, start, end uint64) syscall.Errno {
	k := f.k
	k.yield(fmt.Sprintf("lock %s %v %d..%d", f.Name, typ, start, end))
	lk, ok := f.h.(fs.HandlePOSIXLocker)
	if !ok {
		return syscall.ENOSYS
	}
	fl := fuse.FileLock{Start: start, End: end, Type: typ}
	if typ == fuse.LockUnlock {
		// the kernel drops its record first: LiteFS may act on the release at once
		k.Locks.set(f.Name, uint64(f.owner), typ, start, end)
		return k.call("unlock", func() error {
			return lk.Unlock(context.Background(), &fuse.UnlockRequest{LockOwner: f.owner, Lock: fl})
		})
	}
	e := k.call("lock", func() error {
		return lk.Lock(context.Background(), &fuse.LockRequest{LockOwner: f.owner, Lock: fl})
	})
	if e == 0 {
		k.Locks.set(f.Name, uint64(f.owner), typ, start, end)
	}
	return e
}

// LockWait issues a blocking lock request (F_SETLKW) with a cancellable context.
func (f *File) LockWait(ctx context.Context, typ fuse.LockType, start, end uint64) syscall.Errno {
	k := f.k
	k.yield(fmt.Sprintf("lockwait %s %v %d", f.Name, typ, start))
	lk, ok := f.h.(fs.HandlePOSIXLocker)
	if !ok {
		return syscall.ENOSYS
	}
	fl := fuse.FileLock{Start: start, End: end, Type: typ}
	return k.call("lockwait", func() error {
		return lk.LockWait(ctx, &fuse.LockWaitRequest{LockOwner: f.owner, Lock: fl})
	})
}

// QueryLock issues F_GETLK; returns the conflicting lock type or LockUnlock.
func (f *File) QueryLock(typ fuse.LockType, start, end uint64) (fuse.LockType, syscall.Errno) {
	k := f.k
	k.yield("getlk " + f.Name)
	lk, ok := f.h.(fs.HandlePOSIXLocker)
	if !ok {
		return 0, syscall.ENOSYS
	}
	resp := &fuse.QueryLockResponse{Lock: fuse.FileLock{Type: fuse.LockUnlock}}
	e := k.call("querylock", func() error {
		return lk.QueryLock(context.Background(), &fuse.QueryLockRequest{LockOwner: f.owner, Lock: fuse.FileLock{Start: start, End: end, Type: typ}}, resp)
	})
	return resp.Lock.Type, e
}

// Close closes the descriptor: Flush (drops the owner's POSIX locks on the
// file, as close(2) does) followed by Release.
func (f *File) Close() syscall.Errno {
	if f.closed {
		return syscall.EBADF
	}
	f.closed = true
	k := f.k
	k.yield("close " + f.Name)
	k.Locks.drop(f.Name, uint64(f.owner))
	var e syscall.Errno
	if fl, ok := f.h.(fs.HandleFlusher); ok {
		e = k.call("flush", func() error { return fl.Flush(context.Background(), &fuse.FlushRequest{LockOwner: f.owner}) })
	}
	if rl, ok := f.h.(fs.HandleReleaser); ok {
		if e2 := k.call("release", func() error {
			return rl.Release(context.Background(), &fuse.ReleaseRequest{LockOwner: f.owner})
		}); e == 0 {
			e = e2
		}
	}
	k.mu.Lock()
	k.opens[f.node]--
	if k.opens[f.node] <= 0 {
		delete(k.opens, f.node)
		k.evictLocked(f.node) // no-op while a dentry still names the node
	}
	k.mu.Unlock()
	return e
}

// Unlink removes a name from the mount root.
func (k *Kernel) Unlink(name string) syscall.Errno {
	k.yield("unlink " + name)
	if _, e := k.lookup(name); e != 0 {
		return e
	}
	e := k.call("remove", func() error {
		return k.root.Remove(context.Background(), &fuse.RemoveRequest{Name: name})
	})
	if e == 0 {
		k.mu.Lock()
		k.dropDentryLocked(name)
		if dbName := name; !hasDBFileSuffix(name) {
			// Removing a database makes LiteFS send NotifyDelete for the
			// companion names; the null server cannot observe that, so the
			// documented kernel effect is applied here (assumption).
			for _, sfx := range []string{"-journal", "-wal", "-shm"} {
				k.dropDentryLocked(dbName + sfx)
			}
		}
		k.mu.Unlock()
	}
	return e
}

// TruncatePath is truncate(2) by name.
func (k *Kernel) TruncatePath(name string, size int64) syscall.Errno {
	node, e := k.lookup(name)
	if e != 0 {
		return e
	}
	f := &File{k: k, Name: name, node: node, ino: k.inodeOf(node)}
	return f.Truncate(size)
}

// ReadDir lists the mount root.
func (k *Kernel) ReadDir() ([]string, syscall.Errno) {
	k.yield("readdir")
	var h fs.Handle
	e := k.call("opendir", func() (err error) {
		h, err = k.root.Open(context.Background(), &fuse.OpenRequest{Dir: true}, &fuse.OpenResponse{})
		return err
	})
	if e != 0 {
		return nil, e
	}
	var ents []fuse.Dirent
	e = k.call("readdir", func() (err error) {
		ents, err = h.(fs.HandleReadDirAller).ReadDirAll(context.Background())
		return err
	})
	if e != 0 {
		return nil, e
	}
	var names []string
	for _, d := range ents {
		names = append(names, d.Name)
	}
	sort.Strings(names)
	return names, 0
}

// ForgetAll drops every dentry and cached page and tells LiteFS to forget the
// nodes, as the kernel may do under memory pressure when nothing is open.
func (k *Kernel) ForgetAll() {
	k.mu.Lock()
	nodes := make([]fs.Node, 0, len(k.inodes))
	for n := range k.inodes {
		nodes = append(nodes, n)
	}
	k.inodes = map[fs.Node]*inode{}
	k.dentries = map[string]*dentry{}
	k.mu.Unlock()
	for _, n := range nodes {
		if fg, ok := n.(fs.NodeForgetter); ok {
			fg.Forget()
		}
	}
}

// DropCaches evicts every cached data page (legal at any time).
func (k *Kernel) DropCaches() {
	k.mu.Lock()
	for _, ino := range k.inodes {
		ino.pages = map[int64][]byte{}
	}
	k.mu.Unlock()
}

// ---------------------------------------------------------------------------
// shared memory (-shm) mapping model

// shmMap models the mmap of a -shm file shared by the connections of one node:
// stores are visible to the other connections immediately, dirty pages are
// written back to LiteFS later, and an invalidation from LiteFS first writes
// dirty pages back (which LiteFS ignores while it updates the file) and then
// drops the mapping so the next access re-reads what LiteFS wrote.
type shmMap struct {
	mem    []byte
	valid  bool
	dirty  bool
	gen    int
	toSync []byte // dirty bytes captured at invalidation time, written back lazily
}

func (sm *shmMap) invalidated() {
	sm.valid = false
	sm.dirty = false
	sm.gen++
}

// ShmRegion returns the mapping of the file, reading it in if needed.
func (f *File) shm() *shmMap {
	k := f.k
	k.mu.Lock()
	sm := k.shms[f.node]
	if sm == nil {
		sm = &shmMap{}
		k.shms[f.node] = sm
	}
	k.mu.Unlock()
	return sm
}

// ShmLoad returns n bytes at off of the shared mapping (zero-extended).
func (f *File) ShmLoad(off, n int) ([]byte, syscall.Errno) {
	sm := f.shm()
	if !sm.valid {
		f.k.yield("shm-fault " + f.Name)
		a, e := f.k.attr(f.node)
		if e != 0 {
			return nil, e
		}
		sz := int(a.Size)
		var data []byte
		if sz > 0 {
			data, e = f.rawRead(0, sz)
			if e != 0 {
				return nil, e
			}
		}
		// Another connection may have faulted the mapping in (and stored into
		// it) while this one was waiting for its read: the kernel has one copy of
		// each page and a second fault finds it present. Installing what was
		// read here would wipe the other connection's stores.
		if !sm.valid {
			sm.mem = append([]byte(nil), data...)
			sm.valid = true
			f.k.r.Count("kernel.shm.fault")
		} else {
			f.k.r.Count("kernel.shm.fault-raced")
		}
	}
	out := make([]byte, n)
	if off < len(sm.mem) {
		copy(out, sm.mem[off:])
	}
	return out, 0
}

// ShmStore stores bytes into the shared mapping.
func (f *File) ShmStore(off int, data []byte) syscall.Errno {
	if _, e := f.ShmLoad(0, 0); e != 0 {
		return e
	}
	sm := f.shm()
	if need := off + len(data); need > len(sm.mem) {
		sm.mem = append(sm.mem, make([]byte, need-len(sm.mem))...)
	}
	copy(sm.mem[off:], data)
	sm.dirty = true
	return 0
}

// ShmWriteback writes the dirty mapping back through the handle (msync or
// kernel write-back).
func (f *File) ShmWriteback() syscall.Errno {
	sm := f.shm()
	if !sm.dirty || !sm.valid {
		return 0
	}
	sm.dirty = false
	f.k.yield("shm-writeback " + f.Name)
	wr := f.h.(fs.HandleWriter)
	data := append([]byte(nil), sm.mem...)
	for off := 0; off < len(data); off += kpage {
		end := off + kpage
		if end > len(data) {
			end = len(data)
		}
		resp := &fuse.WriteResponse{}
		o, chunk := int64(off), data[off:end]
		if e := f.k.call("shm-write", func() error {
			return wr.Write(context.Background(), &fuse.WriteRequest{Offset: o, Data: chunk, LockOwner: f.owner}, resp)
		}); e != 0 {
			return e
		}
	}
	return 0
}

func hasDBFileSuffix(name string) bool {
	for _, sfx := range []string{"-journal", "-wal", "-shm", "-pos", "-lock"} {
		if strings.HasSuffix(name, sfx) {
			return true
		}
	}
	return false
}
