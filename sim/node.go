package verifsim

import (
	"fmt"
	"net/http"
	"os"
	"path/filepath"
	"reflect"
	"runtime"
	"sync"
	"sync/atomic"
	"time"
	"unsafe"

	"github.com/superfly/litefs"
	lfuse "github.com/superfly/litefs/fuse"
	lhttp "github.com/superfly/litefs/http"
)

// page-op hook dispatch (litefs.VerifPageOp is a package variable)
var pageOpMu sync.Mutex
var pageOpHooks = map[*litefs.Store]func(db *litefs.DB, op string, pgno uint32) error{}

func init() {
	litefs.VerifPageOp = func(db *litefs.DB, op string, pgno uint32) error {
		pageOpMu.Lock()
		fn := pageOpHooks[db.Store()]
		pageOpMu.Unlock()
		if fn != nil {
			return fn(db, op, pgno)
		}
		return nil
	}
}

// SetPageOpHook installs a hook called at the entry of every database page
// write and truncate performed by this node's LiteFS.
func (n *Node) SetPageOpHook(fn func(db *litefs.DB, op string, pgno uint32) error) {
	pageOpMu.Lock()
	if fn == nil {
		delete(pageOpHooks, n.Store)
	} else {
		pageOpHooks[n.Store] = fn
	}
	pageOpMu.Unlock()
}

func pageOpHookOf(n *Node) func(db *litefs.DB, op string, pgno uint32) error {
	pageOpMu.Lock()
	defer pageOpMu.Unlock()
	return pageOpHooks[n.Store]
}

// nodeExit is the panic sentinel used when LiteFS calls Store.Exit on a
// harness goroutine (the real process would stop executing there).
type nodeExit struct{ code int }

// NodeCfg configures one LiteFS node.
type NodeCfg struct {
	Candidate bool
	Leaser    litefs.Leaser
	Client    litefs.Client
	Backup    litefs.BackupClient
	Compress  bool
	Filter    []string
	Tune      func(*litefs.Store) // adjust delays/retention before Open
	StrictOff bool
	EvictPct  int // page-cache eviction chance per read (percent)
}

// Node is one simulated LiteFS process: a real Store, a real (unmounted) FUSE
// file system, the real HTTP server handler, a simulated kernel and OS wrapper.
type Node struct {
	r       *Run
	ID      int
	Name    string
	Dir     string
	Cfg     NodeCfg
	Store   *litefs.Store
	FS      *lfuse.FileSystem
	K       *Kernel
	OS      *SimOS
	Server  *lhttp.Server
	Handler http.Handler

	Up        bool
	Exited    bool
	ExitCode  int
	ExitImage string // data directory image taken at the instant of Store.Exit
	Gen       int

	nextOwner uint64
	OnExit    func(n *Node)
	PreOpen   func(n *Node) // called after the Store is built, before Store.Open
}

// URL is the advertise URL of the node in the simulated network.
func (n *Node) URL() string { return fmt.Sprintf("http://%s:20202", n.Name) }

// NewNode creates (but does not open) a node with an empty data directory.
func (r *Run) NewNode(cfg NodeCfg) *Node {
	id := len(r.nodes) + 1
	n := &Node{r: r, ID: id, Name: fmt.Sprintf("n%d", id), Cfg: cfg}
	n.Dir = filepath.Join(r.Dir, n.Name+"-g0")
	r.nodes = append(r.nodes, n)
	return n
}

// Open builds a fresh Store over the node's current data directory and opens it.
func (n *Node) Open() error {
	r := n.r
	n.OS = &SimOS{r: r, node: n.ID}
	st := litefs.NewStore(n.Dir, n.Cfg.Candidate)
	// A real node draws a new random id at every start; ids here are distinct
	// per (node, generation) and deterministic.
	st.VerifSetID(uint64(n.ID)*1000 + uint64(n.Gen) + 1)
	st.OS = n.OS
	st.Leaser = n.Cfg.Leaser
	st.Client = n.Cfg.Client
	st.BackupClient = n.Cfg.Backup
	st.Compress = n.Cfg.Compress
	st.DatabaseFilter = n.Cfg.Filter
	st.StrictVerify = false
	st.Exit = func(code int) { n.exit(code) }
	if n.Cfg.Tune != nil {
		n.Cfg.Tune(st)
	}
	n.Store = st
	n.FS = lfuse.NewFileSystem(filepath.Join(r.Dir, n.Name+"-mnt"), st)
	st.Invalidator = n.FS
	n.K = NewKernel(r, n.ID, n.FS)
	n.K.EvictPct = n.Cfg.EvictPct
	n.Server = lhttp.NewServer(st, ":0")
	n.Handler = n.Server.VerifHandler()
	n.Exited, n.ExitCode, n.ExitImage = false, 0, ""
	if n.PreOpen != nil {
		n.PreOpen(n)
	}
	if err := st.Open(); err != nil {
		n.K.Detach()
		return err
	}
	n.Up = true
	return nil
}

// exit implements Store.Exit: the data directory as it is at this instant is
// the durable state; nothing after the call executes in a real process.
func (n *Node) exit(code int) {
	r := n.r
	if !n.Exited {
		n.Exited, n.ExitCode = true, code
		img := filepath.Join(r.Dir, fmt.Sprintf("%s-exit%d", n.Name, n.Gen))
		_ = os.RemoveAll(img)
		if err := CopyTree(n.Dir, img); err != nil {
			r.Inconclusive("copy exit image: %v", err)
		}
		n.ExitImage = img
		n.OS.fenced.Store(true)
		r.Count("node.exit")
		r.Logf("%s called Store.Exit(%d)", n.Name, code)
		if n.OnExit != nil {
			n.OnExit(n)
		}
	}
	if goid() == r.driverID || (r.Sched != nil && r.Sched.IsHarness()) {
		panic(nodeExit{code})
	}
	runtime.Goexit()
}

// Fence makes every later OS call of the node fail (process death).
func (n *Node) Fence() { n.OS.fenced.Store(true) }

// Image copies the node's data directory as the kernel holds it right now.
func (n *Node) Image(tag string) (string, error) {
	img := filepath.Join(n.r.Dir, fmt.Sprintf("%s-img-%s", n.Name, tag))
	_ = os.RemoveAll(img)
	return img, CopyTree(n.Dir, img)
}

// Close shuts the store down (clean stop, or reaping after a crash).
func (n *Node) Close() error {
	if n.Store == nil {
		return nil
	}
	n.Up = false
	if n.Exited {
		// The process is gone: nothing of it runs any more. Store.Close would
		// still try to release remote halt locks, which needs the write lock
		// that the handler aborted by Exit() never gave back (an artefact of
		// modelling exit as unwinding) and has no deadline. Forget them.
		for _, db := range n.Store.DBs() {
			if db.HasRemoteHaltLock() {
				f := reflect.ValueOf(db).Elem().FieldByName("remoteHaltLock")
				av := (*atomic.Value)(unsafe.Pointer(f.UnsafeAddr()))
				av.Store((*litefs.HaltLock)(nil))
			}
		}
	}
	err := n.Store.Close()
	if n.K != nil {
		n.K.Detach()
	}
	n.SetPageOpHook(nil)
	return err
}

// Kill simulates process death right now: image, fence, reap goroutines.
// Returns the image directory (the durable state).
func (n *Node) Kill(tag string) (string, error) {
	img, err := n.Image(tag)
	n.Fence()
	n.Up = false
	return img, err
}

// RestartFrom points the node at a data directory image and opens a new Store.
func (n *Node) RestartFrom(img string) error {
	n.Gen++
	dir := filepath.Join(n.r.Dir, fmt.Sprintf("%s-g%d", n.Name, n.Gen))
	_ = os.RemoveAll(dir)
	if err := CopyTree(img, dir); err != nil {
		return err
	}
	n.Dir = dir
	return n.Open()
}

// NewOwner returns a fresh POSIX lock owner id for a simulated process.
func (n *Node) NewOwner() uint64 {
	n.nextOwner++
	return uint64(n.ID)*1000 + n.nextOwner
}

// WaitPrimary advances simulated time until the node is primary or d passed.
func (n *Node) WaitPrimary(d time.Duration) bool {
	deadline := time.Now().Add(d)
	for time.Now().Before(deadline) {
		if n.Store.IsPrimary() {
			return true
		}
		time.Sleep(time.Millisecond)
	}
	return n.Store.IsPrimary()
}


// StreamSubscribers is the number of replicas the store believes are connected
// to it (its change-set subscribers). There is no exported accessor; the field
// is read through reflection (len of a map, under the harness's own quiescence).
func StreamSubscribers(s *litefs.Store) int {
	f := reflect.ValueOf(s).Elem().FieldByName("changeSetSubscribers")
	if !f.IsValid() || f.Kind() != reflect.Map {
		return -1
	}
	return f.Len()
}
