package verifsim

import (
	"bytes"
	"context"
	"crypto/sha1"
	"fmt"
	"os"
	"path/filepath"
	"sort"
	"strings"
	"syscall"
	"time"

	"github.com/superfly/litefs"
	"github.com/superfly/ltx"
)

func init() {
	register(&CheckDef{
		ID:    "C05",
		Level: "fault_enumeration",
		Rule:  "for each seeded operation shape (first transaction, journal commit grow/shrink/multi-segment in DELETE/TRUNCATE/PERSIST, journal rollback after spill, switch to WAL, WAL commit, WAL commit after a log restart, application checkpoint, LiteFS checkpoint, journal rollback by LiteFS recover, drop, import, replica incremental apply, replica snapshot apply, replica tombstone apply) the operation runs once while the data directory is imaged at EVERY step boundary (before each litefs.OS call, before each database page write/truncate, before each file operation of the simulated SQLite); every distinct image (by content digest) is opened by a fresh Store and must recover to the position of its newest LTX file with the image of that position, which must be the before- or after-position (after, if COMMIT had already returned), leaving no valid journal and no WAL frames, and must then accept another commit. Thorough tier also images the recovery itself. A separate configuration returns EIO/ENOSPC from one OS call instead of dying. evaluations = crash images verified; distinct = distinct (shape, step label) pairs; non-trivial = run in which >= 5 distinct images were verified",
		Run:   runC05,
		NonTrivial: func(r *Run) bool {
			return r.Stats["c05.image.verified"] >= 5
		},
		Assumptions: []string{
			"process death: the durable state is the data directory as the kernel holds it at that instant (tmpfs copy); power loss / lost un-fsynced writes are not simulated because LiteFS does not promise them",
			"\"returned success to SQLite\" = journal finalisation call returned (rollback mode) / WAL write lock release returned (WAL mode)",
			"PagerSim fidelity (DESIGN §4.2)",
		},
		Real: []string{"litefs.Store.Open / DB.Open / recover / syncWALToLTX / ApplyLTXNoLock / CommitJournal / CommitWAL / Drop / Import / processLTXStreamFrame", "litefs/fuse", "superfly/ltx"},
		Stub: []string{"SimKernel", "PagerSim", "scripted primary stream (ScriptClient) for replica shapes"},
	})
}

type crashImg struct {
	dir         string
	label       string
	afterCommit bool
}

// crashRec images a node's data directory at every step boundary.
type crashRec struct {
	r         *Run
	n         *Node
	active    bool
	committed bool
	seen      map[string]bool
	imgs      []crashImg
	boundary  int
	prefix    string
}

func newCrashRec(r *Run, n *Node, prefix string) *crashRec {
	cr := &crashRec{r: r, n: n, seen: map[string]bool{}, prefix: prefix}
	n.OS.Hook = func(phase, call, op, path string) {
		if phase == "pre" {
			cr.snap("os:" + call + ":" + op)
		}
	}
	n.K.OnOp = func(detail string) { cr.snap("sqlite:" + opClass(detail)) }
	n.SetPageOpHook(func(db *litefs.DB, op string, pgno uint32) error {
		cr.snap("page:" + op)
		return nil
	})
	return cr
}

// opClass strips arguments so that labels are a small set.
func opClass(detail string) string {
	for i := 0; i < len(detail); i++ {
		if detail[i] == ' ' {
			rest := detail[i+1:]
			name := rest
			for j := 0; j < len(rest); j++ {
				if rest[j] == ' ' {
					name = rest[:j]
					break
				}
			}
			sfx := "db"
			for _, s := range []string{"-journal", "-wal", "-shm"} {
				if len(name) > len(s) && name[len(name)-len(s):] == s {
					sfx = s[1:]
				}
			}
			return detail[:i] + ":" + sfx
		}
	}
	return detail
}

func (cr *crashRec) detach() {
	cr.n.OS.Hook = nil
	cr.n.K.OnOp = nil
	cr.n.SetPageOpHook(nil)
}

func dirDigest(dir string) string {
	h := sha1.New()
	var names []string
	_ = filepath.Walk(dir, func(p string, fi os.FileInfo, err error) error {
		if err == nil && !fi.IsDir() {
			names = append(names, p)
		}
		return nil
	})
	sort.Strings(names)
	for _, p := range names {
		rel, _ := filepath.Rel(dir, p)
		b, _ := os.ReadFile(p)
		fmt.Fprintf(h, "%s\x00%d\x00", rel, len(b))
		h.Write(b)
	}
	return string(h.Sum(nil))
}

func (cr *crashRec) snap(label string) {
	if !cr.active {
		return
	}
	cr.boundary++
	progress.Add(1) // a crash image is harness work: a long transaction of many boundaries is not a hang
	cr.r.Count("c05.boundary")
	d := dirDigest(cr.n.Dir)
	key := d
	if cr.committed {
		key += "+c"
	}
	if cr.seen[key] {
		return
	}
	cr.seen[key] = true
	dst := filepath.Join(cr.r.Dir, fmt.Sprintf("%s-%04d", cr.prefix, len(cr.imgs)))
	if err := CopyTree(cr.n.Dir, dst); err != nil {
		cr.r.Inconclusive("crash image copy: %v", err)
		return
	}
	cr.imgs = append(cr.imgs, crashImg{dir: dst, label: label, afterCommit: cr.committed})
}

// c05verify opens one crash image with a fresh Store and applies the oracle.
type c05ctx struct {
	r        *Run
	name     string
	ims      *ImageStore
	before   ltx.Pos
	after    ltx.Pos
	shape    string
	replica  bool
	nested   bool
	pageSize uint32
}

func (cx *c05ctx) verify(img crashImg, depth int) {
	r := cx.r
	if r.Failed() {
		return
	}
	r.Step()
	oracle := "c05"
	where := fmt.Sprintf("shape %s, crash at %q (after-commit=%v)", cx.shape, img.label, img.afterCommit)
	v := r.NewNode(NodeCfg{Candidate: !cx.replica})
	if cx.replica {
		v.Cfg.Leaser = litefs.NewStaticLeaser(false, "p", "http://p:20202")
		v.Cfg.Client = NewScriptClient(r, "")
	} else {
		v.Cfg.Leaser = litefs.NewStaticLeaser(true, v.Name, v.URL())
	}
	v.Dir = filepath.Join(r.Dir, fmt.Sprintf("%s-v", v.Name))
	if err := CopyTree(img.dir, v.Dir); err != nil {
		r.Inconclusive("copy: %v", err)
		return
	}
	var sub *crashRec
	if depth == 0 && cx.nested {
		v.PreOpen = func(n *Node) {
			sub = newCrashRec(r, n, fmt.Sprintf("%s-sub", v.Name))
			sub.n.K.OnOp = nil
			sub.active = true
			sub.committed = img.afterCommit
		}
	}
	err := v.Open()
	if sub != nil {
		sub.active = false
		sub.detach()
	}
	if err != nil {
		class := "other"
		switch {
		case strings.Contains(err.Error(), "rollback journal"):
			class = "journal"
		case strings.Contains(err.Error(), "does not match LTX post-apply checksum"):
			class = "ltx-checksum"
		case strings.Contains(err.Error(), "sync wal to ltx"):
			class = "wal-sync"
		}
		r.Failf(oracle+".reopen."+class, "%s: restarting on the crash image failed: %v", where, err)
		return
	}
	defer func() {
		v.Fence()
		v.Close()
		// a run makes thousands of these copies (tmpfs is memory): each one goes
		// as soon as it has been judged
		if os.Getenv("SIM_KEEP") == "" {
			os.RemoveAll(v.Dir)
			os.RemoveAll(img.dir)
		}
	}()
	r.Count("c05.image.verified")
	r.State("%s/%s", cx.shape, strings.SplitN(img.label, " fault=", 2)[0])
	dbDir := filepath.Join(v.Dir, "dbs", cx.name)
	newest, err := NewestLTX(dbDir)
	if !r.Check(err == nil, oracle+".ltx", "%s: newest transaction file unreadable after recovery: %v", where, err) {
		return
	}
	var want ltx.Pos
	if newest != nil {
		want = ltx.Pos{TXID: newest.Header.MaxTXID, PostApplyChecksum: newest.Trailer.PostApplyChecksum}
	}
	db := v.Store.DB(cx.name)
	var pos ltx.Pos
	if db != nil {
		pos = db.Pos()
	}
	if !r.Check(pos == want, oracle+".pos", "%s: recovered position %s, newest transaction file on disk names %s", where, pos, want) {
		return
	}
	if !r.Check(pos == cx.before || pos == cx.after, oracle+".pos-range", "%s: recovered position %s is neither the position before (%s) nor after (%s) the interrupted operation", where, pos, cx.before, cx.after) {
		return
	}
	if img.afterCommit {
		r.Check(pos == cx.after, oracle+".lost-commit", "%s: COMMIT had returned success but the restart recovered %s instead of %s", where, pos, cx.after)
	}
	disk, err := ReadDiskImage(dbDir)
	if !r.Check(err == nil, oracle+".disk", "%s: raw files unreadable after recovery: %v", where, err) {
		return
	}
	if pos.TXID > 0 {
		wantIm, ok := cx.ims.Get(cx.name, pos)
		if r.Check(ok, oracle+".unknown-pos", "%s: recovered position %s was never committed", where, pos) {
			if d := DiffImages(disk, wantIm); d != "" {
				r.Failf(oracle+".image", "%s: recovered image at %s is not the image committed there (a mixture?): %s", where, pos, d)
			}
		}
		r.Check(uint64(pos.PostApplyChecksum) == disk.Checksum(), oracle+".checksum", "%s: recovered checksum %s, from-scratch %016x", where, pos.PostApplyChecksum, disk.Checksum())
	} else {
		r.Check(disk.N() == 0, oracle+".image", "%s: no transaction file but the database has %d pages after recovery", where, disk.N())
	}
	// nothing left for SQLite to replay differently
	if jb, err := os.ReadFile(filepath.Join(dbDir, "journal")); err == nil && len(jb) >= 8 {
		r.Check(!bytes.Equal(jb[:8], journalMagic), oracle+".hot-journal", "%s: a journal with a valid header is left after recovery", where)
	}
	if fi, err := os.Stat(filepath.Join(dbDir, "wal")); err == nil {
		r.Check(fi.Size() <= 32, oracle+".wal-left", "%s: %d bytes of WAL left after recovery", where, fi.Size())
	}
	// (The shape of the whole transaction log is C09's subject, not C05's: a
	// crash between a snapshot's rename and the removal of the files it
	// replaces legitimately leaves older files next to it.)
	// the restarted node can commit again
	if !cx.replica && !r.Failed() {
		if v.WaitPrimary(2 * time.Second) {
			cx.commitAgain(v, db, disk, where)
		} else {
			r.Failf(oracle+".not-primary", "%s: restarted node did not become primary", where)
		}
	}
	if sub != nil && !r.Failed() {
		for _, si := range sub.imgs {
			si.label = "recovery/" + si.label
			cx.verify(si, depth+1)
			r.Count("c05.image.nested")
		}
	}
}

func (cx *c05ctx) commitAgain(v *Node, db *litefs.DB, cur *Image, where string) {
	r := cx.r
	ps := cx.pageSize // an application re-creating its database uses its own page size again
	wal := false
	if cur.N() > 0 {
		ps = cur.PageSize
		h, _, _ := decodeDBHeader(cur.Pages[0])
		wal = h.WAL
	}
	c := v.NewConn(cx.name, ModeDelete, ps)
	if e := c.Open(); e != 0 {
		r.Failf("c05.commit-after", "%s: opening the database after recovery failed: %v", where, e)
		return
	}
	defer c.Close()
	var res TxResult
	if wal {
		if e := c.WalOpen(); e != 0 {
			r.Failf("c05.commit-after", "%s: opening the WAL after recovery failed: %v", where, e)
			return
		}
		res = c.WalWriteTx(WalTxProgram{NewSize: cur.N() + 1, Outcome: OutCommit}, cur)
	} else {
		res = c.WriteTx(TxProgram{NewSize: cur.N() + 1, Outcome: OutCommit, Modify: []uint32{1}}, cur)
	}
	if !r.Check(res.Outcome == OutCommit, "c05.commit-after", "%s: a commit after recovery was refused at %s: %v", where, res.FailedAt, res.Errno) {
		return
	}
	checkNodeHealthy(r, v, "c05")
	var pos ltx.Pos
	if d := v.Store.DB(cx.name); d != nil {
		pos = d.Pos()
	}
	r.Check(uint64(pos.PostApplyChecksum) == res.After.Checksum(), "c05.commit-after", "%s: checksum after the post-recovery commit is %s, from-scratch %016x", where, pos.PostApplyChecksum, res.After.Checksum())
	nl, err := NewestLTX(v.Store.DBPath(cx.name))
	if r.Check(err == nil && nl != nil, "c05.commit-after", "%s: no readable newest transaction file after the post-recovery commit: %v", where, err) {
		r.Check(nl.Header.MaxTXID == pos.TXID && nl.Trailer.PostApplyChecksum == pos.PostApplyChecksum, "c05.commit-after", "%s: newest file %s does not end at the position %s", where, nl.Name, pos)
	}
}

var c05PrimaryShapes = []string{"journal-commit", "journal-first", "journal-rollback-spill", "switch-to-wal", "wal-commit", "wal-restart-commit", "app-checkpoint", "litefs-checkpoint", "hot-journal-recover", "drop", "import"}
var c05ReplicaShapes = []string{"replica-apply", "replica-snapshot", "replica-tombstone"}

func runC05(r *Run) {
	t := r.Tape
	shapes := append(append([]string{}, c05PrimaryShapes...), c05ReplicaShapes...)
	shape := shapes[t.Next(len(shapes))]
	faulting := t.Chance(1, 5)
	r.Cfg["shape"], r.Cfg["faulting"] = shape, faulting
	nested := r.Thorough() && t.Chance(1, 3)
	r.Cfg["nested_recovery_crashes"] = nested
	for _, s := range c05ReplicaShapes {
		if s == shape {
			c05Replica(r, shape, faulting, nested)
			return
		}
	}
	c05Primary(r, shape, faulting, nested)
}

func c05Primary(r *Run, shape string, faulting, nested bool) {
	t := r.Tape
	h := &hist{r: r, name: "db"}
	h.pageSize = pickPageSize(t)
	r.SectorSize = pickSectorSize(t)
	r.Cfg["sector_size"] = r.SectorSize
	if h.pageSize > 8192 {
		h.pageSize = 4096 // keep image copies cheap
	}
	h.jmode = []string{ModeDelete, ModeTruncate, ModePersist}[t.Next(3)]
	h.maxPages = 40
	if h.pageSize <= 1024 {
		h.maxPages = 300
	}
	compress := t.Chance(1, 2)
	r.Cfg["page_size"], r.Cfg["jmode"], r.Cfg["lz4"] = h.pageSize, h.jmode, compress
	h.n = newStaticPrimary(r, compress, nil)
	if h.n == nil {
		return
	}
	if !h.openConns(1) {
		return
	}
	ims := NewImageStore()
	record := func() {
		if db := h.db(); db != nil {
			ims.Put(h.name, db.Pos(), h.ref)
		}
	}
	// pre-history
	walShape := shape == "wal-commit" || shape == "wal-restart-commit" || shape == "app-checkpoint" || shape == "litefs-checkpoint"
	if (shape == "drop" || shape == "import") && t.Chance(2, 3) {
		walShape = true
	}
	npre := t.Range(1, 4)
	if shape == "journal-first" {
		npre = 0
	}
	for i := 0; i < npre && !r.Failed(); i++ {
		h.commit(t)
		record()
		if i == 0 && h.ref.N() == 0 {
			i-- // make sure the database exists
		}
	}
	if r.Failed() {
		return
	}
	if walShape || shape == "wal-commit" || shape == "wal-restart-commit" || shape == "app-checkpoint" || shape == "litefs-checkpoint" {
		if h.ref.N() == 0 {
			h.commit(t)
			record()
		}
		if !h.toWAL() {
			return
		}
		record()
		nwal := t.Range(2, 4)
		if shape == "wal-commit" && t.Chance(1, 3) {
			nwal = 0 // the interrupted commit is the first one in the log after the switch
		}
		for i := 0; i < nwal; i++ {
			h.commit(t)
			record()
		}
		if shape == "wal-restart-commit" {
			h.conns[0].WalCheckpoint([]string{CkptRestart, CkptTruncate, CkptFull}[t.Next(3)])
			// ... and sometimes LiteFS's own checkpoint on top (what every role
			// change does): it empties the log and rewrites the SHM header, which
			// the connection - which has restarted the log before - then trusts
			// for the salt of the next log generation
			if t.Chance(1, 2) {
				if err := h.n.Store.Recover(context.Background()); err != nil {
					r.Failf("c05.recover", "Store.Recover failed: %v", err)
					return
				}
				r.Count("c05.litefs-checkpoint-before-commit")
			}
		}
	}
	if r.Failed() {
		return
	}
	db := h.db()
	var before ltx.Pos
	if db != nil {
		before = db.Pos()
	}
	beforeRef := h.ref
	c := h.conns[0]

	// fault configuration: an OS call returns an error instead of the process dying
	if faulting {
		h.n.OS.FailNth = int64(t.Range(1, 12))
		h.n.OS.FailErr = []error{syscall.EIO, syscall.ENOSPC}[t.Next(2)]
		r.Cfg["fail_nth"] = h.n.OS.FailNth
	}
	cr := newCrashRec(r, h.n, "img")
	if faulting {
		// keep only the final state (taken explicitly below)
		cr.detach()
	}
	c.OnCommitPoint = func() { cr.committed = true }
	cr.active = !faulting
	opOK := true
	switch shape {
	case "journal-commit", "journal-first":
		prog := GenProgram(t, h.ref.N(), h.maxPages, 0)
		prog.Outcome = OutCommit
		if shape == "journal-first" && t.Chance(1, 2) {
			// an application whose first statement is PRAGMA journal_mode=WAL:
			// the transaction that creates the database writes a WAL-mode header
			prog.SetWAL = 1
		}
		if h.ref.N() >= 4 && t.Chance(1, 2) {
			// multi-segment journal: several pages, a spill after the first ones
			for pg := uint32(1); pg <= min32(h.ref.N(), 5); pg++ {
				prog.Modify = append(prog.Modify, pg)
			}
			prog.SpillAt = []int{t.Range(1, 2)}
			if t.Chance(1, 2) {
				prog.SpillAt = append(prog.SpillAt, prog.SpillAt[0]+t.Range(1, 2))
			}
			prog.NoSync = false
		}
		res := c.WriteTx(prog, h.ref)
		opOK = res.Outcome == OutCommit
		if opOK {
			h.ref = res.After
		} else if !faulting {
			r.Failf("c05.op-refused", "journal commit refused at %s: %v", res.FailedAt, res.Errno)
		}
	case "journal-rollback-spill":
		prog := GenProgram(t, h.ref.N(), h.maxPages, 0)
		prog.Outcome = OutRollback
		if len(prog.Modify) < 3 {
			prog.Modify = append(prog.Modify, 1, 2, 3)
		}
		prog.SpillAt = []int{1}
		res := c.WriteTx(prog, h.ref)
		opOK = res.Outcome == OutRollback
	case "switch-to-wal":
		res := c.WriteTx(TxProgram{NewSize: maxU32(h.ref.N(), 1), Outcome: OutCommit, SetWAL: 1}, h.ref)
		opOK = res.Outcome == OutCommit
		if opOK {
			h.ref = res.After
		}
	case "wal-commit", "wal-restart-commit":
		prog := GenWalProgram(t, h.ref.N(), h.maxPages)
		prog.Outcome = OutCommit
		res := c.WalWriteTx(prog, h.ref)
		opOK = res.Outcome == OutCommit
		if opOK {
			h.ref = res.After
		} else if !faulting {
			r.Failf("c05.op-refused", "WAL commit refused at %s: %v", res.FailedAt, res.Errno)
		}
	case "app-checkpoint":
		mode := []string{CkptPassive, CkptFull, CkptRestart, CkptTruncate}[t.Next(4)]
		_, e := c.WalCheckpoint(mode)
		opOK = e == 0
	case "litefs-checkpoint":
		err := h.n.Store.Recover(context.Background())
		opOK = err == nil
	case "hot-journal-recover":
		// a writer dies after spilling: journal synced, some pages written in place
		c.Mode = h.jmode
		cr.active = false
		c05AbandonTx(c, t, h.ref)
		cr.active = !faulting
		err := h.n.Store.Recover(context.Background())
		opOK = err == nil
		if !faulting {
			r.Check(err == nil, "c05.op-refused", "Store.Recover with a hot journal failed: %v", err)
		}
	case "drop":
		h.closeConns()
		e := h.n.K.Unlink(h.name)
		opOK = e == 0
		if opOK {
			cr.committed = true
			h.ref = nil
		} else if !faulting {
			r.Failf("c05.op-refused", "drop refused: %v", e)
		}
	case "import":
		h.closeConns()
		im := MakeImage(h.pageSize, uint32(t.Range(1, 20)), walShape, 5)
		res := h.importImage(im)
		opOK = res.Code == 200 && !res.Panicked
		if opOK {
			cr.committed = true
			h.ref = im.ImportedForm()
		} else if !faulting {
			r.Failf("c05.op-refused", "import refused: %d %s %s", res.Code, res.Body, res.PanicMsg)
		}
	}
	cr.active = false
	cr.detach()
	if r.Failed() {
		return
	}
	var after ltx.Pos
	exited := h.n.Exited
	if !exited {
		if d := h.db(); d != nil {
			after = d.Pos()
		}
	}
	if opOK && !exited {
		ims.Put(h.name, after, h.ref)
	}
	cx := &c05ctx{r: r, name: h.name, ims: ims, before: before, after: after, shape: shape, nested: nested, pageSize: h.pageSize}
	if faulting {
		r.Count("c05.faulting.runs")
		// relaxed oracle: the operation may fail or the node may exit; what it
		// leaves behind must still recover to the before- or after-position.
		cx.shape = shape + "+oserr"
		var final string
		if exited {
			r.Count("c05.faulting.exit")
			final = h.n.ExitImage
		} else {
			img, err := h.n.Image("final")
			if err != nil {
				r.Inconclusive("image: %v", err)
				return
			}
			final = img
		}
		// Acceptable outcomes: the before-position, or its successor if a file
		// for it was published. When SQLite saw an error the successor's image
		// cannot be attributed to SQLite's view, so the published file itself
		// (applied to the before-image) defines it.
		cx.after = before
		if nl, _ := NewestLTX(filepath.Join(final, "dbs", h.name)); nl != nil && nl.Header.MaxTXID == before.TXID+1 {
			p := ltx.Pos{TXID: nl.Header.MaxTXID, PostApplyChecksum: nl.Trailer.PostApplyChecksum}
			cx.after = p
			if opOK && !exited {
				ims.Put(h.name, p, h.ref)
			} else if _, ok := ims.Get(h.name, p); !ok {
				ims.Put(h.name, p, nl.Apply(beforeRef))
			}
		}
		h.closeConns()
		cx.verify(crashImg{dir: final, label: "final-state fault=" + h.n.OS.FiredAt, afterCommit: opOK && !exited && cr.committed}, 1)
		return
	}
	if !r.Check(!exited, "c05.exit", "LiteFS exited during a fault-free %s", shape) {
		return
	}
	h.closeConns()
	r.Add("c05.images.distinct", int64(len(cr.imgs)))
	for _, img := range cr.imgs {
		cx.verify(img, 0)
		if r.Failed() {
			break
		}
	}
	r.Sample = map[string]any{"shape": shape, "step_boundaries": cr.boundary, "distinct_images": len(cr.imgs), "first_labels": labelsOf(cr.imgs, 25)}
	_ = beforeRef
}

func labelsOf(imgs []crashImg, n int) []string {
	var out []string
	for i, im := range imgs {
		if i >= n {
			break
		}
		out = append(out, im.label)
	}
	return out
}

// c05AbandonTx starts a journal transaction, spills (journal synced, pages
// written in place) and then the SQLite process dies: descriptors close, locks
// drop, the hot journal stays.
func c05AbandonTx(c *Conn, t *Tape, ref *Image) {
	if ref.N() == 0 {
		return
	}
	if c.LockShared() != 0 {
		return
	}
	if c.LockReserved() != 0 {
		c.abortTx()
		return
	}
	if c.openJournal() != 0 {
		c.abortTx()
		return
	}
	j := &jstate{nonce: c.newNonce(), origSize: ref.N()}
	c.jwrite(0, c.journalHeader(j, false))
	j.off = int64(c.SectorSize)
	n := t.Range(1, int(min32(ref.N(), 4)))
	var pgs []uint32
	for i := 0; i < n; i++ {
		pg := uint32(i + 1)
		orig, _ := c.ReadPage(pg)
		var b4 [4]byte
		b4[0], b4[1], b4[2], b4[3] = byte(pg>>24), byte(pg>>16), byte(pg>>8), byte(pg)
		c.jwrite(j.off, b4[:])
		c.jwrite(j.off+4, orig)
		ck := journalCksum(orig, j.nonce)
		b4[0], b4[1], b4[2], b4[3] = byte(ck>>24), byte(ck>>16), byte(ck>>8), byte(ck)
		c.jwrite(j.off+4+int64(c.PageSize), b4[:])
		j.off += int64(c.PageSize) + 8
		j.nRec++
		pgs = append(pgs, pg)
	}
	if c.LockExclusive() != 0 {
		c.abortTx()
		return
	}
	if _, e := c.syncJournal(j, false); e != 0 {
		// the journal could not be synced: SQLite never writes a page in place
		// after that; the process dies with what it has
		c.jf.Close()
		c.jf = nil
		c.dbf.Close()
		c.dbf = nil
		c.lock = 0
		return
	}
	hdr := DBHeader{ChangeCounter: 999, SizePages: ref.N()}
	for _, pg := range pgs[:t.Range(1, len(pgs))] {
		if pg == 1 {
			continue // page 1 is written last by SQLite
		}
		c.dbf.Pwrite(int64(pg-1)*int64(c.PageSize), MakePage(c.PageSize, c.ID, 4242, pg, 1, &hdr))
	}
	// the process dies
	c.jf.Close()
	c.jf = nil
	c.dbf.Close()
	c.dbf = nil
	c.lock = 0
}

// c05Replica: crash points inside a replica's apply of an incremental file, a
// snapshot, or a tombstone, fed by a scripted primary.
func c05Replica(r *Run, shape string, faulting, nested bool) {
	t := r.Tape
	h := &hist{r: r, name: "db"}
	h.pageSize = pickPageSize(t)
	r.SectorSize = pickSectorSize(t)
	r.Cfg["sector_size"] = r.SectorSize
	if h.pageSize > 8192 {
		h.pageSize = 4096
	}
	h.jmode = ModeDelete
	h.maxPages = 40
	if h.pageSize <= 1024 {
		h.maxPages = 300
	}
	compress := t.Chance(1, 2)
	r.Cfg["page_size"], r.Cfg["lz4"] = h.pageSize, compress
	h.n = newStaticPrimary(r, compress, nil)
	if h.n == nil {
		return
	}
	if !h.openConns(1) {
		return
	}
	ims := NewImageStore()
	ims.Put(h.name, ltx.Pos{}, nil)
	type step struct {
		pos ltx.Pos
		ltx []byte
	}
	var steps []step
	commit := func() bool {
		prev := h.db()
		var pp ltx.Pos
		if prev != nil {
			pp = prev.Pos()
		}
		h.commit(t)
		if r.Failed() {
			return false
		}
		pos := h.db().Pos()
		if pos.TXID != pp.TXID+1 {
			return true
		}
		b, err := os.ReadFile(h.db().LTXPath(pos.TXID, pos.TXID))
		if err != nil {
			r.Inconclusive("read ltx: %v", err)
			return false
		}
		ims.Put(h.name, pos, h.ref)
		steps = append(steps, step{pos, b})
		return true
	}
	wal := t.Chance(1, 3)
	for i := 0; i < t.Range(2, 5); i++ {
		if !commit() {
			return
		}
		if i == 0 && wal && h.ref.N() > 0 {
			if !h.toWAL() {
				return
			}
			pos := h.db().Pos()
			b, _ := os.ReadFile(h.db().LTXPath(pos.TXID, pos.TXID))
			ims.Put(h.name, pos, h.ref)
			steps = append(steps, step{pos, b})
		}
	}
	if len(steps) < 2 {
		return
	}
	// the replica, fed by a scripted primary
	sc := NewScriptClient(r, h.n.Store.ClusterID())
	rep := r.NewNode(NodeCfg{Candidate: false, Client: sc, Compress: compress})
	rep.Cfg.Leaser = litefs.NewStaticLeaser(false, "p", "http://p:20202")
	rep.Cfg.Tune = func(s *litefs.Store) { s.ReconnectDelay = 10 * time.Millisecond }
	if err := rep.Open(); err != nil {
		r.Inconclusive("open replica: %v", err)
		return
	}
	st := sc.WaitStream(2 * time.Second)
	if st == nil {
		r.Inconclusive("replica did not connect")
		return
	}
	feed := func(b []byte, want ltx.Pos) bool {
		st.Push(EncodeLTXFrame(h.name, b))
		if !waitPos(rep, h.name, want, 3*time.Second) {
			if rep.Exited {
				return false
			}
			r.Failf("c05.replica-stuck", "replica did not reach %s", want)
			return false
		}
		return true
	}
	// bring the replica to the position before the probed apply
	var before, after ltx.Pos
	var probe []byte
	switch shape {
	case "replica-apply":
		k := t.Range(1, len(steps)-1) // apply steps[0..k-1] via snapshot+incrementals, probe steps[k]
		snap, spos, err := c05SnapshotAt(r, h, steps[0].ltx)
		_ = spos
		if err != nil {
			r.Inconclusive("snapshot: %v", err)
			return
		}
		if !feed(snap, steps[0].pos) {
			return
		}
		for i := 1; i < k; i++ {
			if !feed(steps[i].ltx, steps[i].pos) {
				return
			}
		}
		before, after, probe = steps[k-1].pos, steps[k].pos, steps[k].ltx
	case "replica-snapshot":
		if t.Chance(1, 4) {
			// the node is AHEAD of the primary it follows now (a former primary
			// with transactions the new one never got): it holds the whole
			// history and receives a snapshot of an earlier position
			snap, spos, err := c05SnapshotAt(r, h, steps[0].ltx)
			if err != nil {
				r.Inconclusive("snapshot: %v", err)
				return
			}
			if !feed(snap, spos) {
				return
			}
			for i := 1; i < len(steps); i++ {
				if !feed(steps[i].ltx, steps[i].pos) {
					return
				}
			}
			before, after, probe = steps[len(steps)-1].pos, spos, snap
			r.Count("c05.replica-snapshot.lower-txid")
			break
		}
		// replica holds an older state (or nothing), receives a full snapshot
		if t.Chance(1, 2) {
			if !feed(steps[0].ltx, steps[0].pos) {
				return
			}
			before = steps[0].pos
		}
		b, pos, err := SnapshotBytes(h.db())
		if err != nil {
			r.Inconclusive("snapshot: %v", err)
			return
		}
		after, probe = pos, b
	case "replica-tombstone":
		if !feed(steps[0].ltx, steps[0].pos) {
			return
		}
		for i := 1; i < len(steps); i++ {
			if !feed(steps[i].ltx, steps[i].pos) {
				return
			}
		}
		before = steps[len(steps)-1].pos
		h.closeConns()
		if e := h.n.K.Unlink(h.name); e != 0 {
			r.Failf("c05.op-refused", "drop on the primary refused: %v", e)
			return
		}
		pos := h.db().Pos()
		b, err := os.ReadFile(h.db().LTXPath(pos.TXID, pos.TXID))
		if err != nil {
			r.Inconclusive("read tombstone: %v", err)
			return
		}
		ims.Put(h.name, pos, nil)
		after, probe = pos, b
	}
	if faulting {
		rep.OS.FailNth = int64(t.Range(1, 10))
		rep.OS.FailErr = syscall.EIO
	}
	cr := newCrashRec(r, rep, "rimg")
	cr.active = !faulting
	st.Push(EncodeLTXFrame(h.name, probe))
	reached := waitPos(rep, h.name, after, 3*time.Second)
	cr.active = false
	cr.detach()
	cx := &c05ctx{r: r, name: h.name, ims: ims, before: before, after: after, shape: shape, replica: true, nested: nested, pageSize: h.pageSize}
	if faulting {
		r.Count("c05.faulting.runs")
		cx.shape = shape + "+oserr"
		var final string
		if rep.Exited {
			r.Count("c05.faulting.exit")
			final = rep.ExitImage
		} else {
			// let the replica settle (it disconnects and retries), then image it
			time.Sleep(50 * time.Millisecond)
			img, err := rep.Image("final")
			if err != nil {
				r.Inconclusive("image: %v", err)
				return
			}
			final = img
		}
		cx.verify(crashImg{dir: final, label: "final-state fault=" + rep.OS.FiredAt}, 1)
		return
	}
	if !r.Check(!rep.Exited, "c05.exit", "replica exited during a fault-free %s", shape) {
		return
	}
	if !r.Check(reached, "c05.replica-stuck", "replica did not reach %s after %s", after, shape) {
		return
	}
	r.Add("c05.images.distinct", int64(len(cr.imgs)))
	for _, img := range cr.imgs {
		cx.verify(img, 0)
		if r.Failed() {
			break
		}
	}
	r.Sample = map[string]any{"shape": shape, "step_boundaries": cr.boundary, "distinct_images": len(cr.imgs), "first_labels": labelsOf(cr.imgs, 25)}
}

// c05SnapshotAt returns the first transaction file as a snapshot (TXID 1 files
// are snapshots by definition).
func c05SnapshotAt(r *Run, h *hist, first []byte) ([]byte, ltx.Pos, error) {
	f, err := DecodeLTX(bytes.NewReader(first))
	if err != nil {
		return nil, ltx.Pos{}, err
	}
	return first, ltx.Pos{TXID: f.Header.MaxTXID, PostApplyChecksum: f.Trailer.PostApplyChecksum}, nil
}
